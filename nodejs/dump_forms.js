// Dumps every expanded form of the repository's ISA databases through the repository's own reader (db/index.js).
// usage: node dump_forms.js <repo> <outdir>
const path = require('path');
const fs = require('fs');
const repo = process.argv[2] || '/repo';
const out = process.argv[3] || '.';
const db = require(path.join(repo, 'db', 'index.js'));

function dump(isa, file) {
  const forms = [];
  for (const name of isa.instructionNames) {
    for (const inst of isa.query(name)) forms.push(inst);
  }
  fs.writeFileSync(path.join(out, file), JSON.stringify(forms));
  return forms.length;
}

const x86 = new db.x86.ISA(require(path.join(repo, 'db', 'isa_x86.json')));
const nx = dump(x86, 'x86_forms.json');
let na = -1;
try {
  const a64 = new db.aarch64.ISA(require(path.join(repo, 'db', 'isa_aarch64.json')));
  na = dump(a64, 'a64_forms.json');
} catch (e) {
  fs.writeFileSync(path.join(out, 'a64_error.txt'), String(e && e.stack || e));
}
console.log(JSON.stringify({x86: nx, a64: na}));
