"""C20 oracle helpers: OUR tokenizer of formatter / logger lines (AsmJit's and objdump's Intel syntax, AsmJit's AArch64
notation) and the expected-token generators that turn a *case* into what a faithful line must contain.

Tolerant of punctuation and spacing, strict on content. Register names come from vlib/x86text.py / vlib/a64text.py
(tables written from the architecture manuals), never from AsmJit. Notation that AsmJit documents as its own style is
encoded here explicitly (and commented as such), not learned from the output:
  x86:  `st3` for st(3); `repnz`; `{modrm}`/`{modmr}`/`{vex3}`.. option keywords; `abs`/`rel` address keywords;
        alias list `jz|je`, `cmov.z|e` under kShowAliases; `%<index>` for unnamed virtual registers; `@gpd`-style type
        annotations under kRegType/kRegCasts; `&` in front of a register home; immediates in hex are printed as unsigned
        64-bit two's complement; `{..|..}` explanation after an immediate under kExplainImms; `<NNNNN>` node positions.
  a64:  default `lsl` omitted; `v1.4s[1]` element style; `wzr/xzr/sp/wsp`; shift/extend written without `#` and comma;
        FP immediates shown as their IEEE-754 bit pattern; `<None>` for an absent base register.
"""
import re
import struct

from vlib import a64text, x86gen as G, x86text

M64 = (1 << 64) - 1

# ---------------------------------------------------------------------------------------------------------------------
# line level
# ---------------------------------------------------------------------------------------------------------------------

_POS = re.compile(r"^\s*<(\d+)>\s*")


def split_line(line):
    """-> (position|None, text, machine_code_hex|None, comment|None). The machine-code column follows the first ';'
    and ends at '|' (inline comment)."""
    line = line.rstrip("\n")
    pos = None
    m = _POS.match(line)
    if m:
        pos = int(m.group(1))
        line = line[m.end():]
    text, mc, comment = line, None, None
    if ";" in line:
        text, rest = line.split(";", 1)
        if "|" in rest:
            rest, comment = rest.split("|", 1)
        mc = rest.strip()
    return pos, text.strip(), mc, comment


def split_log_line(line, mc_on):
    """logger line -> (position|None, text, machine_code|None, comment|None, leading spaces).
    Documented layout (emitterutils.cpp finish_formatted_line): `<text> ; <machine code> | <comment>` with kMachineCode,
    `<text> ; <comment>` without it; a column that has nothing to show is left out."""
    line = line.rstrip("\n")
    indent = len(line) - len(line.lstrip(" "))
    pos = None
    m = _POS.match(line)
    if m:
        pos = int(m.group(1))
        line = line[m.end():]
    text, mc, comment = line, None, None
    if ";" in line:
        text, rest = line.split(";", 1)
        if mc_on:
            if "|" in rest:
                rest, comment = rest.split("|", 1)
            mc = rest.strip()
        else:
            comment = rest
    if comment is not None:
        comment = comment[1:] if comment.startswith(" ") else comment
    return pos, text.strip(), mc, comment, indent


LONG_COMMENT_LIMIT = 1024         # Globals::kMaxCommentSize (documented): longer inline comments are cut there


def expected_comment(cid, kind, clamp=True):
    """the inline comment the driver attaches for layout kind 1 / 2 (drv_format.cpp); the logger cuts it at kMaxCommentSize"""
    if kind == 1:
        return "c20#%d note" % cid
    if kind == 2:
        t = "c20#%d " % cid
        while len(t) < 1100:
            t += chr(ord("a") + len(t) % 26)
        return t[:LONG_COMMENT_LIMIT] if clamp else t
    return None


def check_machine_code(mc, raw_hex, allow_wildcard):
    """mc: printed column (hex digits and '.'), raw_hex: bytes appended. Returns None if faithful, else a message.
    '.' pairs may only stand for label displacement bytes (allow_wildcard), as one contiguous run of 1 or 4 bytes."""
    col = mc.replace(" ", "")
    if len(col) != len(raw_hex):
        return "column has %d hex digits, %d bytes were appended" % (len(col), len(raw_hex) // 2)
    dots = []
    for i in range(0, len(col), 2):
        a, b = col[i:i + 2], raw_hex[i:i + 2]
        if a == "..":
            dots.append(i // 2)
            if b != "00":
                return "wildcard over byte %d which already holds %s" % (i // 2, b)
            continue
        if "." in a or a.lower() != b.lower():
            return "byte %d printed as %s, appended %s" % (i // 2, a, b)
    if dots:
        if not allow_wildcard:
            return "wildcard bytes although the instruction references no unbound label"
        if dots != list(range(dots[0], dots[0] + len(dots))) or len(dots) not in (1, 4):
            return "wildcard bytes are not one displacement field (%s)" % dots
    return None


# ---------------------------------------------------------------------------------------------------------------------
# x86 text -> tokens
# ---------------------------------------------------------------------------------------------------------------------

# AsmJit option keywords (documented notation) and the decoders' prefix spellings
X86_PREFIX_KW = {"{vex}", "{vex3}", "{evex}", "{modrm}", "{modmr}", "short", "long", "xacquire", "xrelease", "lock", "rep",
                 "repnz", "repne", "repe", "repz", "rex", "{vex2}", "{disp8}", "{disp32}", "notrack", "bnd", "data16", "data32", "addr16",
                 "addr32", "rex.w", "rex.r", "rex.x", "rex.b", "rex.wr", "rex.wx", "rex.wb", "rex.rx", "rex.rb", "rex.xb", "rex.wrx",
                 "rex.wrb", "rex.wxb", "rex.rxb", "rex.wrxb", "cs", "ds", "es", "ss", "fs", "gs", "fwait", "wait"}
KW_CANON = {"repne": "repnz", "repe": "rep", "repz": "rep"}

# size keywords (Intel SDM / MASM): bytes
SIZE_KW = {"byte": 1, "word": 2, "dword": 4, "fword": 6, "qword": 8, "tbyte": 10, "tword": 10, "oword": 16, "xmmword": 16,
           "ymmword": 32, "zmmword": 64}
# AsmJit's virtual-register type annotations (documented notation of kRegType / kRegCasts)
TYPE_ANNOT = {"gp8lo": "gpb", "gp8hi": "gpb.hi", "gp16": "gpw", "gp32": "gpd", "gp64": "gpq", "xmm": "xmm", "ymm": "ymm", "zmm": "zmm",
              "k": "k", "mm": "mm", "sreg": "seg", "creg": "cr", "dreg": "dr", "st": "st", "bnd": "bnd", "tmm": "tmm", "rip": "rip"}
_ANNOTS = set(TYPE_ANNOT.values())

_NUM = re.compile(r"^([+-]?)\s*(0x[0-9a-fA-F]+|\d+)$")
_BRACE = re.compile(r"\{([^{}]*)\}")


def parse_num(s):
    m = _NUM.match(s.strip())
    if not m:
        return None
    v = int(m.group(2), 0)
    return -v if m.group(1) == "-" else v


def norm_reg(name):
    """st(3) -> st3, st -> st0; lower case"""
    n = name.strip().lower()
    m = re.match(r"^st\((\d)\)$", n)
    if m:
        return "st" + m.group(1)
    if n == "st":
        return "st0"
    return n


def split_annot(tok):
    """`name@gpd` -> (name, 'gpd'); `&name` (register home) -> name; anonymous named labels `L3@dbg` keep their '@'."""
    t = tok.strip()
    home = t.startswith("&")
    if home:
        t = t[1:]
    if "@" in t:
        a, b = t.rsplit("@", 1)
        if b in _ANNOTS:
            return a, b, home
    return t, None, home


def split_top(s, sep=","):
    out, depth, cur = [], 0, ""
    for ch in s:
        if ch in "[{(":
            depth += 1
        elif ch in "]})":
            depth -= 1
        if ch == sep and depth == 0:
            out.append(cur)
            cur = ""
        else:
            cur += ch
    if cur.strip() or out:
        out.append(cur)
    return [x.strip() for x in out]


def parse_mem_inner(inner, m):
    inner = inner.strip()
    low = inner.lower()
    for kw in ("abs ", "rel "):
        if low.startswith(kw):
            m["addr"] = kw.strip()
            inner = inner[len(kw):].strip()
    terms = re.findall(r"([+-]?)\s*([^+-]+)", inner)
    regs = []
    for sign, body in terms:
        body = body.strip()
        if not body:
            continue
        v = parse_num(body)
        if v is not None:
            m["disp"] = (m["disp"] or 0) + (-v if sign == "-" else v)
            m["ndisp"] += 1
            continue
        if sign == "-":
            m["odd"].append("negated non-numeric term `%s`" % body)
        if "*" in body:
            r, sc = body.split("*", 1)
            sv = parse_num(sc)
            if sv is None:
                # decoders may write scale*reg
                sv = parse_num(r)
                r = sc
            if m["index"] is not None:
                m["odd"].append("two scaled registers")
            m["index"] = r.strip()
            m["scale"] = sv
            continue
        regs.append(body)
    for r in regs:
        if m["base"] is None:
            m["base"] = r
        elif m["index"] is None:
            m["index"] = r
            m["scale"] = None
        else:
            m["odd"].append("more than two registers")


def parse_x86_operand(s):
    """one operand of an Intel-syntax line (AsmJit or objdump) -> dict"""
    op = {"kind": None, "deco": [], "raw": s}
    decos = _BRACE.findall(s)
    body = _BRACE.sub(" ", s).strip()
    op["deco"] = [d.strip() for d in decos]
    if not body:
        op["kind"] = "deco"
        return op
    if "[" in body or re.search(r"\b[a-z]s:\s*(0x[0-9a-f]+|\d+)\s*$", body, re.I):
        m = {"kind": "mem", "size": None, "bcst_kw": False, "seg": None, "base": None, "index": None, "scale": None, "disp": None,
             "ndisp": 0, "addr": None, "odd": [], "deco": op["deco"], "raw": s}
        mm = re.match(r"^(?:(\w+)\s+(ptr|bcst)\s+)?(?:(\w+)\s*:\s*)?(?:\[(.*)\]|(0x[0-9a-fA-F]+|\d+))\s*$", body, re.I)
        if not mm:
            m["odd"].append("unparsable memory operand")
            return m
        if mm.group(1):
            m["size"] = mm.group(1).lower()
            m["bcst_kw"] = mm.group(2).lower() == "bcst"
        if mm.group(3):
            m["seg"] = mm.group(3).lower()
        if mm.group(4) is not None:
            parse_mem_inner(mm.group(4), m)
        else:
            m["disp"] = int(mm.group(5), 0)
            m["ndisp"] = 1
        return m
    v = parse_num(body)
    if v is not None:
        op["kind"] = "imm"
        op["value"] = v
        return op
    op["kind"] = "name"
    op["name"] = body
    return op


def parse_x86_text(text):
    """-> dict(prefixes=[canonical keywords], mask=None|str, mnemonic, ops=[..], tail=[standalone decorators])"""
    t = text.strip()
    out = {"prefixes": [], "mnemonic": None, "ops": [], "tail": [], "rep_extra": None}
    # leading keywords; `rep {ecx} ` style extra register
    while True:
        m = re.match(r"^(\{[a-z0-9]+\}|[A-Za-z0-9.]+)(\s+|$)", t)
        if not m:
            break
        w = m.group(1).lower()
        if w in X86_PREFIX_KW:
            rest = t[m.end():]
            if w in ("cs", "ds", "es", "ss", "fs", "gs") and not rest:
                break
            out["prefixes"].append(KW_CANON.get(w, w))
            t = rest
            mm = re.match(r"^\{([^}]*)\}\s+", t)
            if mm and w.startswith("rep"):
                out["rep_extra"] = mm.group(1)
                t = t[mm.end():]
            continue
        break
    m = re.match(r"^(\S+)\s*(.*)$", t)
    if not m:
        if out["prefixes"]:
            out["mnemonic"] = out["prefixes"].pop()      # `fwait`, `lock` ... alone on the line
        return out
    out["mnemonic"] = m.group(1)
    rest = m.group(2).strip()
    if rest:
        for part in split_top(rest):
            op = parse_x86_operand(part)
            if op["kind"] == "deco":
                out["tail"] += op["deco"]
            else:
                out["ops"].append(op)
    return out


def mnemonic_names(mn):
    """AsmJit alias notation -> list of full names: `jz|je` -> [jz, je]; `cmov.z|e` -> [cmovz, cmove]"""
    mn = mn.lower()
    if "." in mn and "|" in mn:
        stem, alts = mn.split(".", 1)
        return [stem + a for a in alts.split("|")]
    if "|" in mn:
        return mn.split("|")
    return [mn]


# ---------------------------------------------------------------------------------------------------------------------
# x86 case -> expected tokens, and comparison
# ---------------------------------------------------------------------------------------------------------------------

ER_KW = {G.OPT_RN: "rn-sae", G.OPT_RD: "rd-sae", G.OPT_RU: "ru-sae", G.OPT_RZ: "rz-sae"}
OPT_KW = [(G.OPT_VEX, "{vex}"), (G.OPT_VEX3, "{vex3}"), (G.OPT_EVEX, "{evex}"), (G.OPT_MODRM, "{modrm}"), (G.OPT_MODMR, "{modmr}"),
          (G.OPT_SHORT, "short"), (G.OPT_LONG, "long"), (G.OPT_XACQUIRE, "xacquire"), (G.OPT_XRELEASE, "xrelease"), (G.OPT_LOCK, "lock"),
          (G.OPT_REP, "rep"), (G.OPT_REPNE, "repnz"), (G.OPT_REX, "rex")]


def expected_prefixes(opts):
    kws = []
    for bit, kw in OPT_KW:
        if opts & bit:
            kws.append(kw)
    if opts & G.OPT_MODRM and opts & G.OPT_MODMR:
        kws.remove("{modmr}")     # documented: ModRM wins
    if opts & G.OPT_REP and opts & G.OPT_REPNE:
        kws.remove("repnz")
    return kws


class Names:
    """what registers / labels are called in one call context. vregs: k -> (created rtype, name|None, index);
    labels: key -> text"""

    def __init__(self, vregs=None, labels=None, l0=None, ln=None):
        self.vregs = vregs or {}
        self.labels = labels or {}
        self.l0 = l0
        self.ln = list(ln or [])
        self._ln_used = 0

    def reg(self, rtype, rid, flags, home=False):
        """-> (name|None, annotation|None). rid may be 'v<k>'"""
        if isinstance(rid, str):
            created, name, index = self.vregs[int(rid[1:])]
            n = name if name else "%%%d" % index
            show = bool(flags & 0x400) or (bool(flags & 0x100) and created != rtype and not home)
            return n, (TYPE_ANNOT.get(rtype) if show else None)
        n = x86text.reg_name(rtype, rid)
        return (norm_reg(n) if n else None), None

    def label(self, tok):
        if isinstance(tok, str) and not tok.isdigit():
            return self.labels.get(tok)
        n = int(tok)
        if n == 0:
            return None if self.l0 is None or self.l0 < 0 else "L%d" % self.l0
        if self._ln_used < len(self.ln):
            v = self.ln[self._ln_used]
            self._ln_used += 1
            return "L%d" % v
        return None


def _eq64(a, b):
    return (a & M64) == (b & M64)


def compare_x86_operand(exp, got, names, flags, mode, in_instruction=True):
    """exp: case operand; got: parsed operand. Yields (field, message) for every content mismatch; yields
    ('noverdict', why) when the expected side has no name for something."""
    k = exp[0]
    if k == "R":
        n, annot = names.reg(exp[1], exp[2], flags)
        if n is None:
            yield ("noverdict", "no architectural name for %s:%s" % (exp[1], exp[2]))
            return
        if got["kind"] != "name":
            yield ("operand-kind", "register %s printed as `%s`" % (n, got["raw"]))
            return
        gn, ga, _ = split_annot(got["name"])
        virt = isinstance(exp[2], str)
        if (gn != n) if virt else (norm_reg(gn) != n.lower()):
            yield ("reg:" + exp[1], "register %s:%s (%s) printed as `%s`" % (exp[1], exp[2], n, got["name"]))
        if (ga or None) != (annot or None) and isinstance(exp[2], str):
            yield ("reg-annotation", "virtual register %s used as %s: annotation `%s`, expected `%s`" % (n, exp[1], ga, annot))
        elif ga and not isinstance(exp[2], str):
            yield ("reg-annotation", "physical register %s printed with annotation `%s`" % (n, ga))
    elif k == "I":
        if got["kind"] != "imm":
            yield ("operand-kind", "immediate %d printed as `%s`" % (exp[1], got["raw"]))
            return
        if not _eq64(got["value"], exp[1]):
            yield ("imm", "immediate %d printed as `%s`" % (exp[1], got["raw"]))
    elif k == "L":
        n = names.label(exp[1])
        if n is None:
            yield ("noverdict", "label id unknown")
            return
        if got["kind"] != "name" or got["name"] != n:
            yield ("label", "label %s printed as `%s`" % (n, got["raw"]))
    elif k == "M":
        m = exp[1]
        if got["kind"] != "mem":
            yield ("operand-kind", "memory operand printed as `%s`" % got["raw"])
            return
        for o in got["odd"]:
            yield ("mem-syntax", o + " in `%s`" % got["raw"])
        # size
        want = None
        for kw, n in (("byte", 1), ("word", 2), ("dword", 4), ("fword", 6), ("qword", 8), ("tbyte", 10), ("xmmword", 16), ("ymmword", 32), ("zmmword", 64)):
            if n == m["size"]:
                want = n
        have = SIZE_KW.get(got["size"]) if got["size"] else None
        if got["size"] and have is None:
            yield ("mem-size", "unknown size keyword `%s`" % got["size"])
        elif have is not None and have != m["size"]:
            yield ("mem-size", "memory size %d printed as `%s ptr`" % (m["size"], got["size"]))
        elif want is not None and have is None:
            yield ("mem-size", "memory size %d not printed in `%s`" % (m["size"], got["raw"]))
        # segment
        wseg = x86text.SREG[m["seg"]] if m["seg"] else None
        if (got["seg"] or None) != wseg:
            yield ("mem-seg", "segment %s printed as `%s`" % (wseg, got["seg"]))
        # base / index / scale
        wb = wi = None
        wbann = wiann = None
        unknown = False
        if m["base"]:
            if m["base"][0] == "label":
                wb = names.label(m["base"][1])
                unknown |= wb is None
            else:
                wb, wbann = names.reg(m["base"][0], m["base"][1], flags, home=bool(m.get("home")))
                unknown |= wb is None
        if m["index"]:
            wi, wiann = names.reg(m["index"][0], m["index"][1], flags)
            unknown |= wi is None
        if unknown:
            yield ("noverdict", "no architectural name for a base/index register")
        else:
            gb = split_annot(got["base"]) if got["base"] else (None, None, False)
            gi = split_annot(got["index"]) if got["index"] else (None, None, False)
            gbn = norm_reg(gb[0]) if gb[0] and not (m["base"] and (m["base"][0] == "label" or isinstance(m["base"][1], str))) else gb[0]
            gin = norm_reg(gi[0]) if gi[0] and not (m["index"] and isinstance(m["index"][1], str)) else gi[0]
            wscale = (1 << m["shift"]) if m["index"] else None
            gscale = got["scale"] if got["scale"] is not None else (1 if got["index"] or (got["base"] and wi and not wb) else None)
            if wb is None and wi is not None and got["index"] is None and got["base"] is not None:
                # index-only operand with scale 1: `[reg+disp]` names the same address
                gbn, gin = None, gbn
                gb, gi = gi, gb
            if gbn != wb:
                yield ("mem-base", "base %s printed as `%s` in `%s`" % (wb, got["base"], got["raw"]))
            elif wb is not None and m["base"][0] != "label" and bool(gb[2]) != bool(m.get("home")):
                # `&` in front of the base: the operand is the home slot of that (virtual) register, not an address held in it
                yield ("mem-home", "register-home flag %s, printed `%s`" % (bool(m.get("home")), got["raw"]))
            if gin != wi:
                yield ("mem-index", "index %s printed as `%s` in `%s`" % (wi, got["index"], got["raw"]))
            elif wi is not None and gscale != wscale:
                yield ("mem-scale", "scale %d (shift %d) printed as `%s` in `%s`" % (wscale, m["shift"], got["scale"], got["raw"]))
            if wb is not None and gbn == wb and m["base"][0] != "label" and isinstance(m["base"][1], str) and (gb[1] or None) != (wbann or None):
                yield ("reg-annotation", "virtual base register annotation `%s`, expected `%s`" % (gb[1], wbann))
            if wi is not None and gin == wi and isinstance(m["index"][1], str) and (gi[1] or None) != (wiann or None):
                yield ("reg-annotation", "virtual index register annotation `%s`, expected `%s`" % (gi[1], wiann))
        # displacement
        wd = m["disp"]
        gd = got["disp"] if got["disp"] is not None else 0
        if got["ndisp"] > 1:
            yield ("mem-disp", "two displacements in `%s`" % got["raw"])
        if mode == 32 and not m["base"] and not m["index"]:
            ok = (gd & 0xFFFFFFFF) == (wd & 0xFFFFFFFF)
        else:
            ok = _eq64(gd, wd)
        if not ok:
            yield ("mem-disp", "displacement %d printed as `%s`" % (wd, got["raw"]))
        # address type keyword
        wa = m["addr"] if m["addr"] in ("abs", "rel") else None
        if (got["addr"] or None) != wa:
            yield ("mem-addrtype", "address type %s printed as `%s`" % (wa, got["addr"]))
        # broadcast
        if in_instruction:
            b = [d for d in got["deco"] if re.match(r"^1to\d+$", d)]
            wbc = "1to%d" % (1 << m["bcst"]) if m["bcst"] else None
            if (b[0] if b else None) != wbc or len(b) > 1:
                yield ("mem-bcst", "broadcast %s printed as %s in `%s`" % (wbc, b, got["raw"]))


LEGACY_PREFIXES = {0x66, 0x67, 0xF2, 0xF3, 0xF0, 0x2E, 0x36, 0x3E, 0x26, 0x64, 0x65}


def encoding_facts(raw_hex, mode):
    """(has REX prefix, uses a rel8 branch opcode) read from the appended bytes"""
    b = bytes.fromhex(raw_hex) if raw_hex else b""
    i = 0
    while i < len(b) and b[i] in LEGACY_PREFIXES:
        i += 1
    rex = mode == 64 and i < len(b) and (b[i] & 0xF0) == 0x40
    if rex:
        i += 1
    op = b[i] if i < len(b) else None
    rel8 = op is not None and (op == 0xEB or 0x70 <= op <= 0x7F or 0xE0 <= op <= 0xE3) and len(b) == i + 2
    return rex, rel8


def compare_x86_line(case, alias_group, parsed, names, flags, mode, raw_hex=None):
    """-> list of (field, message)"""
    out = []
    opts = case["opts"]
    has_rex, rel8 = encoding_facts(raw_hex, mode) if raw_hex else (False, False)
    emitted_short = rel8 and any(op[0] == "L" for op in case["ops"])
    # mnemonic
    mns = mnemonic_names(parsed["mnemonic"] or "")
    grp = alias_group(case["name"])
    if not (flags & 0x8) and len(mns) != 1:
        out.append(("mnemonic", "alias notation `%s` although kShowAliases is off" % parsed["mnemonic"]))
    if any(x not in grp for x in mns) or len(set(mns)) != len(mns):
        out.append(("mnemonic", "instruction %s printed as `%s`" % (case["name"], parsed["mnemonic"])))
    # options / prefixes
    want = sorted(expected_prefixes(opts))
    have = sorted(parsed["prefixes"])
    if emitted_short and "short" in have and "short" not in want:
        have.remove("short")      # the logger names the encoding the assembler chose for a bound label (rel8)
    if has_rex and "rex" in have and "rex" not in want:
        have.remove("rex")        # ... and the REX prefix it had to emit (spl/bpl/sil/dil)
    if want != have:
        out.append(("option", "options %s printed as %s" % (want, have)))
    # operands
    ops = parsed["ops"]
    if len(ops) != len(case["ops"]):
        out.append(("operand-count", "%d operands given, %d printed" % (len(case["ops"]), len(ops))))
        return out
    for exp, got in zip(case["ops"], ops):
        out += list(compare_x86_operand(exp, got, names, flags, mode))
        if exp[0] == "I" and got["kind"] == "imm":
            msg = compare_explain(case["name"], exp[1], explain_vec_size(case), got["deco"], bool(flags & 0x10))
            if msg:
                out.append(("explain", msg))
    # {k}{z} on the first operand
    deco0 = list(ops[0]["deco"]) if ops else []
    wk = None
    if case["extra"]:
        wk, wkann = names.reg(case["extra"][0], case["extra"][1], flags)
    masks = [d for d in deco0 if d != "z" and not re.match(r"^1to\d+$", d) and not (ops[0]["kind"] == "imm")]
    if ops and ops[0]["kind"] != "imm":
        if case["extra"] and case["extra"][0] == "k":
            got_k = [split_annot(d)[0] for d in masks]
            if got_k != [wk]:
                out.append(("mask", "mask %s printed as %s" % (wk, masks)))
        elif masks and not (opts & (G.OPT_REP | G.OPT_REPNE)):
            out.append(("mask", "no mask given, printed %s" % masks))
        if bool(opts & G.OPT_ZMASK) != ("z" in deco0):
            out.append(("zmask", "{z} %s, printed decorations %s" % ("given" if opts & G.OPT_ZMASK else "not given", deco0)))
    for i, o in enumerate(ops[1:], 1):
        for d in o["deco"]:
            if o["kind"] != "imm" and not re.match(r"^1to\d+$", d):
                out.append(("mask", "decoration {%s} on operand %d" % (d, i)))
    # `rep {ecx}`: the extra register of a REP/REPNE prefixed string instruction
    if opts & (G.OPT_REP | G.OPT_REPNE):
        wre = None
        if case["extra"] and case["extra"][0] != "k":
            wre = names.reg(case["extra"][0], case["extra"][1], flags)[0]
        gre = split_annot(parsed["rep_extra"])[0] if parsed["rep_extra"] else None
        gre = norm_reg(gre) if gre and not (case["extra"] and isinstance(case["extra"][1], str)) else gre
        if wre != gre and not (case["extra"] and wre is None):
            out.append(("rep-extra", "REP count register %s printed as `%s`" % (wre, parsed["rep_extra"])))
    # {er}/{sae}
    want_tail = []
    if opts & G.OPT_ER:
        want_tail = [ER_KW[opts & 0x600000]]
    elif opts & G.OPT_SAE:
        want_tail = ["sae"]
    if parsed["tail"] != want_tail:
        out.append(("er-sae", "rounding/sae %s printed as %s" % (want_tail, parsed["tail"])))
    return out


# ---------------------------------------------------------------------------------------------------------------------
# kExplainImms: `{a|b|..}` after an imm8. The NOTATION is AsmJit's (selector digits most significant field first, A/B for
# the first / second source, predicate names of the SDM tables); what the bits MEAN is written here from the Intel SDM
# instruction descriptions - and, for vfpclass / vfixupimm / vrndscale / vreduce / mpsadbw, confirmed by executing the
# instructions on the host CPU (cpu_imm_semantics.c in the findings directory). A token may have alternatives (set).
# ---------------------------------------------------------------------------------------------------------------------

CMP_PRED = ["EQ_OQ", "LT_OS", "LE_OS", "UNORD_Q", "NEQ_UQ", "NLT_US", "NLE_US", "ORD_Q", "EQ_UQ", "NGE_US", "NGT_US", "FALSE_OQ", "NEQ_OQ", "GE_OS",
            "GT_OS", "TRUE_UQ", "EQ_OS", "LT_OQ", "LE_OQ", "UNORD_S", "NEQ_US", "NLT_UQ", "NLE_UQ", "ORD_S", "EQ_US", "NGE_UQ", "NGT_UQ", "FALSE_OS",
            "NEQ_OS", "GE_OQ", "GT_OQ", "TRUE_US"]                                                  # SDM CMPPD, table "Comparison Predicate"
VPCMP_PRED = [{"EQ"}, {"LT"}, {"LE"}, {"FALSE"}, {"NEQ", "NE"}, {"GE", "NLT"}, {"GT", "NLE"}, {"TRUE"}]   # SDM VPCMPD
VPCOM_PRED = [{"LT"}, {"LE"}, {"GT"}, {"GE"}, {"EQ"}, {"NEQ", "NE"}, {"FALSE"}, {"TRUE"}]                 # AMD XOP VPCOMx
FPCLASS = ["QNAN", "+0", "-0", "+INF", "-INF", "DENORMAL", "-FINITE", "SNAN"]                       # SDM VFPCLASSPD: imm8 is a bit MASK of categories
FIXUP_FLAGS = ["ZERO_ZE", "ZERO_IE", "ONE_ZE", "ONE_IE", "SNAN_IE", "-INF_IE", "-VE_IE", "+INF_IE"]   # SDM VFIXUPIMMPD: imm8[k] reports class k
ROUND_MODES = ["ROUND", "FLOOR", "CEIL", "TRUNC"]                                                   # imm8[1:0]: nearest, down, up, toward zero

_SHUF = {}          # name -> (bits, count | callable(vec_size))
for _n in ("blendpd", "vblendpd", "vpermilpd"):
    _SHUF[_n] = (1, lambda v: v // 8)
for _n in ("blendps", "vblendps"):
    _SHUF[_n] = (1, lambda v: v // 4)
_SHUF["vpblendd"] = (1, lambda v: min(v // 4, 8))
for _n in ("dppd", "dpps", "vdppd", "vdpps", "pblendw", "vpblendw", "vpternlogd", "vpternlogq"):
    _SHUF[_n] = (1, lambda v: 8)
for _n in ("vdbpsadbw", "vpermilps", "pshufd", "vpshufd", "pshufhw", "pshuflw", "pshufw", "vpshufhw", "vpshuflw", "vpermq", "vpermpd"):
    _SHUF[_n] = (2, lambda v: 4)
for _n in ("vshuff32x4", "vshuff64x2", "vshufi32x4", "vshufi64x2"):
    _SHUF[_n] = (None, None)


def explain_vec_size(case):
    """width in bytes the explanation has to assume: the widest register operand, at least 16 (an xmm operation)"""
    w = 16
    for op in case["ops"]:
        if op[0] == "R":
            w = max(w, {"ymm": 32, "zmm": 64}.get(op[1], 8 if op[1] in ("gp64", "mm", "k") else 0))
    return w


def explain_expected(name, imm, vec):
    """-> None: the instruction is not one whose imm8 we can explain (no verdict);
       else a list of tokens, each a set of acceptable spellings; a token ('opt', set) may be absent"""
    u = imm & 0xFF
    n = name.lower()
    if n in ("cmppd", "cmpps", "cmpsd", "cmpss"):
        return [{CMP_PRED[u & 7]}]
    if n in ("vcmppd", "vcmpps", "vcmpsd", "vcmpss"):
        return [{CMP_PRED[u & 31]}]
    if n in ("vpcmpb", "vpcmpw", "vpcmpd", "vpcmpq", "vpcmpub", "vpcmpuw", "vpcmpud", "vpcmpuq"):
        return [VPCMP_PRED[u & 7]]
    if n in ("vpcomb", "vpcomw", "vpcomd", "vpcomq", "vpcomub", "vpcomuw", "vpcomud", "vpcomuq"):
        return [VPCOM_PRED[u & 7]]
    if n in _SHUF:
        bits, cnt = _SHUF[n]
        if bits is None:
            count = max(vec // 16, 2)          # number of 128-bit lanes selected: ymm 2 x 1 bit, zmm 4 x 2 bits
            bits = 1 if count <= 2 else 2
        else:
            count = cnt(vec)
        return [{str((u >> (bits * i)) & ((1 << bits) - 1))} for i in reversed(range(count))]
    if n in ("shufpd", "vshufpd"):
        # element i: even elements come from the first source (A), odd ones from the second (B); bit i picks the low/high qword of the lane
        return [{"%s%d" % ("A" if i % 2 == 0 else "B", (i // 2) * 2 + ((u >> i) & 1))} for i in range(min(vec // 8, 8))]
    if n in ("shufps", "vshufps"):
        return [{"%s%d" % ("A" if i < 2 else "B", (u >> (2 * i)) & 3)} for i in range(4)]
    if n in ("pclmulqdq", "vpclmulqdq"):
        return [{"HQ" if u & 0x10 else "LQ"}, {"HQ" if u & 0x01 else "LQ"}]        # second source qword, first source qword
    if n in ("roundpd", "roundps", "roundsd", "roundss", "vroundpd", "vroundps", "vroundsd", "vroundss", "vcvtps2ph"):
        out = [{ROUND_MODES[u & 3]}] if not u & 4 else [("opt", {"CURRENT", "MXCSR"})]        # imm8[2]: rounding mode of MXCSR
        if u & 8 and n != "vcvtps2ph":
            out.append({"SUPPRESS", "SPE", "SAE"})                                              # precision exception suppressed
        return out
    if n in ("vrndscalepd", "vrndscaleps", "vrndscalesd", "vrndscaless", "vreducepd", "vreduceps", "vreducesd", "vreducess"):
        out = [("opt", {ROUND_MODES[u & 3]})] if not u & 4 else [("opt", {"CURRENT", "MXCSR"})]
        if u & 8:
            out.append({"SAE", "SPE", "SUPPRESS"})
        out.append({"LEN=%d" % (u >> 4), "M=%d" % (u >> 4)})
        return out
    if n in ("vperm2f128", "vperm2i128"):
        def half(x):
            return {"0"} if x & 8 else {["A0", "A1", "B0", "B1"][x & 3]}
        return [half(u >> 4), half(u)]
    if n in ("vrangepd", "vrangeps", "vrangesd", "vrangess"):
        return [{["SIGN_A", "SIGN_B", "SIGN_0", "SIGN_1"][(u >> 2) & 3]}, {["MIN", "MAX", "MIN_ABS", "MAX_ABS"][u & 3]}]
    if n in ("vgetmantpd", "vgetmantps", "vgetmantsd", "vgetmantss"):
        out = [{["[1, 2)", "[.5, 2)", "[.5, 1)", "[.75, 1.5)"][u & 3]}]
        if u & 4:
            out.append({"NO_SIGN"})
        if u & 8:
            out.append({"QNAN_IF_SIGN"})
        return out
    if n in ("vfpclasspd", "vfpclassps", "vfpclasssd", "vfpclassss"):
        return [{FPCLASS[k]} for k in range(8) if u >> k & 1]                   # any order (compared as a set of tokens)
    if n in ("vfixupimmpd", "vfixupimmps", "vfixupimmsd", "vfixupimmss"):
        return [{FIXUP_FLAGS[k]} for k in range(8) if u >> k & 1]
    if n in ("mpsadbw", "vmpsadbw"):
        lo = [{"BLK1[%d]" % ((u >> 2) & 1)}, {"BLK2[%d]" % (u & 3)}]
        if vec < 32:
            return lo                                                             # the 128-bit form reads imm8[2:0] only
        return [{"BLK1[%d]" % (4 + ((u >> 6) & 1)), "BLK1[%d]" % ((u >> 6) & 1)}, {"BLK2[%d]" % (4 + ((u >> 4) & 3)), "BLK2[%d]" % ((u >> 4) & 3)}] + lo
    return None


UNORDERED_EXPLAIN = ("vfpclass", "vfixupimm", "mpsadbw", "vmpsadbw")


def compare_explain(name, imm, vec, deco, flag_on):
    """deco: list of `{..}` bodies printed with the immediate operand. -> None (faithful / no verdict) | message"""
    if not flag_on:
        return "explanation `{%s}` printed although kExplainImms is off" % deco[0] if deco else None
    exp = explain_expected(name, imm, vec)
    if exp is None:
        return None
    if len(deco) > 1:
        return "two explanations %s" % deco
    got = [t.strip() for t in deco[0].split("|")] if deco else []
    want_txt = "|".join("/".join(sorted(t[1] if isinstance(t, tuple) else t)) + ("?" if isinstance(t, tuple) else "") for t in exp)
    if name.lower().startswith(UNORDERED_EXPLAIN):
        need = [t for t in exp if not isinstance(t, tuple)]
        ok = len(got) == len(need) and all(any(g in t for g in got) for t in need) and all(any(g in t for t in need) for g in got)
        return None if ok else "imm8 0x%02x explained as {%s}, the bits mean {%s}" % (imm & 0xFF, "|".join(got), want_txt)
    i = 0
    for t in exp:
        opt = isinstance(t, tuple)
        alts = t[1] if opt else t
        if i < len(got) and got[i] in alts:
            i += 1
        elif not opt:
            return "imm8 0x%02x explained as {%s}, the bits mean {%s}" % (imm & 0xFF, "|".join(got), want_txt)
    if i != len(got):
        return "imm8 0x%02x explained as {%s}, the bits mean {%s}" % (imm & 0xFF, "|".join(got), want_txt)
    return None


# ---------------------------------------------------------------------------------------------------------------------
# directives: label bound / align / data / embedded label (delta) / section / comment lines of the logger (kind dir) and
# of Formatter::format_node (kind dirn). The data notation is AsmJit's (`.db/.dw/.dd/.dq` on x86, `.byte/.half/.word/
# .quad`-style names on AArch64, `.repeat N` prefix, items as zero-padded hex of the item width); what it must DENOTE is
# the bytes appended / the arguments given.
# ---------------------------------------------------------------------------------------------------------------------

DATA_KW = {"x86": {"db": 1, "byte": 1, "dw": 2, "word": 2, "short": 2, "dd": 4, "dword": 4, "long": 4, "dq": 8, "qword": 8, "quad": 8},
           "a64": {"byte": 1, "half": 2, "hword": 2, "short": 2, "word": 4, "long": 4, "xword": 8, "quad": 8, "dword": 8}}
TYPE_SIZE = {34: 1, 35: 1, 36: 2, 37: 2, 38: 4, 39: 4, 40: 8, 41: 8, 42: 4, 43: 8, 44: 10, 45: 1, 46: 2, 47: 4, 48: 8, 49: 4, 50: 8}
for _t in (51, 52, 53, 54, 55, 56, 59):
    TYPE_SIZE[_t] = 4
for _t in range(61, 71):
    TYPE_SIZE[_t] = 8
for _t in range(71, 81):
    TYPE_SIZE[_t] = 16
for _t in range(81, 91):
    TYPE_SIZE[_t] = 32
for _t in range(91, 101):
    TYPE_SIZE[_t] = 64


def type_size(t, regsize):
    return regsize if t in (32, 33) else TYPE_SIZE[t]


def parse_data_text(text, fam):
    """`.repeat 3 .dw 0x0001, 0x0002` -> (repeat, item size, [values], hex digits per item list) | None"""
    m = re.match(r"^(?:\.repeat\s+(\d+)\s+)?\.(\w+)\s+(.*)$", text.strip())
    if not m:
        return None
    size = DATA_KW[fam].get(m.group(2).lower())
    if size is None:
        return None
    items = [x.strip() for x in m.group(3).split(",")] if m.group(3).strip() else []
    vals = []
    for it in items:
        v = parse_num(it)
        if v is None or v < 0:
            return None
        vals.append(v)
    return int(m.group(1) or 1), size, vals, items


def data_line_bytes(text, fam):
    """the bytes a data line denotes (little endian items, repeated) | None, why"""
    p = parse_data_text(text, fam)
    if p is None:
        return None, "not a data line: `%s`" % text[:120]
    rep, size, vals, items = p
    if any(v >> (8 * size) for v in vals):
        return None, "an item does not fit the %d-byte directive in `%s`" % (size, text[:120])
    one = b"".join(v.to_bytes(size, "little") for v in vals)
    return one * rep, None


def label_text(kind, lid, name, parent_name=None):
    """documented label notation (same rules as c20.label_texts)"""
    if kind == "a":
        return "L%d" % lid
    if kind == "n":
        return "L%d@%s" % (lid, name)
    if kind == "l":
        return "%s.%s" % (parent_name, name)
    return name


# ---------------------------------------------------------------------------------------------------------------------
# objdump cross-check (x86): tokenised objdump line vs tokenised AsmJit line
# ---------------------------------------------------------------------------------------------------------------------

def _s64(v):
    v &= M64
    return v - (1 << 64) if v >> 63 else v


def _imm_equiv(a, b):
    a, b = _s64(a), _s64(b)
    if a == b:
        return True
    for k in (8, 16, 32, 64):
        m = (1 << k) - 1
        if (a & m) == (b & m) and -(1 << (k - 1)) <= a <= m and -(1 << (k - 1)) <= b <= m:
            return True
    return False


_REG_ID = {}
for _t in ("gp64", "gp32", "gp16", "gp8lo"):
    for _i in range(32):
        _REG_ID[x86text.reg_name(_t, _i)] = ("gp", _i, _t)
for _i in range(4):
    _REG_ID[x86text.GP8HI[_i]] = ("gp8hi", _i, "gp8hi")
for _t in ("xmm", "ymm", "zmm"):
    for _i in range(32):
        _REG_ID["%s%d" % (_t, _i)] = ("vec", _i, _t)


def same_reg_other_width(a, b):
    """both names denote the same register number of the same file (rax/eax, xmm3/ymm3) but another width"""
    ra, rb = _REG_ID.get(a), _REG_ID.get(b)
    return ra is not None and rb is not None and ra[:2] == rb[:2] and ra[2] != rb[2]


def cross_compare(aj, od, implicit_mask, mode):
    """aj/od: parse_x86_text() of the AsmJit / objdump line. -> ('ok'|'shape'|'diff', [messages])"""
    a_ops = aj["ops"]
    o_ops = od["ops"]
    if len(a_ops) != len(o_ops):
        a2 = [op for i, op in enumerate(a_ops) if not ((implicit_mask >> i) & 1)]
        if len(a2) == len(o_ops):
            a_ops = a2
        else:
            return "shape", []
    msgs = []
    if (aj["mnemonic"] or "").lower() in ("xchg", "test") and len(a_ops) == 2 and a_ops[0]["kind"] == a_ops[1]["kind"] == "name" \
            and o_ops[0]["kind"] == o_ops[1]["kind"] == "name" and norm_reg(a_ops[0]["name"]) == norm_reg(o_ops[1]["name"]):
        o_ops = [o_ops[1], o_ops[0]]        # operands commute; decoders print one fixed order
    for a, o in zip(a_ops, o_ops):
        if a["kind"] == "name" and o["kind"] == "name":
            an = norm_reg(split_annot(a["name"])[0])
            on = norm_reg(o["name"])
            if re.match(r"^l\d+$", an):
                continue
            if an != on:
                if same_reg_other_width(an, on):
                    # the decoder's width notation (lsl r64,r32 shown as r64; 64-bit op with zero-extendable imm encoded as 32-bit op)
                    return "width", []
                msgs.append("register `%s` vs objdump `%s`" % (a["name"], o["name"]))
        elif a["kind"] == "imm" and o["kind"] == "imm":
            if not _imm_equiv(a["value"], o["value"]):
                msgs.append("immediate `%s` vs objdump `%s`" % (a["raw"], o["raw"]))
        elif a["kind"] == "mem" and o["kind"] == "mem":
            if o["odd"] or a["odd"]:
                return "shape", []
            ab = norm_reg(a["base"]) if a["base"] else None
            ai = norm_reg(a["index"]) if a["index"] else None
            ob = norm_reg(o["base"]) if o["base"] else None
            oi = norm_reg(o["index"]) if o["index"] else None
            asc = a["scale"] if a["scale"] is not None else (1 if ai else None)
            osc = o["scale"] if o["scale"] is not None else (1 if oi else None)
            if ab is not None and re.match(r"^l\d+", ab):
                continue      # label base: objdump shows the resolved displacement
            if oi in ("riz", "eiz"):
                oi, osc = None, None
            if ai is None and oi is not None and osc == 1 and ob is None and ab is not None:
                ab, ai, asc = None, ab, 1
            if ab is None and ai is not None and asc == 1 and ob is not None and oi is None:
                ab, ai, asc = ai, None, None
            if (ab, ai) != (ob, oi) and all(x == y or (x and y and same_reg_other_width(x, y)) for x, y in ((ab, ob), (ai, oi))):
                return "width", []          # objdump prints `addr32` + 64-bit names for some instructions
            if (ab, ai) != (ob, oi) and not (asc == 1 and osc == 1 and (ab, ai) == (oi, ob)):
                msgs.append("address registers `%s` vs objdump `%s`" % (a["raw"], o["raw"]))
            elif ai is not None and asc != osc:
                msgs.append("scale `%s` vs objdump `%s`" % (a["raw"], o["raw"]))
            ad = a["disp"] or 0
            odp = o["disp"] or 0
            width = 64 if mode == 64 else 32
            if any(r and re.match(r"^(e[a-d]x|e[sd]i|e[sb]p|r\d+d)$", r) for r in (ob, oi)):
                width = 32
            if any(r in ("bx", "bp", "si", "di") for r in (ob, oi)):
                width = 16
            if "addr32" in od["prefixes"] and ob is None and oi is None:
                width = 32      # objdump prints an absolute address under an address-size prefix sign-extended to 64 bits
            mask = (1 << width) - 1
            if (ad & mask) != (odp & mask):
                msgs.append("displacement `%s` vs objdump `%s`" % (a["raw"], o["raw"]))
            aseg, oseg = a["seg"], o["seg"]
            if mode == 64 and aseg in ("cs", "ss", "ds", "es") and (aseg in od["prefixes"] or oseg in (None, "", "ds", "es", "ss", "cs")):
                pass    # null segment overrides in 64-bit mode: objdump lists the prefix but prints the default segment
            elif aseg and oseg and aseg != oseg:
                msgs.append("segment `%s` vs objdump `%s`" % (a["raw"], o["raw"]))
            elif aseg and not oseg and aseg not in od["prefixes"] and not (aseg == "ds" and "notrack" in od["prefixes"]):
                msgs.append("segment `%s` not seen by objdump `%s`" % (a["raw"], o["raw"]))
            abc = [d for d in a["deco"] if d.startswith("1to")]
            obc = o["bcst_kw"] or any(d.startswith("1to") for d in o["deco"])
            if bool(abc) != bool(obc):
                msgs.append("broadcast `%s` vs objdump `%s`" % (a["raw"], o["raw"]))
        elif a["kind"] == "name" and o["kind"] == "imm" and re.match(r"^L\d+", a["name"]):
            continue      # branch target: objdump prints the address
        else:
            return "shape", []
    # masks / zeroing / rounding are part of the operand text for both
    def decos(p):
        ds, tail = [], list(p["tail"])
        for op in p["ops"]:
            ds += [d for d in op["deco"] if d == "z" or re.match(r"^k\d$", d)]
            tail += [d for d in op["deco"] if d.endswith("sae")]
        return sorted(ds), sorted(tail)
    da, do = decos(aj), decos(od)
    if da[1] != do[1] and len(da[1]) == 1 and len(do[1]) == 1 and "sae" in (da[1][0], do[1][0]):
        # {sae} given to an instruction with embedded rounding is encoded (and read back) as {rn-sae}; {rX-sae} given to an
        # instruction that only knows {sae} reads back as {sae}: what the bytes mean is the assembler's business (C01)
        return "shape", []
    if aj["ops"] and aj["ops"][0]["kind"] != "imm" and da != do:
        msgs.append("decorations %s vs objdump %s" % (da, do))
    return ("diff" if msgs else "ok"), msgs


# ---------------------------------------------------------------------------------------------------------------------
# AArch64
# ---------------------------------------------------------------------------------------------------------------------

_A64_ATOM = re.compile(r"<None>|\[|\]|!|-?0x[0-9A-Fa-f]+|-?\d+(?![\w.])|[A-Za-z_%&][\w.@%]*(?:\[\d+\])?")
A64_SHIFT_KW = {"lsl", "lsr", "asr", "ror", "rrx", "msl", "uxtb", "uxth", "uxtw", "uxtx", "sxtb", "sxth", "sxtw", "sxtx"}


def a64_atoms(text):
    """flat token stream: names (lower case kept as printed), ints, '[', ']', '!'"""
    out = []
    for m in _A64_ATOM.finditer(text):
        t = m.group(0)
        v = parse_num(t)
        out.append(v if v is not None else t)
    return out


REG_BITS = {"b": 8, "h": 16, "s": 32, "d": 64, "q": 128}
ELEM_BITS = {"b": 8, "h": 16, "s": 32, "d": 64}


def a64_vec_text(letter, rid, et, idx, vnames=None):
    """AsmJit's documented vector notation: scalar `s3`; arrangement `v3.4s`; element `v3.4s[1]` (count kept)."""
    if isinstance(rid, str):
        created, name, index = vnames[int(rid[1:])]
        base = name if name else "%%%d" % index
        virt = True
    else:
        virt = False
        base = None
    if not et or et == "-":
        if not virt:
            base = a64text.vec_scalar_name(letter, rid)
        t = base
    else:
        if not virt:
            base = a64text.vec_name(rid)
        if base is None:
            return None
        if et == "b4":
            suf = "4b"
        elif et == "h2":
            suf = "2h"
        else:
            suf = "%d%s" % (REG_BITS[letter] // ELEM_BITS[et], et)
        t = "%s.%s" % (base, suf)
    if t is None:
        return None
    if idx is not None and idx != "-":
        t += "[%d]" % int(idx)
    return t


def a64_gp_text(width, rid, vnames=None):
    if isinstance(rid, str):
        created, name, index = vnames[int(rid[1:])]
        return name if name else "%%%d" % index
    return a64text.gp_name(width, rid)


def _rid(s):
    return s if s.startswith("v") else int(s, 0)


def a64_expected(line, pc, l0, vnames=None, labels=None):
    """line: `<name[.cc]> <nops> <tokens...>` (vlib/a64gen.py). -> (mnemonic names accepted, expected atom list | None)
    Expected atoms: str (exact, case-insensitive for keywords), int (mod 2^64), ('opt', kw) optional keyword,
    ('optnum', v) a number that may be omitted when zero."""
    parts = line.split()
    name = parts[0]
    toks = parts[2:]
    mn = name
    if "." in name:
        base, cc = name.split(".", 1)
        cc = int(cc)
        cn = a64text.COND_NAMES.get(cc)
        if cc == 1:
            cn = "na"      # AsmJit documents condition 1 as `na` (CondCode::kNA)
        mn = "%s.%s" % (base, cn) if cn and cc != 0 else base
    exp = []

    def lab(key):
        if key in (None, "0"):
            return None if l0 is None or l0 < 0 else "L%d" % l0
        return (labels or {}).get(key)

    for tok in toks:
        p = tok.split(":")
        k = p[0]
        if k == "G":
            n = a64_gp_text(32 if p[1] == "w" else 64, _rid(p[2]), vnames)
            if n is None:
                return mn, None
            exp.append(n)
        elif k == "V":
            n = a64_vec_text(p[1][0], _rid(p[2]), p[3] if len(p) > 3 else None, p[4] if len(p) > 4 else None, vnames)
            if n is None:
                return mn, None
            exp.append(n)
        elif k in ("I", "U"):
            exp.append(int(p[1], 0))
        elif k == "F":
            exp.append(struct.unpack("<Q", struct.pack("<d", float(p[1])))[0])
        elif k == "S":
            exp.append(("opt", "lsl") if p[1] == "lsl" else p[1])
            exp.append(int(p[2], 0))
        elif k == "M":
            bn = a64_gp_text(64, _rid(p[1]), vnames)
            if bn is None:
                return mn, None
            off = int(p[3], 0)
            if p[2] == "post":
                exp += ["[", bn, "]"] + ([off] if off else [])
            else:
                exp += ["[", bn] + ([off] if off else []) + ["]"] + (["!"] if p[2] == "pre" else [])
        elif k == "MX":
            bn = a64_gp_text(64, _rid(p[1]), vnames)
            xn = a64_gp_text(32 if p[2] == "w" else 64, _rid(p[3]), vnames)
            if bn is None or xn is None:
                return mn, None
            sh = []
            if p[4] != "-":
                amt = int(p[5], 0)
                if p[4] == "lsl":
                    sh = [("opt", "lsl"), amt] if amt else [("opt", "lsl"), ("optnum", 0)]
                else:
                    sh = [p[4], ("optnum", 0)] if amt == 0 else [p[4], amt]
            if p[6] == "post":
                exp += ["[", bn, "]", xn] + sh
            else:
                exp += ["[", bn, xn] + sh + ["]"] + (["!"] if p[6] == "pre" else [])
        elif k == "ML":
            ln = lab(p[2] if len(p) > 2 else None)
            if ln is None:
                return mn, None
            off = int(p[1], 0)
            exp += ["[", ln] + ([off] if off else []) + ["]"]
        elif k == "MA":
            exp += ["[", "<None>", (pc + int(p[1], 0)) & M64, "]"]
        elif k == "L":
            ln = lab(p[1] if len(p) > 1 else None)
            if ln is None:
                return mn, None
            exp.append(ln)
        elif k == "A":
            exp.append((pc + int(p[1], 0)) & M64)
        elif k == "AP":
            exp.append(((pc & ~4095) + int(p[1], 0)) & M64)
        else:
            return mn, None
    return mn, exp


def a64_match(exp, got):
    """exp: expected atoms, got: printed atoms (after the mnemonic). -> None if they match, else message"""
    i = 0
    for e in exp:
        g = got[i] if i < len(got) else None
        if isinstance(e, tuple):
            if e[0] == "opt":
                if isinstance(g, str) and g.lower() == e[1]:
                    i += 1
                continue
            if e[0] == "optnum":
                if isinstance(g, int) and _eq64(g, e[1]):
                    i += 1
                continue
        if g is None:
            return "line ends where `%s` was expected" % (e,)
        if isinstance(e, int):
            if not isinstance(g, int) or not _eq64(e, g):
                return "number %d printed as `%s`" % (e, g)
        else:
            if not isinstance(g, str):
                return "`%s` printed as `%s`" % (e, g)
            if e in A64_SHIFT_KW:
                if g.lower() != e:
                    return "`%s` printed as `%s`" % (e, g)
            elif g != e and not (g.lower() == e.lower() and not e.startswith("L")):
                return "`%s` printed as `%s`" % (e, g)
        i += 1
    if i != len(got):
        return "extra text `%s`" % (got[i:],)
    return None
