"""Renders a case (vlib.x86gen) as Intel-syntax assembly text for an independent assembler (llvm-mc).
Register names come from the tables below (written from the architecture manuals), never from AsmJit."""
from vlib import x86gen as G

GP64 = ["rax", "rcx", "rdx", "rbx", "rsp", "rbp", "rsi", "rdi"] + ["r%d" % i for i in range(8, 32)]
GP32 = ["eax", "ecx", "edx", "ebx", "esp", "ebp", "esi", "edi"] + ["r%dd" % i for i in range(8, 32)]
GP16 = ["ax", "cx", "dx", "bx", "sp", "bp", "si", "di"] + ["r%dw" % i for i in range(8, 32)]
GP8LO = ["al", "cl", "dl", "bl", "spl", "bpl", "sil", "dil"] + ["r%db" % i for i in range(8, 32)]
GP8HI = ["ah", "ch", "dh", "bh"]
SREG = [None, "es", "cs", "ss", "ds", "fs", "gs"]
SIZE_KW = {1: "byte", 2: "word", 4: "dword", 6: "fword", 8: "qword", 10: "tbyte", 16: "xmmword", 32: "ymmword", 64: "zmmword"}


def reg_name(rtype, rid):
    try:
        if rtype == "gp64":
            return GP64[rid]
        if rtype == "gp32":
            return GP32[rid]
        if rtype == "gp16":
            return GP16[rid]
        if rtype == "gp8lo":
            return GP8LO[rid]
        if rtype == "gp8hi":
            return GP8HI[rid]
        if rtype in ("xmm", "ymm", "zmm") and 0 <= rid < 32:
            return "%s%d" % (rtype, rid)
        if rtype == "mm" and rid < 8:
            return "mm%d" % rid
        if rtype == "k" and rid < 8:
            return "k%d" % rid
        if rtype == "sreg":
            return SREG[rid]
        if rtype == "creg" and rid < 16:
            return "cr%d" % rid
        if rtype == "dreg" and rid < 16:
            return "dr%d" % rid
        if rtype == "st" and rid < 8:
            return "st(%d)" % rid
        if rtype == "bnd" and rid < 4:
            return "bnd%d" % rid
        if rtype == "tmm" and rid < 8:
            return "tmm%d" % rid
        if rtype == "rip":
            return "rip"
    except (IndexError, TypeError):
        return None
    return None


def mem_text(m, form_op=None):
    parts = []
    if m["base"]:
        n = reg_name(*m["base"])
        if n is None:
            return None
        parts.append(n)
    if m["index"]:
        n = reg_name(*m["index"])
        if n is None:
            return None
        if m["shift"] == 0 and m["base"] and m["index"][0] not in ("xmm", "ymm", "zmm"):
            parts.append(n)
        else:
            parts.append("%s*%d" % (n, 1 << m["shift"]))
    d = m["disp"]
    if not parts:
        if not (-0x80000000 <= d <= 0x7FFFFFFF):
            # llvm-mc silently truncates wider absolute addresses, and in 64-bit mode it assembles [0x80000000..0xffffffff] as a
            # sign-extended disp32 (another address) where AsmJit correctly inserts an address-size prefix: no verdict from it
            return None
        inner = "0x%x" % (d if d >= 0 else d & 0xFFFFFFFF)
    else:
        inner = " + ".join(parts)
        if d > 0:
            inner += " + %d" % d
        elif d < 0:
            inner += " - %d" % (-d)
    seg = (SREG[m["seg"]] + ":") if m["seg"] else ""
    kw = SIZE_KW.get(m["size"])
    t = ("%s ptr " % kw if kw else "") + seg + "[" + inner + "]"
    if m["bcst"]:
        t += "{1to%d}" % (1 << m["bcst"])
    return t


# mnemonics whose Intel-syntax text is ambiguous or means something else to LLVM: no LLVM verdict for them
NO_LLVM_TEXT = {"lcall", "ljmp", "invlpga", "invlpgb", "movabs", "clzero", "monitor", "monitorx", "mwait", "mwaitx", "vmload", "vmsave", "vmrun", "umonitor"}
# the database names the 16-bit forms popf/pushf/popa/pusha/iret (32/64-bit: popfd/popfq, ...); LLVM names them ...w
LLVM_NAME = {"popf": "popfw", "pushf": "pushfw", "popa": "popaw", "pusha": "pushaw", "iret": "iretw"}

ER_TEXT = {G.OPT_RN: "{rn-sae}", G.OPT_RD: "{rd-sae}", G.OPT_RU: "{ru-sae}", G.OPT_RZ: "{rz-sae}"}


def render(case, form):
    """Intel-syntax statement for llvm-mc, or None when this renderer has no faithful text for the case."""
    name = case["name"]
    opts = case["opts"]
    if any(o[0] == "L" for o in case["ops"]):
        return None
    if name in NO_LLVM_TEXT:
        return None
    if "cbase" in case and any(o[0] == "M" and not o[1]["base"] and not o[1]["index"] and o[1].get("addr") != "abs" for o in case["ops"]):
        return None  # the assembler may pick [rip+disp32] for it (known code address): llvm-mc's absolute encoding is no reference
    if name in ("push", "pop", "mov") and any(o[0] == "R" and o[1] == "sreg" for o in case["ops"]):
        return None  # LLVM picks operand sizes of its own for segment-register moves
    name = LLVM_NAME.get(name, name)
    if case["arch"] == "x64" and "REX.W" in form["opcodeString"] and form["opcode"]["mod"] == "" and \
            any(o[0] == "M" and (o[1]["seg"] or (o[1]["base"] and o[1]["base"][0] == "gp32")) for o in case["ops"]):
        # llvm-mc 14 puts REX.W in front of the segment / address-size prefix of string instructions (48 67 AB), which makes
        # the CPU - and objdump - ignore REX: its bytes are no reference for these cases
        return None
    if form["prefix"] in ("VEX", "EVEX") and any(o[0] == "M" and any(o[1][k] and o[1][k][0] == "gp16" for k in ("base", "index")) for o in case["ops"]):
        return None  # llvm-mc 14 does not scale disp8 of EVEX instructions with 16-bit addressing (objdump and the SDM do)
    if opts & (G.OPT_SHORT | G.OPT_LONG | G.OPT_MODMR | G.OPT_MODRM | G.OPT_REX):
        # encoding-selection hints: the decoded meaning is the same; render without them
        pass
    toks = []
    for oi, op in enumerate(case["ops"]):
        fo = form["operands"][oi] if oi < len(form["operands"]) else None
        if op[0] == "R":
            n = reg_name(op[1], op[2])
            if n is None:
                return None
            toks.append(n)
        elif op[0] == "I":
            toks.append(str(op[1]))
        elif op[0] == "M":
            t = mem_text(op[1], fo)
            if t is None:
                return None
            toks.append(t)
    if case["extra"] and toks:
        toks[0] += " {%s}" % reg_name(*case["extra"])
    if opts & G.OPT_ZMASK and toks:
        toks[0] += " {z}"
    if opts & G.OPT_ER:
        toks.append(ER_TEXT[opts & 0x600000])
    elif opts & G.OPT_SAE:
        toks.append("{sae}")
    pre = []
    if opts & G.OPT_XACQUIRE:
        pre.append("xacquire")
    if opts & G.OPT_XRELEASE:
        pre.append("xrelease")
    if opts & G.OPT_LOCK:
        pre.append("lock")
    if opts & G.OPT_REP:
        pre.append("rep")
    if opts & G.OPT_REPNE:
        pre.append("repne")
    if form["prefix"] in ("VEX", "EVEX"):
        if opts & G.OPT_VEX3:
            pre.append("{vex3}")
        if opts & G.OPT_EVEX:
            pre.append("{evex}")
        if opts & G.OPT_VEX:
            pre.append("{vex}")
    # implicit operands are not written in assembly text unless the mnemonic requires them
    imp = form.get("implicit") or 0
    if imp and len(case["ops"]) == len(form["operands"]):
        toks = [t for i, t in enumerate(toks) if not ((imp >> i) & 1 and i < len(case["ops"]) and case["ops"][i][0] == "R")]
    return " ".join(pre + [name]) + (" " + ", ".join(toks) if toks else "")
