"""AArch64 text rendering helpers for C02 (independent of AsmJit's formatter) and small independent codecs
written from the Arm ARM: logical immediates, FP8 immediates, condition codes. Also reads the system-register /
system-operation name tables out of asmjit/arm/a64globals.h (names and the numbers AsmJit assigns to them; LLVM
is the judge of whether name and number belong together)."""
import os
import re
import struct

from vlib import common

COND_NAMES = {0: "al", 1: "nv", 2: "eq", 3: "ne", 4: "hs", 5: "lo", 6: "mi", 7: "pl", 8: "vs", 9: "vc",
              10: "hi", 11: "ls", 12: "ge", 13: "lt", 14: "gt", 15: "le"}


def cond_enc(cc):
    """AsmJit CondCode value -> architectural 4-bit cond field (eq=0 .. le=13, al=14, nv=15)."""
    return (cc - 2) & 15


def gp_name(width, rid):
    """rid is the AsmJit id: 0..30, 31 = SP, 63 = ZR. Returns None for ids without a name."""
    if 0 <= rid <= 30:
        return ("w%d" if width == 32 else "x%d") % rid
    if rid == 31:
        return "wsp" if width == 32 else "sp"
    if rid == 63:
        return "wzr" if width == 32 else "xzr"
    return None


def vec_scalar_name(letter, rid):
    if 0 <= rid <= 31:
        return "%s%d" % (letter.lower(), rid)
    return None


def vec_name(rid):
    if 0 <= rid <= 31:
        return "v%d" % rid
    return None


# -- logical immediates (DecodeBitMasks, Arm ARM J1.1) ------------------------------------

def _ror(v, r, n):
    r %= n
    return ((v >> r) | (v << (n - r))) & ((1 << n) - 1)


def decode_logical(n, immr, imms, width):
    """Returns the immediate denoted by N:immr:imms for a `width`-bit logical instruction or None if reserved."""
    v = (n << 6) | ((~imms) & 0x3F)
    if v == 0:
        return None
    length = v.bit_length() - 1
    if length < 1:
        return None
    esize = 1 << length
    if esize > width:
        return None
    levels = esize - 1
    s = imms & levels
    r = immr & levels
    if s == levels:
        return None
    welem = (1 << (s + 1)) - 1
    elem = _ror(welem, r, esize)
    out = 0
    for i in range(width // esize):
        out |= elem << (i * esize)
    return out


def is_logical(value, width):
    """Independent test: a value is a bitmask immediate iff it is a rotated run of ones replicated over a
    power-of-two element size (and is neither 0 nor all ones)."""
    mask = (1 << width) - 1
    value &= mask
    if value == 0 or value == mask:
        return False
    esize = 2
    while esize <= width:
        elem = value & ((1 << esize) - 1)
        rep = 0
        for i in range(width // esize):
            rep |= elem << (i * esize)
        if rep == value:
            if elem == 0 or elem == (1 << esize) - 1:
                return False
            for r in range(esize):
                x = _ror(elem, r, esize)
                if x & (x + 1) == 0:
                    return True
            return False
        esize *= 2
    return False


# -- FP8 immediates (VFPExpandImm) ---------------------------------------------------------

def fp8_values():
    """All 256 values representable as imm8: (-1)^a * (16+efgh)/16 * 2^(exp) with exp in -3..4."""
    out = {}
    for imm8 in range(256):
        sign = -1.0 if imm8 & 0x80 else 1.0
        b = (imm8 >> 6) & 1
        cd = (imm8 >> 4) & 3
        frac = imm8 & 15
        exp = ((0 if b else 4) | cd) - 3  # b=1 -> exponents -3..0, b=0 -> 1..4
        out[imm8] = sign * (16 + frac) / 16.0 * (2.0 ** exp)
    return out


_FP8 = None


def fp8_encode(x):
    global _FP8
    if _FP8 is None:
        _FP8 = {v: k for k, v in fp8_values().items()}
    return _FP8.get(float(x))


def fp_text(x):
    return "#%.8f" % x


# -- system names from a64globals.h ---------------------------------------------------------

_NS_RE = re.compile(r"namespace\s+(\w+)\s*\{")
_ENC_RE = re.compile(r"\bk(\w+)\s*=\s*encode\(([^)]*)\)")
_VAL_RE = re.compile(r"\bk(\w+)\s*=\s*(0x[0-9A-Fa-f]+|\d+)u?\s*[,}\n]")


def _num(tok):
    tok = tok.strip()
    if tok.startswith("0b"):
        return int(tok[2:], 2)
    return int(tok, 0)


_pred_cache = {}


def predicates(repo=None):
    """{namespace: [(name, value)]} for the Predicate namespaces of a64globals.h. Encodings follow the `encode()`
    helper of each namespace (read from the header text)."""
    repo = repo or common.REPO
    if repo in _pred_cache:
        return _pred_cache[repo]
    path = os.path.join(repo, "asmjit", "arm", "a64globals.h")
    txt = open(path).read()
    start = txt.find("namespace Predicate")
    txt = txt[start:]
    out = {}
    pos = [(m.start(), m.group(1)) for m in _NS_RE.finditer(txt)]
    for i, (p, ns) in enumerate(pos):
        end = pos[i + 1][0] if i + 1 < len(pos) else len(txt)
        body = txt[p:end]
        ents = []
        if ns == "SysReg":
            f = lambda a: (a[0] << 14) | (a[1] << 11) | (a[2] << 7) | (a[3] << 3) | a[4]
        elif ns == "PState":
            f = lambda a: (a[0] << 3) | a[1]
        else:
            f = lambda a: (a[0] << 11) | (a[1] << 7) | (a[2] << 3) | a[3]
        for m in _ENC_RE.finditer(body):
            try:
                args = [_num(x) for x in m.group(2).split(",")]
                ents.append((m.group(1), f(args)))
            except (ValueError, IndexError):
                continue
        if not ents:
            for m in _VAL_RE.finditer(body):
                ents.append((m.group(1), int(m.group(2), 0)))
        if ents:
            out[ns] = ents
    _pred_cache[repo] = out
    return out


def sysreg_generic_name(v):
    """S<op0>_<op1>_C<n>_C<m>_<op2> spelling understood by every assembler."""
    return "s%d_%d_c%d_c%d_%d" % ((v >> 14) & 3, (v >> 11) & 7, (v >> 7) & 15, (v >> 3) & 15, v & 7)


def double_bits(x):
    return struct.unpack("<Q", struct.pack("<d", x))[0]


# -- AdvSIMD modified immediates (AdvSIMDExpandImm, Arm ARM shared/functions/vector) ---------

def replicate(value, esize, total=64):
    value &= (1 << esize) - 1
    out = 0
    for i in range(total // esize):
        out |= value << (i * esize)
    return out


def advsimd_expand_imm(op, cmode, imm8):
    """-> the 64-bit pattern (one 64-bit lane) denoted by op:cmode:imm8, or None for the reserved combinations. The
    floating point forms (cmode 1111) are expanded too so that a wrongly chosen class is seen as a wrong value."""
    imm8 &= 0xFF
    c = (cmode >> 1) & 7
    if c in (0, 1, 2, 3):
        return replicate(imm8 << (8 * c), 32)
    if c in (4, 5):
        return replicate(imm8 << (8 * (c - 4)), 16)
    if c == 6:
        if cmode & 1:
            return replicate((imm8 << 16) | 0xFFFF, 32)
        return replicate((imm8 << 8) | 0xFF, 32)
    # c == 7
    if (cmode & 1) == 0 and op == 0:
        return replicate(imm8, 8)
    if (cmode & 1) == 0 and op == 1:
        out = 0
        for i in range(8):
            if (imm8 >> i) & 1:
                out |= 0xFF << (8 * i)
        return out
    if op == 0:
        a, b = (imm8 >> 7) & 1, (imm8 >> 6) & 1
        imm32 = (a << 31) | ((b ^ 1) << 30) | ((0x1F if b else 0) << 25) | ((imm8 & 0x3F) << 19)
        return replicate(imm32, 32)
    a, b = (imm8 >> 7) & 1, (imm8 >> 6) & 1
    return (a << 63) | ((b ^ 1) << 62) | ((0xFF if b else 0) << 54) | ((imm8 & 0x3F) << 48)


def modimm_class(op, cmode):
    """which instruction an (op, cmode) pair belongs to: movi / mvni / orr / bic / fmov"""
    if cmode == 15:
        return "fmov"
    if cmode == 14:
        return "movi"          # 8-bit (op=0) and 64-bit byte mask (op=1) are both MOVI
    if cmode >= 12:
        return "mvni" if op else "movi"
    if cmode & 1:
        return "bic" if op else "orr"
    return "mvni" if op else "movi"


def modimm_result(op, cmode, imm8):
    """the 64-bit lane MOVI / MVNI write (MVNI writes the complement of the expanded immediate); for ORR / BIC / FMOV the
    expanded immediate itself"""
    x = advsimd_expand_imm(op, cmode, imm8)
    if x is not None and modimm_class(op, cmode) == "mvni":
        x ^= (1 << 64) - 1
    return x


_MOVABLE = None


def modimm_movable():
    """every 64-bit lane pattern some MOVI / MVNI encoding produces -> list of (op, cmode, imm8)"""
    global _MOVABLE
    if _MOVABLE is None:
        _MOVABLE = {}
        for op in (0, 1):
            for cmode in range(15):
                if modimm_class(op, cmode) not in ("movi", "mvni"):
                    continue
                for imm8 in range(256):
                    _MOVABLE.setdefault(modimm_result(op, cmode, imm8), []).append((op, cmode, imm8))
    return _MOVABLE
