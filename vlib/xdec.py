"""xdec - field-level x86 decoder/oracle written from the architecture manuals.

check(case, forms_by_name, raw, mode) matches the bytes AsmJit appended against the *encoding rules of the ISA
database* (opcode string of a form with the same mnemonic and a compatible operand signature) and against the
operands of the case: prefixes, REX/VEX/EVEX/XOP fields, opcode map and byte, ModRM/SIB/displacement (incl.
EVEX disp8*N), is4, immediates, relative displacement. Returns (verdict, detail):
  'ok'        every field accounted for
  'mismatch'  bytes violate the database rule / encode other operands (detail says which field)
  'noverdict' this oracle has no rule for the form (APX etc.)
"""
from vlib import x86gen as G

SEG_PREFIX = {0x26: 1, 0x2E: 2, 0x36: 3, 0x3E: 4, 0x64: 5, 0x65: 6}
LEGACY = set(SEG_PREFIX) | {0xF0, 0xF2, 0xF3, 0x66, 0x67}
MM_LEGACY = {"": [], "0F": [0x0F], "0F38": [0x0F, 0x38], "0F3A": [0x0F, 0x3A], "0F01": [0x0F, 0x01]}
MM_VEX = {"0F": 1, "0F38": 2, "0F3A": 3, "MAP4": 4, "MAP5": 5, "MAP6": 6, "MAP7": 7, "MAP8": 8, "MAP9": 9, "MAPA": 10}
PP_VEX = {"NP": 0, "": 0, "66": 1, "F3": 2, "F2": 3}
IMM_TOK = {"ib": 1, "iw": 2, "id": 4, "iq": 8}


class Mismatch(Exception):
    pass


def _class_of_form_operand(o):
    return G.CLASS_OF.get(o.get("regType")) or G.CLASS_OF.get(o.get("reg"))


def operand_compatible(op, o, mode):
    """can case operand `op` be an instance of database operand `o`?"""
    if op[0] == "I":
        if o["data"] == "1":
            return op[1] == 1
        if o["data"] == "dfv":
            return True
        bits = o["imm"]
        if not bits:
            return False
        v = op[1]
        sign = o.get("immSign") or "any"
        if sign == "signed":
            # sign-extended immediates: the value is what counts modulo the operand size (0xFFFFFFFF == -1 for r32)
            return any(-(1 << (bits - 1)) <= w < (1 << (bits - 1)) for w in (v, v - (1 << 16), v - (1 << 32), v - (1 << 64)))
        if sign == "unsigned":
            return 0 <= v < (1 << bits)
        return -(1 << (bits - 1)) <= v < (1 << bits)
    if op[0] == "L":
        return bool(o["rel"])
    if op[0] == "R":
        reg = o["reg"]
        if not reg:
            return False
        if reg in G.FIXED_REGS:
            return G.FIXED_REGS[reg] == (op[1], op[2])
        cls = _class_of_form_operand(o)
        if cls == "gp8":
            return op[1] in ("gp8lo", "gp8hi")
        return cls == op[1]
    if op[0] == "M":
        if not o["mem"]:
            return False
        m = op[1]
        if o.get("vsibReg"):
            return bool(m["index"]) and m["index"][0] == o["vsibReg"]
        if m["index"] and m["index"][0] in ("xmm", "ymm", "zmm"):
            return False
        if m["bcst"]:
            b = o.get("bcstSize") or -1
            return b > 0 and (m["size"] in (0, b // 8)) and (o["memSize"] // b) == (1 << m["bcst"])
        want = G.MEM_BYTES.get(o["mem"], o["memSize"] // 8 if o["memSize"] and o["memSize"] > 0 else 0)
        return m["size"] == 0 or want == 0 or m["size"] == want
    return False


def candidates(case, forms_by_name, mode):
    out = []
    for f in forms_by_name.get(case["name"], []):
        if mode == 64 and f["arch"] == "X86":
            continue
        if mode == 32 and f["arch"] == "X64":
            continue
        fops = f["operands"]
        cops = case["ops"]
        if len(fops) == len(cops):
            if all(operand_compatible(c, o, mode) for c, o in zip(cops, fops)):
                out.append((f, list(range(len(fops)))))
                continue
        # implicit operands may be omitted by the caller
        imp = f.get("implicit") or 0
        if imp:
            keep = [i for i in range(len(fops)) if not (imp >> i) & 1]
            if len(keep) == len(cops) and all(operand_compatible(c, fops[i], mode) for c, i in zip(cops, keep)):
                out.append((f, keep))
    return out


def _vl_of(f):
    l = f["opcode"]["l"]
    if l in ("xyz", "xy"):
        return [128, 256, 512][f.get("groupIndex", 0)]
    if l in ("128", "256", "512"):
        return int(l)
    return None


_HEX2 = set("0123456789ABCDEF")


def parse_opcode_string(f):
    """(mandatory prefixes, escape bytes, opcode byte, plus_r, second byte or None, second_plus_i) from the raw string"""
    toks = f["opcodeString"].split()
    if toks and toks[0].split(".")[0] in ("VEX", "EVEX", "XOP"):
        toks = toks[1:]
        vex = True
    else:
        vex = False
    hexes = []
    for t in toks:
        core = t[:2]
        if len(t) in (2, 4) and all(ch in _HEX2 for ch in core) and (len(t) == 2 or t[2:] in ("+r", "+i")):
            hexes.append((int(core, 16), t[2:] != ""))
        elif t in ("NP",):
            hexes.append(("NP", False))
    mand = []
    esc = []
    if not vex:
        while len(hexes) > 1 and hexes[0][0] in (0x66, 0x67, 0xF2, 0xF3, 0x9B, "NP") and not hexes[0][1]:
            h = hexes.pop(0)[0]
            if h != "NP":
                mand.append(h)
        if len(hexes) > 1 and hexes[0][0] == 0x0F:
            esc.append(hexes.pop(0)[0])
            if len(hexes) > 1 and hexes[0][0] in (0x38, 0x3A) and not hexes[0][1]:
                esc.append(hexes.pop(0)[0])
            if f["prefix"] == "3DNOW" and hexes and hexes[0][0] == 0x0F:
                hexes.pop(0)
    hexes = [h for h in hexes if h[0] != "NP"]
    if not hexes:
        raise KeyError("no opcode")
    op, plus = hexes[0]
    second = hexes[1] if len(hexes) > 1 else None
    if len(hexes) > 2:
        raise KeyError("too many opcode bytes")
    return mand, esc, op, plus, second


class Cur:
    def __init__(self, raw):
        self.raw = raw
        self.i = 0

    def peek(self):
        if self.i >= len(self.raw):
            raise Mismatch("truncated at byte %d" % self.i)
        return self.raw[self.i]

    def take(self):
        b = self.peek()
        self.i += 1
        return b

    def take_n(self, n):
        if self.i + n > len(self.raw):
            raise Mismatch("truncated: need %d bytes at %d" % (n, self.i))
        v = int.from_bytes(self.raw[self.i:self.i + n], "little")
        self.i += n
        return v


def _signed(v, nbytes):
    bits = nbytes * 8
    return v - (1 << bits) if v >> (bits - 1) else v


def match_form(case, f, opmap, raw, mode):
    """raise Mismatch(reason) unless `raw` is a valid encoding of `case` under form `f`"""
    cur = Cur(raw)
    try:
        return _match_form(case, f, opmap, raw, mode, cur)
    except Mismatch as e:
        e.pos = cur.i
        raise


def _match_form(case, f, opmap, raw, mode, cur):
    opc = f["opcode"]
    prefix = f["prefix"]
    opts = case["opts"]
    if prefix == "REX2" or opc.get("nd") or opc.get("nf") or opc.get("scc") or opc["mm"] == "MAP4" and prefix == "EVEX":
        raise KeyError("apx")
    p_mand, p_esc, p_op, p_plus, p_second = parse_opcode_string(f)
    # ---- FWAIT-prefixed x87 forms: 9B is an instruction of its own, so it must come first
    if 0x9B in p_mand:
        if cur.take() != 0x9B:
            raise Mismatch("x87 form with FWAIT: first byte is not 9B (prefixes placed before the WAIT opcode do not apply to the instruction)")
    # ---- legacy prefixes
    legacy = []
    while cur.i < len(raw) and raw[cur.i] in LEGACY:
        legacy.append(cur.take())
    if len(set(legacy)) != len(legacy):
        raise Mismatch("duplicate legacy prefix %s" % bytes(legacy).hex())
    # ---- REX
    rex = None
    if mode == 64 and prefix in ("", "3DNOW") and cur.i < len(raw) and (raw[cur.i] & 0xF0) == 0x40:
        rex = cur.take()
    W = R = X = B = 0
    R2 = X2 = V2 = 0
    vvvv = None
    L = None
    pp_field = None
    evex = None
    if rex is not None:
        W, R, X, B = (rex >> 3) & 1, (rex >> 2) & 1, (rex >> 1) & 1, rex & 1
    # ---- VEX / EVEX / XOP
    if prefix in ("VEX", "XOP", "EVEX"):
        b0 = cur.take()
        if prefix == "VEX" and b0 == 0xC5:
            b1 = cur.take()
            R = ((b1 >> 7) & 1) ^ 1
            vvvv = ((b1 >> 3) & 15) ^ 15
            L = (b1 >> 2) & 1
            pp_field = b1 & 3
            mm = 1
            if opts & G.OPT_VEX3:
                raise Mismatch("vex3 requested but 2-byte VEX emitted")
        elif (prefix == "VEX" and b0 == 0xC4) or (prefix == "XOP" and b0 == 0x8F):
            b1 = cur.take()
            b2 = cur.take()
            R, X, B = ((b1 >> 7) & 1) ^ 1, ((b1 >> 6) & 1) ^ 1, ((b1 >> 5) & 1) ^ 1
            mm = b1 & 31
            W = (b2 >> 7) & 1
            vvvv = ((b2 >> 3) & 15) ^ 15
            L = (b2 >> 2) & 1
            pp_field = b2 & 3
        elif prefix == "EVEX" and b0 == 0x62:
            p0, p1, p2 = cur.take(), cur.take(), cur.take()
            R, X, B = ((p0 >> 7) & 1) ^ 1, ((p0 >> 6) & 1) ^ 1, ((p0 >> 5) & 1) ^ 1
            R2 = ((p0 >> 4) & 1) ^ 1
            if p0 & 0x08:
                raise Mismatch("EVEX P0 bit 3 set")
            mm = p0 & 7
            W = (p1 >> 7) & 1
            vvvv = ((p1 >> 3) & 15) ^ 15
            if not (p1 & 0x04):
                raise Mismatch("EVEX P1 bit 2 must be 1")
            pp_field = p1 & 3
            evex = dict(z=(p2 >> 7) & 1, LL=(p2 >> 5) & 3, b=(p2 >> 4) & 1, aaa=p2 & 7)
            V2 = ((p2 >> 3) & 1) ^ 1
            L = evex["LL"]
        else:
            raise Mismatch("expected %s prefix, found byte %02x" % (prefix, b0))
        if mode == 32 and (R or X or R2 or V2 and False):
            pass
        if MM_VEX.get(opc["mm"]) != mm:
            raise Mismatch("opcode map %s expected, prefix encodes map %d" % (opc["mm"], mm))
        if PP_VEX.get(opc["pp"]) != pp_field:
            raise Mismatch("pp %s expected, prefix encodes %d" % (opc["pp"], pp_field))
        if rex is not None:
            raise Mismatch("REX before VEX/EVEX")
        for p in legacy:
            if p in (0x66, 0xF2, 0xF3, 0xF0):
                raise Mismatch("legacy prefix %02x before VEX/EVEX" % p)
    else:
        # mandatory prefixes / operand size
        need = set(x for x in p_mand if x not in (0x9B, 0x67))
        gp, gi = f.get("groupPattern") or "", f.get("groupIndex", -1)
        if gp == "rv" and gi == 0:
            need.add(0x66)
        allowed = set(need)
        if opts & (G.OPT_REP | G.OPT_XRELEASE):
            allowed.add(0xF3)
            need.add(0xF3)
        if opts & (G.OPT_REPNE | G.OPT_XACQUIRE):
            allowed.add(0xF2)
            need.add(0xF2)
        for p in legacy:
            if p in (0x66, 0xF2, 0xF3) and p not in allowed:
                raise Mismatch("unexpected prefix %02x (form %s)" % (p, f["opcodeString"]))
        for p in need:
            if p not in legacy:
                raise Mismatch("missing mandatory prefix %02x (form %s)" % (p, f["opcodeString"]))
        for b in p_esc:
            if cur.take() != b:
                raise Mismatch("opcode escape bytes differ from %s" % f["opcodeString"])
        if prefix == "3DNOW":
            if cur.take() != 0x0F:
                raise Mismatch("3DNow! escape 0F 0F expected")
    # lock (in 32-bit mode F0 0F 20/22 is the alternative encoding of CR8: `lock mov cr0` == `mov cr8`)
    cr8_alt = mode == 32 and any(op[0] == "R" and op[1] == "creg" and op[2] >= 8 for op in case["ops"])
    if (0xF0 in legacy) != (bool(opts & G.OPT_LOCK) or cr8_alt):
        raise Mismatch("LOCK prefix %s" % ("missing" if opts & G.OPT_LOCK else "emitted but not requested"))
    # W
    w = opc["w"]
    if prefix in ("", "3DNOW") and w == "" and ((f.get("groupPattern") == "rv" and f.get("groupIndex") == 2) or
                                                (f.get("groupPattern") == "ry" and f.get("groupIndex") == 1)):
        w = "W1"
    if w == "W1" and W != 1:
        raise Mismatch("W1 form but W=0")
    if w in ("W0",) and W != 0:
        raise Mismatch("W0 form but W=1")
    if w == "" and prefix in ("", "3DNOW") and W != 0:
        raise Mismatch("form without REX.W encoded with REX.W=1")
    # L
    if prefix in ("VEX", "XOP", "EVEX"):
        vl = _vl_of(f)
        er_active = bool(opts & G.OPT_ER) and evex is not None
        if vl is not None and not er_active and not (opts & G.OPT_SAE and evex is not None):
            want = {128: 0, 256: 1, 512: 2}[vl]
            if L != want:
                raise Mismatch("vector length L=%d, form says %d bits" % (L, vl))
        elif opc["l"] in ("L0", "LZ", "0") and L != 0:
            raise Mismatch("L must be 0")
        elif opc["l"] in ("L1", "1") and L != 1:
            raise Mismatch("L must be 1")

    # ---- map case operands onto encoding slots
    fops = f["operands"]
    enc = f["encoding"]
    slots = {}   # letter -> (case operand, form operand)
    letters = [c for c in enc if c in "RMVS"] if enc not in ("OP", "NONE") else []
    li = 0
    plain = []   # explicit reg/mem operands that are not encoded through ModRM/vvvv/is4
    imms = []
    rel_ops = []
    mem_ops = []
    for ci, fi in enumerate(opmap):
        o = fops[fi]
        c = case["ops"][ci]
        if c[0] == "I":
            if o["data"] not in ("1",):
                imms.append((c, o))
            continue
        if c[0] == "L":
            rel_ops.append((c, o))
            continue
        if c[0] == "M":
            mem_ops.append((c, o))
        fixed = o["reg"] in G.FIXED_REGS and not o["mem"]
        if fixed or (f.get("implicit", 0) >> fi) & 1:
            continue
        if c[0] == "R" and (o.get("regIndexRel") or 0):
            continue  # follower of a consecutive-register run: implied by the lead register
        if li < len(letters):
            slots[letters[li]] = (c, o)
            li += 1
        else:
            plain.append((c, o))

    # ---- opcode byte(s)
    base = p_op
    has_modrm = (opc["mod"] != "" or ("M" in enc and enc not in ("OP", "NONE"))) and p_second is None
    if opc["mod"] == "" and has_modrm:
        opc = dict(opc, mod="xx", modr="r", modrm="")
    ob = cur.take() if prefix != "3DNOW" else base
    if p_plus:
        if (ob & 0xF8) != (base & 0xF8):
            raise Mismatch("opcode %02x, form says %02x+r" % (ob, base))
        regop = [p for p in plain if p[0][0] == "R"]
        if len(regop) != 1:
            raise KeyError("+r operand unclear")
        rid = (ob & 7) | (B << 3)
        _check_reg(regop[0][0], rid, rex is not None, "opcode+r", mode)
        plain.remove(regop[0])
    elif ob != base:
        raise Mismatch("opcode byte %02x, form says %02x (%s)" % (ob, base, f["opcodeString"]))
    if p_second is not None:
        sb = cur.take()
        if p_second[1]:
            if (sb & 0xF8) != (p_second[0] & 0xF8):
                raise Mismatch("second opcode byte %02x, form says %02x+i" % (sb, p_second[0]))
            regop = [p for p in plain if p[0][0] == "R"]
            if len(regop) != 1:
                raise KeyError("+i operand unclear")
            _check_reg(regop[0][0], sb & 7, False, "opcode+i", mode)
            plain.remove(regop[0])
        elif sb != p_second[0]:
            raise Mismatch("second opcode byte %02x, form says %02x" % (sb, p_second[0]))

    implicit_mems = []
    moffs_used = False
    addr_override = 0x67 in legacy
    seg_seen = [SEG_PREFIX[p] for p in legacy if p in SEG_PREFIX]
    mem_case = None
    disp_scale = 1
    if has_modrm:
        modrm = cur.take()
        mod, reg, rm = modrm >> 6, (modrm >> 3) & 7, modrm & 7
        # reg field
        if opc["modr"] == "r":
            if "R" in slots:
                c, o = slots["R"]
                if c[0] != "R":
                    raise KeyError("memory operand addressed through ModRM.reg (movdir64b/enqcmd style)")
                rid = reg | (R << 3) | (R2 << 4)
                _check_reg(c, rid, rex is not None, "ModRM.reg", mode)
            else:
                raise KeyError("ModRM.reg without operand")
        elif opc["modr"] != "":
            if reg != int(opc["modr"]):
                raise Mismatch("ModRM.reg=/%d, form says /%s" % (reg, opc["modr"]))
        # rm field
        if "M" in slots:
            c, o = slots["M"]
        elif mem_ops:
            c, o = mem_ops[0]
        else:
            c = o = None
        if opc["mod"] == "11" and mod != 3:
            raise Mismatch("form requires mod=11")
        if opc["mod"] == "!(11)" and mod == 3:
            raise Mismatch("form requires a memory operand (mod != 11)")
        if opc["modrm"] not in ("", "b") and rm != int(opc["modrm"]):
            raise Mismatch("ModRM.rm=%d, form says %s" % (rm, opc["modrm"]))
        if c is not None and c[0] == "R":
            if mod != 3:
                raise Mismatch("register operand but ModRM.mod=%d" % mod)
            rid = rm | (B << 3)
            if evex is not None and c[1] in ("xmm", "ymm", "zmm"):
                rid |= X << 4
            _check_reg(c, rid, rex is not None, "ModRM.rm", mode)
        elif c is not None and c[0] == "M":
            if mod == 3 and case["name"] in ("umonitor", "clzero", "monitor", "monitorx", "mwait", "mwaitx", "invlpga", "vmload", "vmsave", "vmrun"):
                raise KeyError("implicit-address form")
            if mod == 3:
                raise Mismatch("memory operand but ModRM.mod=11")
            mem_case = c[1]
            if evex is not None:
                disp_scale = _disp8_n(f, o, mem_case, W)
            _check_mem(cur, mem_case, mod, rm, mode, addr_override, X, B, V2, evex, disp_scale, o, case)
        else:
            if opc["modrm"] in ("", "b") and opc["mod"] != "11":
                raise KeyError("rm operand unclear")
    else:
        # no ModRM: memory operands are implicit (string ops) or moffs
        for c, o in mem_ops:
            if o["mem"].startswith("moff"):
                asz = (4 if addr_override else 8) if mode == 64 else (2 if addr_override else 4)
                v = cur.take_n(asz)
                if v != (c[1]["disp"] & ((1 << (asz * 8)) - 1)):
                    raise Mismatch("moffs %x, case says %x" % (v, c[1]["disp"]))
                if asz < 8 and not (0 <= c[1]["disp"] < (1 << (asz * 8))) and not (mode == 32 and asz == 4 and -0x80000000 <= c[1]["disp"] < 0):
                    raise Mismatch("moffs%d cannot hold the requested address (0x%x)" % (asz * 8, c[1]["disp"] & M64))
                mem_case = c[1]
                moffs_used = True
            else:
                _check_implicit_mem(c[1], o, mode, addr_override)
                implicit_mems.append(c[1])
                if c[1]["seg"] and o.get("memSegment") != "es":
                    mem_case = c[1]
    if prefix == "3DNOW":
        sfx = cur.take()
        if sfx != base:
            raise Mismatch("3DNow! opcode suffix %02x, form says %02x" % (sfx, base))
    # vvvv
    if "V" in slots:
        c, o = slots["V"]
        if c[0] != "R":
            raise Mismatch("vvvv operand is not a register")
        vid = vvvv | (V2 << 4)
        _check_reg(c, vid, False, "vvvv", mode)
    elif vvvv is not None:
        if vvvv != 0 and not (mode == 32 and False):
            raise Mismatch("vvvv=%d but the form has no vvvv operand (must be 1111b)" % vvvv)
        if V2 and not (mem_case and mem_case["index"] and mem_case["index"][0] in ("xmm", "ymm", "zmm")):
            raise Mismatch("EVEX.V' set without a vvvv/VSIB operand")
    # segment override
    want_seg = mem_case["seg"] if mem_case else 0
    # static branch hints: EncodingOptions::kPredictedJumps makes InstOptions::kTaken / kNotTaken of a conditional jump
    # a 3E / 2E prefix (the bytes of the DS / CS overrides); without the encoding option, and on every other
    # instruction, the two options emit nothing
    hint = 0
    if opts & (G.OPT_TAKEN | G.OPT_NOTTAKEN) and case.get("eopts", 0) & G.EO_PREDICTED_JUMPS and rel_ops and \
            ((not p_esc and 0x70 <= p_op <= 0x7F) or (p_esc == [0x0F] and 0x80 <= p_op <= 0x8F)):
        hint = 4 if opts & G.OPT_TAKEN else 2
    if want_seg:
        if seg_seen != [want_seg]:
            raise Mismatch("segment override %s expected, prefixes %s" % (want_seg, seg_seen))
    elif hint:
        if seg_seen != [hint]:
            raise Mismatch("branch hint prefix %s expected, prefixes %s" % ("3E" if hint == 4 else "2E", seg_seen))
    elif seg_seen:
        raise Mismatch("segment prefix emitted but not requested")
    # address-size prefix
    want67 = 0x67 in p_mand
    for mc in ([mem_case] if mem_case is not None else []) + implicit_mems:
        for k in ("base", "index"):
            r = mc[k]
            if r and r[0] == ("gp32" if mode == 64 else "gp16"):
                want67 = True
    if mode == 64 and mem_case is not None and not mem_case["base"] and not mem_case["index"] and mem_case.get("addr") == "abs" and \
            0x80000000 <= mem_case["disp"] <= 0xFFFFFFFF and not moffs_used:
        # an unsigned 32-bit absolute address with bit 31 set is only reachable with 32-bit addressing (zero extension)
        want67 = True
    if moffs_used:
        want67 = addr_override  # moffs: the prefix selects the width of the address field, which was compared as a whole
    if "cbase" in case and mem_case is not None and not mem_case["base"] and not mem_case["index"] and mem_case.get("addr") != "abs":
        want67 = addr_override  # rel / default absolute operand: the designated address was compared as a whole (zero extension under 67h)
    if case["name"] in ("invlpga", "monitor", "monitorx", "umonitor", "clzero", "vmload", "vmsave", "vmrun"):
        want67 = addr_override  # implicit-address forms: judged by the decoders
    if addr_override != want67:
        raise Mismatch("address-size prefix 67 %s" % ("missing" if want67 else "emitted without a reason"))
    # EVEX decorations
    if evex is not None:
        k = case["extra"][1] if case["extra"] else 0
        if evex["aaa"] != k:
            raise Mismatch("EVEX.aaa=%d, case mask k%d" % (evex["aaa"], k))
        if evex["z"] != (1 if opts & G.OPT_ZMASK else 0):
            raise Mismatch("EVEX.z=%d" % evex["z"])
        want_b = 1 if (opts & (G.OPT_ER | G.OPT_SAE)) or (mem_case and mem_case["bcst"]) else 0
        if evex["b"] != want_b:
            raise Mismatch("EVEX.b=%d, expected %d" % (evex["b"], want_b))
        if opts & G.OPT_ER and evex["LL"] != ((opts >> 21) & 3):
            raise Mismatch("EVEX rounding control %d, requested %d" % (evex["LL"], (opts >> 21) & 3))
    elif case["extra"] or opts & (G.OPT_ZMASK | G.OPT_ER | G.OPT_SAE):
        raise Mismatch("mask/zeroing/rounding requested but the encoding is not EVEX")
    # immediates: is4 first byte shares the immediate byte
    toks = f["opcodeString"].split()
    imm_sizes = []
    for t in toks:
        if t in IMM_TOK:
            imm_sizes.append(IMM_TOK[t])
        elif t == "iv":
            imm_sizes.append({16: 2, 32: 4, 64: 4}[_opsize(f)])
        elif t == "/is4":
            imm_sizes.append("is4")
    imm_list = list(imms)
    if case["name"] in ("ljmp", "lcall") and len(imm_list) == 2:
        imm_list.reverse()  # operands are (selector, offset); the encoding stores the offset first
    for sz in imm_sizes:
        if sz == "is4":
            b = cur.take()
            if "S" not in slots:
                raise KeyError("is4 without operand")
            c, o = slots["S"]
            sid = b >> 4
            if mode == 32:
                sid &= 7
            _check_reg(c, sid, False, "is4", mode)
            rest = [x for x in imm_list if x[1]["imm"] == 4]
            if rest:
                if (b & 15) != (rest[0][0][1] & 15):
                    raise Mismatch("imm4 %d, case says %d" % (b & 15, rest[0][0][1]))
                imm_list.remove(rest[0])
            elif b & 15:
                raise Mismatch("is4 low nibble not zero")
            continue
        v = cur.take_n(sz)
        if not imm_list:
            if prefix == "3DNOW":
                continue
            raise Mismatch("immediate bytes without an immediate operand")
        c, o = imm_list.pop(0)
        obits = _imm_target_bits(f, o, sz)
        got = _signed(v, sz) if obits > sz * 8 else v
        if (got - c[1]) % (1 << obits) != 0:
            raise Mismatch("immediate %x (%d bytes), case says %x" % (v, sz, c[1] & ((1 << (sz * 8)) - 1)))

    if imm_list:
        raise Mismatch("immediate operand not encoded")
    # relative displacement: label bound right before the instruction
    for t in toks:
        if t in ("cb", "cw", "cd"):
            n = {"cb": 1, "cw": 2, "cd": 4}[t]
            v = _signed(cur.take_n(n), n)
            if v != -len(raw):
                raise Mismatch("rel%d = %d, expected %d (label bound at the instruction start)" % (n * 8, v, -len(raw)))
    if cur.i != len(raw):
        raise Mismatch("%d extra byte(s) appended after the instruction" % (len(raw) - cur.i))
    if plain:
        for c, o in plain:
            if c[0] == "R" and (o["reg"] not in G.FIXED_REGS):
                raise KeyError("operand without a slot")
    return True


def _imm_target_bits(f, o, sz):
    """width the immediate is extended to: the operand size for ALU-style forms, else the field width"""
    if o["imm"] and o["imm"] > sz * 8:
        return o["imm"]
    if (o.get("immSign") == "signed" or o["data"].startswith("imms")) and f["prefix"] in ("", "3DNOW"):
        return max(_opsize(f), sz * 8)
    return sz * 8


def has_explicit_modrm(opc):
    return opc["modr"] != "" or opc["modrm"] != ""


def _opsize(f):
    for o in f["operands"]:
        if o["regType"] in ("r16", "r32", "r64"):
            return int(o["regType"][1:])
        if o["mem"] in ("m16", "m32", "m64"):
            return o["memSize"]
    return 32


def _check_reg(c, enc_id, rex_present, where, mode):
    rtype, rid = c[1], c[2]
    if rtype == "gp8hi":
        if rex_present:
            raise Mismatch("%s: AH..BH encoded together with a REX prefix" % where)
        want = rid + 4
    elif rtype == "gp8lo":
        want = rid
        if 4 <= rid <= 7 and not rex_present:
            raise Mismatch("%s: SPL..DIL without REX encodes AH..BH" % where)
    elif rtype in ("mm", "k", "st", "sreg", "bnd", "tmm"):
        want = rid - 1 if rtype == "sreg" else rid
        enc_id &= 7
    else:
        want = rid
    if mode == 32 and rtype not in ("creg", "dreg"):
        enc_id &= 7 if rtype not in ("xmm", "ymm", "zmm") else 7
    if mode == 32 and rtype == "creg":
        want &= 7   # CR8..15 use the LOCK-prefix alternative encoding in 32-bit mode
    if enc_id != want:
        raise Mismatch("%s encodes register %d, case says %s:%d" % (where, enc_id, rtype, rid))


def _disp8_n(f, o, m, W):
    if o.get("vsibReg"):
        return 8 if W else 4
    if m["bcst"]:
        return (o.get("bcstSize") or 32) // 8
    tt = f.get("tupleType") or ""
    if tt in ("t1s", "t1f"):
        es = f.get("elementSize") or -1
        if es and es > 0:
            return es // 8
        if o["memSize"] and 0 < o["memSize"] <= 64:
            return o["memSize"] // 8
        nm = f["name"]
        if nm in ("vpexpandb", "vpcompressb"):
            return 1
        if nm in ("vpexpandw", "vpcompressw"):
            return 2
        return 8 if W else 4
    bits = o["memSize"]
    if bits and bits > 0:
        return bits // 8
    return 1


def _check_implicit_mem(m, o, mode, addr_override):
    return


M64 = (1 << 64) - 1


def _check_mem(cur, m, mod, rm, mode, addr_override, X, B, V2, evex, scale, o, case=None):
    addr16 = mode == 32 and addr_override
    base = index = None
    shift = 0
    if addr16:
        table = {0: (3, 6), 1: (3, 7), 2: (5, 6), 3: (5, 7), 4: (6, None), 5: (7, None), 6: (5, None), 7: (3, None)}
        b, i = table[rm]
        if mod == 0 and rm == 6:
            b = i = None
            disp = _signed(cur.take_n(2), 2)
        elif mod == 0:
            disp = 0
        elif mod == 1:
            disp = _signed(cur.take_n(1), 1) * scale
        else:
            disp = _signed(cur.take_n(2), 2)
        got_b = ("gp16", b) if b is not None else None
        got_i = ("gp16", i) if i is not None else None
        wb, wi = m["base"], m["index"]
        if wb is None and wi is not None:
            wb, wi = wi, None
        if {got_b, got_i} != {wb, wi} or (m["shift"] != 0 and wi is not None):
            raise Mismatch("16-bit address registers %s+%s, case says %s+%s" % (got_b, got_i, m["base"], m["index"]))
        if (disp & 0xFFFF) != (m["disp"] & 0xFFFF):
            raise Mismatch("disp16 %d, case says %d" % (disp, m["disp"]))
        return
    areg = "gp64" if (mode == 64 and not addr_override) else "gp32"
    rip = False
    if rm == 4:
        sib = cur.take()
        shift, si, sb = sib >> 6, (sib >> 3) & 7, sib & 7
        idx = si | (X << 3)
        vs = m["index"] and m["index"][0] in ("xmm", "ymm", "zmm")
        if vs:
            idx |= V2 << 4
            index = (m["index"][0], idx)
        elif idx != 4:
            index = (areg, idx)
        if sb == 5 and mod == 0:
            base = None
            dsz = 4
        else:
            base = (areg, sb | (B << 3))
            dsz = {0: 0, 1: 1, 2: 4}[mod]
    elif rm == 5 and mod == 0:
        dsz = 4
        if mode == 64:
            rip = True
    else:
        base = (areg, rm | (B << 3))
        dsz = {0: 0, 1: 1, 2: 4}[mod]
    disp = _signed(cur.take_n(dsz), dsz) if dsz else 0
    if dsz == 1:
        disp *= scale
    wb, wi = m["base"], m["index"]
    if wb and wb[0] == "rip":
        wb = ("rip", 0)
    if rip and wb is None and wi is None and m.get("addr") in ("rel", "default"):
        # an absolute address that the assembler itself turned into [rip+disp32]: possible only when it knows where the code
        # lives. The operand designates (address of the next instruction) + disp32; the next instruction starts behind
        # everything this one appends, incl. a trailing immediate.
        if case is None or "cbase" not in case or case.get("off") is None:
            raise KeyError("rip-relative form of an absolute address: code position unknown to the oracle")
        if case["cbase"] is None:
            raise KeyError("relocated ([rip+0] + AbsToRel relocation): judged by C04")
        got = (case["cbase"] + case["off"] + len(cur.raw) + disp) & M64
        if got != (m["disp"] & M64):
            raise Mismatch("RIP-relative operand designates another address than requested (0x%x, case says 0x%x: off by %d)" % (got, m["disp"] & M64, got - (m["disp"] & M64)))
        case["_absenc"] = "riprel"   # (accounting: which encoding carried the address)
        return
    if rip:
        if wb != ("rip", 0) or wi is not None:
            raise Mismatch("RIP-relative encoding, case says base=%s index=%s" % (wb, wi))
    else:
        if wb == ("rip", 0):
            raise Mismatch("case is RIP-relative but encoding is not")
        # an index with scale 1 and no base may legitimately be encoded as a base
        if wb is None and wi is not None and m["shift"] == 0 and index is None and base == wi and wi[0] not in ("xmm", "ymm", "zmm"):
            pass
        elif (base, index) != (wb, wi):
            # base/index swap is legal when the scale is 1 and neither is a stack pointer restriction case
            if m["shift"] == 0 and shift == 0 and (base, index) == (wi, wb) and base is not None and index is not None:
                pass
            else:
                raise Mismatch("address registers base=%s index=%s, case says base=%s index=%s" % (base, index, wb, wi))
        if index is not None and wi is not None and (base, index) == (wb, wi) and shift != m["shift"]:
            raise Mismatch("scale 2^%d, case says 2^%d" % (shift, m["shift"]))
    want = m["disp"]
    if base is None and index is None and not rip:
        if (disp & 0xFFFFFFFF) != (want & 0xFFFFFFFF):
            raise Mismatch("absolute disp32 %x, case says %x" % (disp & 0xFFFFFFFF, want & 0xFFFFFFFF))
        if case is not None and "cbase" in case:
            # the whole address counts: disp32 is sign-extended (zero-extended under 67h / in 32-bit mode)
            got = (disp & 0xFFFFFFFF) if (mode == 32 or addr_override) else (disp & M64)
            if got != (want & M64) and not (mode == 32 and -0x80000000 <= want < 0):
                raise Mismatch("absolute disp32 designates another address than requested (0x%x, case says 0x%x)" % (got, want & M64))
            case["_absenc"] = "abs"
    elif disp != want and (disp & 0xFFFFFFFF) != (want & 0xFFFFFFFF):
        raise Mismatch("displacement %d (scale %d), case says %d" % (disp, scale if dsz == 1 else 1, want))
    elif areg == "gp64" and disp != want and not (-0x80000000 <= want < 0x80000000):
        raise Mismatch("displacement %d does not sign-extend to %d" % (disp, want))


def optsize_alternative(case):
    """EncodingOptions::kOptimizeForSize is documented to turn `mov r64, imm` and `and r64, imm` with an immediate that
    fits 32 unsigned bits into the r32 instruction (implicit zero extension): the equivalent case, or None."""
    ops = case["ops"]
    if case.get("eopts", 0) & G.EO_OPTSIZE and case["name"] in ("mov", "and") and len(ops) == 2 and ops[0][0] == "R" and \
            ops[0][1] == "gp64" and ops[1][0] == "I" and 0 <= ops[1][1] <= 0xFFFFFFFF:
        return dict(case, ops=[("R", "gp32", ops[0][2]), ops[1]])
    return None


def check(case, forms_by_name, raw, mode):
    nm = case["name"]
    if nm in ("ret", "retf") and len(case["ops"]) == 1 and case["ops"][0] == ("I", 0) and raw[-1:] in (b"\xc3", b"\xcb") and all(b in (0xF2, 0xF3, 0x40, 0x66) for b in raw[:-1]):
        return "ok", "ret 0 emitted as plain ret (equivalent)"
    if nm == "xchg" and len(case["ops"]) == 2 and case["ops"][0] == case["ops"][1] and case["ops"][0][0] == "R" and case["ops"][0][2] == 0 \
            and case["ops"][0][1] in ("gp64", "gp16") and raw in (b"\x90", b"\x66\x90", b"\x48\x90", b"\x40\x90", b"\x66\x40\x90"):
        return "ok", "xchg rax,rax emitted as nop (equivalent)"
    cands = candidates(case, forms_by_name, mode)
    if not cands:
        return "noverdict", "no database form of '%s' is compatible with the operands" % case["name"]
    reasons = []
    unknown = 0
    for f, opmap in cands:
        try:
            match_form(case, f, opmap, raw, mode)
            return "ok", f["opcodeString"]
        except Mismatch as e:
            reasons.append((getattr(e, "pos", 0), "%s: %s" % (f["opcodeString"], e)))
        except (KeyError, ValueError, IndexError, TypeError) as e:
            unknown += 1
    # report the candidate rule that matched the longest prefix of the bytes first
    reasons = [r for _, r in sorted(reasons, key=lambda x: -x[0])]
    if reasons and not unknown:
        return "mismatch", " | ".join(reasons[:3])
    if reasons:
        return "noverdict", "partly unsupported: " + " | ".join(reasons[:2])
    return "noverdict", "form not supported by xdec"
