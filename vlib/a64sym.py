"""Symbolic interpreter for AArch64 prolog/epilog sequences (C07).

There is no AArch64 CPU or emulator in the sandbox, so frames are judged on the *LLVM disassembly* of the bytes
asmjit produced: the interpreter tracks SP (as a concrete offset from the entry SP), pointer-valued registers,
and a memory of 8-byte cells holding symbolic values ("entry value of x19", "low half of v8", ...).

run_case(rec, prolog_lines, epilog_lines) -> (violations, inconclusive_reason)
  violations: list of (kind, text); kind is a stable class name.
An unknown mnemonic / operand shape makes the case inconclusive, never a violation.
"""
import re
import subprocess

MARK = "d4200000"  # brk #0 little-endian word: 0xd4200000 -> bytes 00 00 20 d4


class Inconclusive(Exception):
    pass


def disassemble(blobs):
    """blobs: list of hex strings (each a multiple of 4 bytes). One llvm-mc run; returns a list of lists of text
    lines (None for a blob whose words did not all decode)."""
    words = []
    for h in blobs:
        words.append(h)
        words.append("000020d4")  # brk #0 separator
    text = "\n".join(" ".join("0x" + h[i:i + 2] for i in range(j, j + 8, 2)) for h in words for j in range(0, len(h), 8))
    p = subprocess.run(["llvm-mc", "--disassemble", "-triple=aarch64", "-mattr=+bti,+v8.5a"], input=text.encode(),
                       stdout=subprocess.PIPE, stderr=subprocess.PIPE, timeout=600)
    lines = [l.strip() for l in p.stdout.decode().splitlines() if l.strip() and not l.strip().startswith(".text")]
    out, cur = [], []
    for l in lines:
        l = l.split("//")[0].strip().replace("\t", " ")
        if l.startswith("brk"):
            out.append(cur)
            cur = []
        else:
            cur.append(l)
    if len(out) != len(blobs):
        raise RuntimeError("llvm-mc output does not split into %d blobs (got %d): %s" % (len(blobs), len(out), p.stderr[:300]))
    res = []
    for h, ls in zip(blobs, out):
        res.append(ls if len(ls) == len(h) // 8 else None)
    return res


_MEM = re.compile(r"^\[(\w+)(?:,\s*#(-?\d+))?\](!)?(?:,\s*#(-?\d+))?$")


def _split_ops(s):
    ops, depth, cur = [], 0, ""
    for ch in s:
        if ch == "[":
            depth += 1
        if ch == "]":
            depth -= 1
        if ch == "," and depth == 0:
            ops.append(cur.strip())
            cur = ""
        else:
            cur += ch
    if cur.strip():
        ops.append(cur.strip())
    # re-join post-index immediate with its memory operand
    if len(ops) >= 2 and ops[-1].startswith("#") and ops[-2].endswith("]"):
        ops[-2] = ops[-2] + ", " + ops[-1]
        ops.pop()
    return ops


class Machine:
    def __init__(self):
        self.sp = 0                       # offset from entry SP
        self.x = {i: ("e", "x%d" % i) for i in range(31)}
        self.vlo = {i: ("e", "v%d.lo" % i) for i in range(32)}
        self.vhi = {i: ("e", "v%d.hi" % i) for i in range(32)}
        self.mem = {}                     # offset (multiple of 8) -> symbolic 64-bit value
        self.stores = []                  # (offset, width, regname) in program order
        self.min_sp = 0
        self.returned = False
        self.ret_target = None

    # -- helpers
    def base(self, name):
        if name == "sp":
            return self.sp
        m = re.match(r"^x(\d+)$", name)
        if not m:
            raise Inconclusive("base register " + name)
        v = self.x[int(m.group(1))]
        if v[0] != "p":
            raise Inconclusive("memory access through non-pointer %s=%r" % (name, v))
        return v[1]

    def set_base(self, name, off):
        if name == "sp":
            self.sp = off
            self.min_sp = min(self.min_sp, off)
        else:
            self.x[int(name[1:])] = ("p", off)

    def addr(self, memop):
        m = _MEM.match(memop)
        if not m:
            raise Inconclusive("memory operand " + memop)
        b, imm, pre, post = m.group(1), int(m.group(2) or 0), m.group(3), m.group(4)
        a = self.base(b)
        if pre:
            a += imm
            self.set_base(b, a)
            return a
        if post is not None:
            self.set_base(b, a + int(post))
            return a
        return a + imm

    def reg_parts(self, r):
        """returns list of (getter, setter, name) for each 8-byte part the register occupies in memory"""
        m = re.match(r"^([xdq])(\d+)$", r)
        if not m:
            raise Inconclusive("register " + r)
        k, n = m.group(1), int(m.group(2))
        if k == "x":
            if n > 30:
                raise Inconclusive("register " + r)
            return [("x", n)]
        if k == "d":
            return [("vlo", n)]
        return [("vlo", n), ("vhi", n)]

    def store(self, r, a):
        if a % 8:
            raise Inconclusive("store to unaligned offset %d" % a)
        parts = self.reg_parts(r)
        for i, (k, n) in enumerate(parts):
            val = self.x[n] if k == "x" else self.vlo[n] if k == "vlo" else self.vhi[n]
            self.stores.append((a + 8 * i, 8, r))
            self.mem[a + 8 * i] = val
        return 8 * len(parts)

    def load(self, r, a):
        if a % 8:
            raise Inconclusive("load from unaligned offset %d" % a)
        parts = self.reg_parts(r)
        for i, (k, n) in enumerate(parts):
            val = self.mem.get(a + 8 * i, ("uninit", a + 8 * i))
            if k == "x":
                self.x[n] = val
            elif k == "vlo":
                self.vlo[n] = val
                if len(parts) == 1:
                    self.vhi[n] = ("zero",)
            else:
                self.vhi[n] = val
        return 8 * len(parts)

    def step(self, line):
        parts = line.split(None, 1)
        mn = parts[0]
        ops = _split_ops(parts[1]) if len(parts) > 1 else []
        if mn in ("bti", "nop", "hint", "paciasp", "autiasp", "pacibsp", "autibsp"):
            return
        if mn == "ret":
            r = ops[0] if ops else "x30"
            self.returned = True
            self.ret_target = self.x[int(r[1:])]
            return
        if mn in ("stp", "ldp"):
            if len(ops) != 3:
                raise Inconclusive(line)
            a = self.addr(ops[2])
            f = self.store if mn == "stp" else self.load
            n = f(ops[0], a)
            f(ops[1], a + n)
            return
        if mn in ("str", "ldr"):
            if len(ops) != 2:
                raise Inconclusive(line)
            a = self.addr(ops[1])
            (self.store if mn == "str" else self.load)(ops[0], a)
            return
        if mn == "mov" and len(ops) == 2 and (ops[0] == "sp" or ops[1] == "sp"):
            self.set_base(ops[0], self.base(ops[1]))
            return
        if mn in ("add", "sub") and len(ops) >= 3 and ops[2].startswith("#"):
            imm = int(ops[2][1:], 0)
            if len(ops) == 4:
                m = re.match(r"^lsl #(\d+)$", ops[3])
                if not m:
                    raise Inconclusive(line)
                imm <<= int(m.group(1))
            elif len(ops) != 3:
                raise Inconclusive(line)
            v = self.base(ops[1]) + (imm if mn == "add" else -imm)
            self.set_base(ops[0], v)
            return
        if mn == "and" and len(ops) == 3 and ops[0] == "sp":
            raise Inconclusive("dynamic alignment instruction " + line)
        raise Inconclusive("mnemonic " + line)


def _regname(idx):
    return "sp" if idx == 31 else "x%d" % idx


def run_case(rec, prolog, epilog):
    """rec: JSON record printed by drv_frame for an AArch64 frame. Returns (violations, inconclusive)"""
    viol = []
    m = Machine()
    try:
        for l in prolog:
            m.step(l)
    except Inconclusive as e:
        return viol, "prolog: " + str(e)
    sp_body = m.sp
    # --- slots written by the prolog must not overlap each other and must lie below the entry SP
    seen = {}
    for off, w, r in m.stores:
        if off in seen and seen[off] != r:
            viol.append(("save-slots-overlap", "prolog stores %s and %s to the same slot entry_sp%+d" % (seen[off], r, off)))
        seen[off] = r
        if off >= 0:
            viol.append(("save-slot-in-caller-frame", "prolog stores %s at entry_sp%+d (caller's frame)" % (r, off)))
        if off < sp_body:
            viol.append(("save-slot-below-sp", "prolog stores %s at entry_sp%+d, below the body SP entry_sp%+d" % (r, off, sp_body)))
    # --- SP alignment promise (entry SP is 16-byte aligned by AAPCS64; nothing more may be assumed)
    fa = rec["final_align"]
    # (a) the basic AAPCS64 rule, whatever the frame promises: SP is a multiple of 16 whenever it is used as a base register - the epilog's
    #     own loads go through it. The emitted sub/pre-index amounts decide this, not FuncFrame's arithmetic. Separate kind, so that
    #     the known finding about alignments ABOVE 16 (below) cannot swallow it.
    rec["_sp16_checked"] = bool(rec["promise"] or m.stores or rec["stack_adj"])
    rec["_sp_moved"] = sp_body != 0
    if sp_body % 16 and (rec["promise"] or m.stores or rec["stack_adj"]):
        viol.append(("sp-not-16-aligned", "SP inside the body = entry_sp%+d is not a multiple of 16 (AAPCS64: SP mod 16 = 0 whenever it is "
                     "used to access memory)" % sp_body))
    # (b) the promised alignment above 16 (needs dynamic alignment, as the entry SP is only 16-byte aligned)
    elif rec["promise"] and fa > 16:
        bad = [e for e in range(0, fa, 16) if (e + sp_body) % fa]
        if bad:
            viol.append(("sp-misaligned:align%d" % fa, "SP inside the body = entry_sp%+d; for an entry SP = %d (mod %d), allowed by the ABI, it is not "
                         "aligned to final_stack_alignment()=%d (prolog performs no alignment)" % (sp_body, bad[0], fa, fa)))
    elif rec["promise"] and sp_body % max(fa, 1):
        viol.append(("sp-misaligned:align%d" % fa, "SP inside the body = entry_sp%+d is not aligned to final_stack_alignment()=%d" % (sp_body, fa)))
    # --- declared areas against save slots / caller frame
    areas = []
    if rec["cs"]:
        areas.append(("call", sp_body, sp_body + rec["cs"]))
    if rec["ls"]:
        areas.append(("local", sp_body + rec["lo"], sp_body + rec["lo"] + rec["ls"]))
    for name, lo, hi in areas:
        if hi > 0:
            viol.append(("declared-area-reaches-caller-frame", "%s area [entry_sp%+d, entry_sp%+d) reaches into the caller's frame" % (name, lo, hi)))
        for off in list(m.mem):
            if lo < off + 8 and off < hi:
                viol.append(("overlap:%s/save-slot" % name, "%s area [entry_sp%+d, entry_sp%+d) overlaps the slot at entry_sp%+d holding %r" %
                             (name, lo, hi, off, m.mem[off])))
                m.mem[off] = ("canary",)
    if len(areas) == 2 and areas[0][1] < areas[1][2] and areas[1][1] < areas[0][2]:
        viol.append(("overlap:call/local", "call and local areas overlap"))
    # --- stack arguments: reported base register + offset must point at the first stack argument = entry SP
    if rec["has_sargs"]:
        for cl in rec["claims"]:
            reg = cl["reg"]
            if reg == 31:
                val = ("p", m.sp)
            elif reg < 31:
                val = m.x[reg]
            else:
                val = ("bad",)
            which = "sp" if reg == 31 else "fp" if reg == 29 else "sa_reg"
            if val[0] != "p":
                viol.append(("stack-arg-base-never-set:%s" % which, "%s: base register %s holds %r after the prolog (never set to a stack address); "
                             "offset %d" % (cl["name"], _regname(reg), val, cl["off"])))
            elif val[1] + cl["off"] != 0:
                viol.append(("stack-arg-wrong:%s" % which, "%s: %s = entry_sp%+d, + offset %d = entry_sp%+d, but the first stack argument is at entry_sp+0" %
                             (cl["name"], _regname(reg), val[1], cl["off"], val[1] + cl["off"])))
    # --- body: clobber every dirty register (FP stays while it is the preserved frame pointer)
    dg, dv = rec["dirty"]
    for i in range(31):
        if dg >> i & 1 and not (rec["fp"] and i == 29):
            m.x[i] = ("junk", "x%d" % i)
    for i in range(32):
        if dv >> i & 1:
            m.vlo[i] = ("junk", "v%d.lo" % i)
            m.vhi[i] = ("junk", "v%d.hi" % i)
    try:
        for l in epilog:
            m.step(l)
    except Inconclusive as e:
        return viol, "epilog: " + str(e)
    if not m.returned:
        return viol, "epilog does not end in ret"
    if m.ret_target != ("e", "x30"):
        viol.append(("return-address-wrong", "ret goes to %r instead of the entry LR" % (m.ret_target,)))
    if m.sp != 0:
        viol.append(("sp-after-return", "SP after return = entry SP%+d" % m.sp))
    # preserved sets: AAPCS64 6.1.1/6.1.2: x19-x28, x29 (FP), low 64 bits of v8-v15. Light-call: asmjit's own mask.
    if rec["light"] or rec["custom"]:
        pg, pv = rec["pres"]
        vhi = rec["vsz"] >= 16
    else:
        pg = sum(1 << i for i in range(19, 30))
        pv = sum(1 << i for i in range(8, 16))
        vhi = False
    for i in range(31):
        if pg >> i & 1 and i != 30 and m.x[i] != ("e", "x%d" % i):
            viol.append(("gp-not-preserved:" + m.x[i][0], "callee-saved x%d holds %r after return" % (i, m.x[i])))
    for i in range(32):
        if pv >> i & 1:
            if m.vlo[i] != ("e", "v%d.lo" % i):
                viol.append(("vec-not-preserved:" + m.vlo[i][0], "callee-saved d%d (low half of v%d) holds %r after return" % (i, i, m.vlo[i])))
            elif vhi and m.vhi[i] != ("e", "v%d.hi" % i):
                viol.append(("vec-high-half-not-preserved:" + m.vhi[i][0], "convention declares 16-byte vector saves, high half of v%d holds %r after return" % (i, m.vhi[i])))
    # dedupe kinds (keep first text)
    out, seenk = [], set()
    for k, t in viol:
        if k not in seenk:
            seenk.add(k)
            out.append((k, t))
    return out, None
