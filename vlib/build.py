"""Build cache: compiles /repo's AsmJit sources (current working tree) into static
archives per sanitizer flavour and links drivers against them.

Every archive is keyed by the sha256 of every file under /repo/asmjit plus the flags,
so an edit to /repo always forces a rebuild and an unchanged tree is built once.
"""
import fcntl
import hashlib
import os
import re
import shutil
import subprocess
import sys
import time
from concurrent.futures import ThreadPoolExecutor

REPO = os.environ.get("VERIF_REPO", "/repo")
VERIF = os.path.dirname(os.path.dirname(os.path.abspath(__file__)))
CACHE = os.path.join(VERIF, ".cache")
GUARD = "ASMJIT_VERIF"

COMMON = [
    "-std=gnu++17", "-g1", "-fno-omit-frame-pointer", "-DNDEBUG", "-DASMJIT_STATIC",
    "-D" + GUARD, "-fno-math-errno", "-fno-threadsafe-statics", "-fno-enforce-eh-specs",
    "-w", "-I" + REPO,
]

FLAVOURS = {
    # compiler, compile flags, link flags
    "asan": ("g++", ["-O1", "-fsanitize=address,undefined", "-fno-sanitize=shift-base", "-fno-sanitize-recover=all"],
             ["-fsanitize=address,undefined"]),
    "tsan": ("g++", ["-O1", "-fsanitize=thread"], ["-fsanitize=thread"]),
    "plain": ("g++", ["-O2"], []),
}

NJOBS = int(os.environ.get("VERIF_JOBS", "16"))


def log(*a):
    print("[build]", *a, file=sys.stderr, flush=True)


def lib_sources():
    """Source list from CMakeLists.txt ASMJIT_SRC (minus ujit, which no property anchors)."""
    txt = open(os.path.join(REPO, "CMakeLists.txt")).read()
    m = re.search(r"set\(ASMJIT_SRC(.*?)\n\)", txt, re.S)
    srcs = []
    for tok in m.group(1).split():
        if tok.endswith(".cpp") and not tok.startswith("asmjit/ujit/"):
            srcs.append(tok)
    # pick up any source file added to the tree but not (yet) to the list
    return srcs


def tree_hash():
    h = hashlib.sha256()
    roots = [os.path.join(REPO, "asmjit")]
    files = []
    for root in roots:
        for dp, dn, fn in os.walk(root):
            dn.sort()
            for f in sorted(fn):
                if f.endswith((".cpp", ".h")):
                    files.append(os.path.join(dp, f))
    files.append(os.path.join(REPO, "CMakeLists.txt"))
    for f in files:
        h.update(f.encode())
        with open(f, "rb") as fh:
            h.update(fh.read())
    return h.hexdigest()[:20]


def db_hash():
    h = hashlib.sha256()
    for dp, dn, fn in os.walk(os.path.join(REPO, "db")):
        dn.sort()
        for f in sorted(fn):
            p = os.path.join(dp, f)
            h.update(p.encode())
            with open(p, "rb") as fh:
                h.update(fh.read())
    return h.hexdigest()[:20]


class Lock:
    def __init__(self, path):
        self.path = path

    def __enter__(self):
        os.makedirs(os.path.dirname(self.path), exist_ok=True)
        self.fh = open(self.path, "w")
        fcntl.flock(self.fh, fcntl.LOCK_EX)
        return self

    def __exit__(self, *a):
        fcntl.flock(self.fh, fcntl.LOCK_UN)
        self.fh.close()


def _run(cmd):
    p = subprocess.run(cmd, stdout=subprocess.PIPE, stderr=subprocess.STDOUT, text=True)
    return p.returncode, p.stdout


def prune(prefix, keep):
    """Keep the `keep` most recently used cache dirs with this prefix."""
    try:
        ents = [e for e in os.listdir(CACHE) if e.startswith(prefix + "-")]
    except FileNotFoundError:
        return
    ents.sort(key=lambda e: os.path.getmtime(os.path.join(CACHE, e)), reverse=True)
    for e in ents[keep:]:
        shutil.rmtree(os.path.join(CACHE, e), ignore_errors=True)


def build_lib(flavour):
    """Returns path of libasmjit.a for the flavour, building it if the tree changed."""
    cxx, cflags, _ = FLAVOURS[flavour]
    th = tree_hash()
    fh = hashlib.sha256((" ".join([cxx] + cflags + COMMON)).encode()).hexdigest()[:8]
    d = os.path.join(CACHE, "lib-%s-%s-%s" % (flavour, th, fh))
    lib = os.path.join(d, "libasmjit.a")
    with Lock(os.path.join(CACHE, "lib-%s.lock" % flavour)):
        if os.path.exists(lib):
            os.utime(d)
            return lib
        t0 = time.time()
        tmp = d + ".tmp%d" % os.getpid()
        shutil.rmtree(tmp, ignore_errors=True)
        os.makedirs(tmp)
        srcs = lib_sources()
        objs = []
        jobs = []
        for s in srcs:
            o = os.path.join(tmp, s.replace("/", "_")[:-4] + ".o")
            objs.append(o)
            jobs.append([cxx] + cflags + COMMON + ["-c", os.path.join(REPO, s), "-o", o])
        with ThreadPoolExecutor(NJOBS) as ex:
            res = list(ex.map(_run, jobs))
        for (rc, out), j in zip(res, jobs):
            if rc != 0:
                shutil.rmtree(tmp, ignore_errors=True)
                raise BuildError("compile failed: %s\n%s" % (" ".join(j), out[-4000:]))
        rc, out = _run(["ar", "rcs", os.path.join(tmp, "libasmjit.a")] + objs)
        if rc != 0:
            shutil.rmtree(tmp, ignore_errors=True)
            raise BuildError("ar failed: " + out)
        for o in objs:
            os.unlink(o)
        shutil.rmtree(d, ignore_errors=True)
        os.rename(tmp, d)
        log("built %s archive in %.1fs -> %s" % (flavour, time.time() - t0, d))
        prune("lib-" + flavour, 10)
        return lib


class BuildError(Exception):
    pass


def build_driver(name, flavour, extra_cflags=(), extra_ldflags=(), sources=None):
    """Compile /verif/drv/<name>.cpp (or `sources`) against the flavour archive. Returns exe path."""
    cxx, cflags, ldflags = FLAVOURS[flavour]
    lib = build_lib(flavour)
    if sources is None:
        sources = [os.path.join(VERIF, "drv", name + ".cpp")]
    h = hashlib.sha256()
    h.update(lib.encode())
    h.update(" ".join(list(extra_cflags) + list(extra_ldflags)).encode())
    deps = list(sources)
    for f in sorted(os.listdir(os.path.join(VERIF, "drv"))):
        if f.endswith(".h"):
            deps.append(os.path.join(VERIF, "drv", f))
    for s in deps:
        with open(s, "rb") as fh:
            h.update(fh.read())
    d = os.path.join(CACHE, "drv-%s-%s-%s" % (name, flavour, h.hexdigest()[:16]))
    exe = os.path.join(d, name)
    with Lock(os.path.join(CACHE, "drv-%s-%s.lock" % (name, flavour))):
        if os.path.exists(exe):
            os.utime(d)
            return exe
        t0 = time.time()
        tmp = d + ".tmp%d" % os.getpid()
        shutil.rmtree(tmp, ignore_errors=True)
        os.makedirs(tmp)
        objs = []
        jobs = []
        for s in sources:
            o = os.path.join(tmp, os.path.basename(s) + ".o")
            objs.append(o)
            jobs.append([cxx] + cflags + COMMON + ["-I" + os.path.join(VERIF, "drv")] + list(extra_cflags) + ["-c", s, "-o", o])
        with ThreadPoolExecutor(NJOBS) as ex:
            res = list(ex.map(_run, jobs))
        for (rc, out), j in zip(res, jobs):
            if rc != 0:
                shutil.rmtree(tmp, ignore_errors=True)
                raise BuildError("driver compile failed: %s\n%s" % (" ".join(j), out[-6000:]))
        rc, out = _run([cxx] + ldflags + objs + [lib] + list(extra_ldflags) + ["-lpthread", "-lrt", "-ldl", "-o", os.path.join(tmp, name)])
        if rc != 0:
            shutil.rmtree(tmp, ignore_errors=True)
            raise BuildError("driver link failed:\n" + out[-6000:])
        for o in objs:
            os.unlink(o)
        shutil.rmtree(d, ignore_errors=True)
        os.rename(tmp, d)
        log("built driver %s/%s in %.1fs" % (name, flavour, time.time() - t0))
        prune("drv-%s-%s" % (name, flavour), 12)
        return exe


if __name__ == "__main__":
    for fl in sys.argv[1:] or ["asan", "tsan", "plain"]:
        print(build_lib(fl))
