"""Shared plumbing: seeds, evidence, known findings, verdicts, child processes."""
import json
import os
import subprocess
import sys
import time

VERIF = os.path.dirname(os.path.dirname(os.path.abspath(__file__)))
REPO = os.environ.get("VERIF_REPO", "/repo")
EVID = os.environ.get("VERIF_EVIDENCE_DIR") or ("/var/tmp/verif-scratch-evidence" if os.environ.get("VERIF_REPO") else os.path.join(VERIF, "evidence"))   # (tools/run_seeded.py redirects it: evidence is for the unchanged tree only)
REPLAY = os.path.join(VERIF, "replay")
FINDINGS = os.path.join(VERIF, "known_findings.json")

MASK = (1 << 64) - 1


class Rng:
    """splitmix64 — same stream in Python and in the C++ drivers (drv/vcommon.h)."""

    def __init__(self, seed):
        self.s = seed & MASK

    def next(self):
        self.s = (self.s + 0x9E3779B97F4A7C15) & MASK
        z = self.s
        z = ((z ^ (z >> 30)) * 0xBF58476D1CE4E5B9) & MASK
        z = ((z ^ (z >> 27)) * 0x94D049BB133111EB) & MASK
        return z ^ (z >> 31)

    def below(self, n):
        return self.next() % n

    def range(self, lo, hi):
        return lo + self.below(hi - lo + 1)

    def choice(self, seq):
        return seq[self.below(len(seq))]

    def chance(self, num, den):
        return self.below(den) < num

    def shuffle(self, lst):
        for i in range(len(lst) - 1, 0, -1):
            j = self.below(i + 1)
            lst[i], lst[j] = lst[j], lst[i]

    def fork(self, tag):
        h = 1469598103934665603
        for c in str(tag).encode():
            h = ((h ^ c) * 1099511628211) & MASK
        return Rng(self.next() ^ h)


def seed():
    try:
        return int(os.environ.get("VERIF_SEED", "1"))
    except ValueError:
        return 1


class HarnessError(Exception):
    """Inconclusive / harness failure -> exit 2."""


class Check:
    """One run of one property's check: collects violations, known findings, coverage."""

    def __init__(self, pid, tier, level="exploration"):
        self.pid = pid
        self.tier = tier
        self.level = level
        self.seed = seed()
        self.t0 = time.time()
        self.violations = []      # (key, what, replay_path)
        self.known_hits = {}      # key -> what
        self.coverage = {}
        self.assumptions = []
        self.notes = []
        self._findings = load_findings(pid)
        self._seen_keys = set()

    # -- verdicts -----------------------------------------------------------
    def violation(self, key, what, replay=None):
        """Report a witnessed counterexample. `key` identifies the failing input/call site/history.
        A key listed as known in known_findings.json is downgraded to KNOWN-FINDING."""
        for f in self._findings:
            if f.get("status") == "known" and key_matches(f["key"], key):
                if f["key"] not in self.known_hits:
                    self.known_hits[f["key"]] = f.get("what", what)
                    self.known_detail = getattr(self, "known_detail", {})
                    self.known_detail[f["key"]] = what
                return False
        if key in self._seen_keys:
            return True
        self._seen_keys.add(key)
        path = None
        if replay is not None:
            os.makedirs(REPLAY, exist_ok=True)
            path = os.path.join(REPLAY, "%s-%d-%d.json" % (self.pid, self.seed, len(self.violations)))
            with open(path, "w") as fh:
                json.dump({"property": self.pid, "seed": self.seed, "tier": self.tier,
                           "key": key, "what": what, "case": replay}, fh, indent=1, default=str)
        self.violations.append((key, what, path))
        print("[%s] violation key=%s: %s" % (self.pid, key, what), file=sys.stderr, flush=True)
        return True

    def note(self, msg):
        self.notes.append(msg)
        print("[%s] %s" % (self.pid, msg), file=sys.stderr, flush=True)

    # -- finish -------------------------------------------------------------
    def finish(self):
        wall = time.time() - self.t0
        cov = dict(self.coverage)
        cov.setdefault("evaluations", 0)
        cov.setdefault("distinct_nontrivial", 0)
        cov.setdefault("rule", "")
        cov.setdefault("samples", [])
        if not cov["samples"]:
            # a run that ends in a violation may have no passing sample: the witnesses are what it observed
            cov["samples"] = [{"violation": k, "what": w[:300]} for k, w, _ in self.violations[:3]] or [{"note": "no sample recorded"}]
        cov["known_findings_reproduced"] = sorted(self.known_hits)
        if self.notes:
            cov["notes"] = self.notes[:50]
        ev = {
            "property_id": self.pid,
            "tier": self.tier,
            "seed": self.seed,
            "level": self.level,
            "coverage": cov,
            "assumptions": self.assumptions,
            "wall_s": round(wall, 2),
            "violations": len(self.violations),
        }
        os.makedirs(EVID, exist_ok=True)
        tmp = os.path.join(EVID, self.pid + ".json.tmp")
        with open(tmp, "w") as fh:
            json.dump(ev, fh, indent=1, default=str)
        os.rename(tmp, os.path.join(EVID, self.pid + ".json"))
        for k in sorted(self.known_hits):
            print("KNOWN-FINDING: property=%s %s [%s]" % (self.pid, self.known_hits[k], k), flush=True)
        if self.violations:
            for key, what, path in self.violations[:20]:
                print("VIOLATION property=%s replay=%s" % (self.pid, path or "-"), flush=True)
                print("  key=%s %s" % (key, what[:400]), flush=True)
            return 1
        if cov["evaluations"] < 1 or cov["distinct_nontrivial"] < 2:
            print("[%s] INCONCLUSIVE: too few events observed (evaluations=%s distinct=%s)" %
                  (self.pid, cov["evaluations"], cov["distinct_nontrivial"]), flush=True)
            return 2
        print("[%s] held on %d evaluations (%d distinct non-trivial), tier=%s seed=%d, %.1fs" %
              (self.pid, cov["evaluations"], cov["distinct_nontrivial"], self.tier, self.seed, wall), flush=True)
        return 0


def key_matches(pattern, key):
    """known-finding keys are exact strings, or prefixes when they end in '*'."""
    if pattern.endswith("*"):
        return key.startswith(pattern[:-1])
    return pattern == key


def load_findings(pid):
    try:
        with open(FINDINGS) as fh:
            data = json.load(fh)
    except FileNotFoundError:
        return []
    return [f for f in data.get("findings", []) if f.get("property") == pid]


# -- child processes ---------------------------------------------------------

SAN_ENV = {
    # hard_rss_limit_mb: a runaway allocation in the code under test (seen with a seeded constant-pool change) must end
    # as a sanitizer report of that one child, not as an out-of-memory kill of the machine (16 children run at once)
    "ASAN_OPTIONS": "abort_on_error=0:exitcode=66:detect_leaks=1:allocator_may_return_null=1:handle_abort=1:detect_stack_use_after_return=0:hard_rss_limit_mb=%d" % int(os.environ.get("VERIF_RSS_LIMIT_MB", "8000")),
    "UBSAN_OPTIONS": "print_stacktrace=1:halt_on_error=1:exitcode=67",
    "LSAN_OPTIONS": "exitcode=68",
}


def run_child(cmd, input=None, timeout=600, env=None, retries=1, cwd=None):
    """Run a driver under a generous wall-clock watchdog. A watchdog firing is retried once and then
    reported as HarnessError (inconclusive), never as a violation."""
    e = dict(os.environ)
    e.update(SAN_ENV)
    if env:
        e.update(env)
    last = None
    for attempt in range(retries + 1):
        try:
            p = subprocess.run(cmd, input=input, stdout=subprocess.PIPE, stderr=subprocess.PIPE,
                               timeout=timeout, env=e, cwd=cwd)
            return p.returncode, p.stdout, p.stderr
        except subprocess.TimeoutExpired as ex:
            last = ex
    err = HarnessError("watchdog: %s did not finish in %ss (twice)" % (cmd[0], timeout))
    err.partial_stdout = last.stdout or b""      # what the child had written before it was stopped
    raise err


def sanitizer_report(stderr):
    """Extract a one-line summary + top asmjit frames of an ASan/UBSan/LSan report, or None."""
    if isinstance(stderr, bytes):
        stderr = stderr.decode("utf-8", "replace")
    kind = None
    for line in stderr.splitlines():
        if "ERROR: AddressSanitizer" in line or "ERROR: LeakSanitizer" in line:
            kind = line.split("ERROR:")[1].strip()
            break
        if "runtime error:" in line:
            kind = "UBSan " + line.split("runtime error:")[1].strip()
            loc = line.split(": runtime error:")[0]
            kind += " @" + os.path.basename(loc)
            break
        if "WARNING: ThreadSanitizer" in line:
            kind = line.split("WARNING:")[1].strip()
            break
    if kind is None:
        return None
    frames = []
    for line in stderr.splitlines():
        s = line.strip()
        if s.startswith("#") and " in " in s:
            fn = s.split(" in ", 1)[1]
            frames.append(fn[:160])
            if len(frames) >= 8:
                break
    return {"kind": kind[:300], "frames": frames}


def parallel_map(fn, items, workers=16):
    from concurrent.futures import ThreadPoolExecutor
    with ThreadPoolExecutor(workers) as ex:
        return list(ex.map(fn, items))
