"""C02 case generator: turns every record of db/isa_aarch64.json (as expanded by the repository's own reader) into
AsmJit calls (driver case lines) plus this module's OWN rendering of the same instruction in Arm assembly syntax and
the field values the record's bit template must then contain.

One dimension at a time is swept around a (seeded) base assignment:
  register ids 0..30, SP / ZR where allowed and where forbidden, ids 32/40 (and 16/31 for 4-bit fields);
  every arrangement of `t`/`ta.tb`; lane indexes 0, max, max+1; shift / extend kinds with amounts {0,1,max,max+1};
  load/store offsets {0, +-scale, max, max+scale, misaligned} for offset / pre / post / register-index addressing
  (including the LDUR/STUR fallback); logical / add-sub / move-wide / fp8 / bitfield immediates at their limits;
  all condition codes; system-register and system-operation names.

status of a case:  ok  = architecturally valid (AsmJit should accept; if it does the encoding must be right)
                   bad = unencodable (AsmJit must refuse)
                   unk = the generator does not claim either (accepted => must be right)
"""
import re

from vlib import a64text as T
from vlib import common

SP, ZR = 31, 63
BAD_IDS_QUICK = [32, 40]
BAD_IDS_THOROUGH = [32, 33, 40, 47, 62, 64, 95, 255]

ARR = {  # arrangement -> (asmjit reg letter, element token, element bits, lanes)
    "8B": ("d", "b", 8, 8), "16B": ("q", "b", 8, 16), "4H": ("d", "h", 16, 4), "8H": ("q", "h", 16, 8),
    "2S": ("d", "s", 32, 2), "4S": ("q", "s", 32, 4), "1D": ("d", "-", 64, 1), "2D": ("q", "d", 64, 2),
    "2H": ("s", "h", 16, 2), "1Q": ("q", "-", 128, 1), "4B": ("s", "b", 8, 4),
}
ELEM = {  # element spec of Vm.<E>[idx] -> (asmjit element token, text suffix, element bits)
    "B": ("b", "b", 8), "H": ("h", "h", 16), "S": ("s", "s", 32), "D": ("d", "d", 64),
    "4B": ("b4", "4b", 32), "2H": ("h2", "2h", 32), "4": ("s", "s", 32),
}
SCALAR_BITS = {"B": 8, "H": 16, "S": 32, "D": 64, "Q": 128}
INV_COND_NAMES = {"cinc", "cinv", "cneg", "cset", "csetm"}
EXT_OPS = ["uxtb", "uxth", "uxtw", "uxtx", "sxtb", "sxth", "sxtw", "sxtx"]


class Unsupported(Exception):
    pass


class Alt:
    __slots__ = ("value", "status", "what", "tag", "notemplate")

    def __init__(self, value, status="ok", what="", tag=None, notemplate=False):
        self.value = value
        self.status = status
        self.what = what      # kind of unencodability for the violation key
        self.tag = tag if tag is not None else str(value)
        self.notemplate = notemplate   # the variant leaves the record (another record's template applies)


class Dim:
    def __init__(self, key, base, alts, opidx=-1):
        self.key = key
        self.base = base
        self.alts = alts
        self.opidx = opidx


class Out:
    """What a slot contributes to one case."""

    def __init__(self):
        self.tokens = []      # driver operand tokens
        self.text = []        # text operands (None inside => no text possible)
        self.fields = []      # (field name, value, 'reg'|'imm')
        self.status = "ok"
        self.what = ""


def field_of(rec, suffix):
    for c in "RVWXBHSDQZP":
        if c + suffix in rec["fields"]:
            return c + suffix
    return None


def fbits(rec, name):
    f = rec["fields"].get(name)
    return f["bits"] if f else None


# ------------------------------------------------------------------------------------------------------------------
# slots
# ------------------------------------------------------------------------------------------------------------------

class Slot:
    opidx = 0
    nops = 1

    def dims(self, form, rng, tier):
        return []

    def render(self, form, v, out):
        raise NotImplementedError


def reg_alts(rng, tier, lo_ok, hi_special, maxid=30):
    alts = []
    if tier == "thorough":
        ids = list(range(0, maxid + 1))
    else:
        ids = sorted(set([0, maxid, rng.range(1, maxid - 1), rng.range(1, maxid - 1)]))
    for i in ids:
        alts.append(Alt(i, "ok", "", "id%d" % i if tier != "thorough" else "id%d" % i))
    return alts


def hi_alts(rng, tier, lows, salt, wrap=None):
    """Immediates of 2^32 and above (and negative 64-bit ones) whose LOW 32 bits are a value the slot takes: none of them
    has an encoding, whatever a 32-bit view of the operand says. The high parts are drawn from a side stream (the main
    stream - and with it every other variant name - is unchanged). `wrap` turns the number into the dimension's value."""
    side = type(rng)(rng.s ^ (0x5A17E00000 + salt))
    his = [(1 << 32, "hi32"), (1 << (33 + side.below(30)), "hibit"), (-(1 << 32), "neghi32"), (-(1 << 63), "msb")]
    if tier != "thorough":
        his = [his[0], his[1 + side.below(3)]]
    out = []
    for k, low in enumerate(lows):
        for h, tag in his:
            x = h + low
            out.append(Alt(wrap(x) if wrap else x, "bad", "imm-hi32", "%s.%d" % (tag, k)))
    return out


class GpSlot(Slot):
    def __init__(self, opidx, data, rec):
        self.opidx = opidx
        d = data
        self.wb = d.endswith("!")
        d = d.rstrip("!")
        self.sp = "|SP" in d or "|WSP" in d
        d = d.split("|")[0]
        self.letter = d[0]
        self.suffix = d[1:]
        self.field = field_of(rec, self.suffix)
        self.key = "op%d.id" % opidx
        self.fixed_width = {"W": 32, "X": 64}.get(self.letter)

    def width(self, form, v):
        if self.fixed_width:
            return self.fixed_width
        return form.r_width(v)

    def dims(self, form, rng, tier):
        alts = reg_alts(rng, tier, 0, None)
        if form.mov_imm:
            # the three `mov Rd, #imm` records overlap (MOVZ / MOVN / ORR / sequences): no claim about SP and ZR
            alts.append(Alt(SP, "unk", "", "sp", True))
            alts.append(Alt(ZR, "unk", "", "zr", True))
        else:
            alts.append(Alt(SP, "ok" if self.sp else "bad", "sp-misuse", "sp"))
            alts.append(Alt(ZR, "bad" if self.sp else "ok", "zr-misuse", "zr"))
        for b in (BAD_IDS_THOROUGH if tier == "thorough" else BAD_IDS_QUICK):
            alts.append(Alt(b, "bad", "reg-id", "id%d" % b))
        base = rng.range(1, 29)
        d = [Dim(self.key, base, alts, self.opidx)]
        if self.fixed_width and not form.mov_imm:
            # the other register width: if AsmJit takes it, the bytes must mean exactly that (another record may apply)
            d.append(Dim(self.key + ".wswap", 0, [Alt(1, "unk", "reg-width", "otherwidth", True)], self.opidx))
        return d

    def render(self, form, v, out):
        rid = v[self.key]
        w = self.width(form, v)
        if v.get(self.key + ".wswap"):
            w = 96 - w
        out.tokens.append("G:%s:%d" % ("w" if w == 32 else "x", rid))
        n = T.gp_name(w, rid)
        out.text.append(n + "!" if (n and self.wb) else n)
        if self.field:
            out.fields.append((self.field, rid & 31 if rid in (SP, ZR) or rid < 31 else None, "reg"))


class FixedGpSlot(Slot):
    """X16 (chkfeat): the one register the instruction names"""

    def __init__(self, opidx, data, rec):
        self.opidx = opidx
        self.width = 64 if data[0] == "X" else 32
        self.rid = int(data[1:])
        self.key = "op%d.id" % opidx

    def dims(self, form, rng, tier):
        alts = [Alt(self.rid - 1, "bad", "fixed-reg", "id-1"), Alt(self.rid + 1, "bad", "fixed-reg", "id+1"), Alt(0, "bad", "fixed-reg", "id0"),
                Alt(ZR, "bad", "fixed-reg", "zr"), Alt(SP, "bad", "fixed-reg", "sp"), Alt(self.rid + 32, "bad", "reg-id", "id+32")]
        return [Dim(self.key, self.rid, alts, self.opidx), Dim(self.key + ".wswap", 0, [Alt(1, "bad", "reg-width", "otherwidth", True)], self.opidx)]

    def render(self, form, v, out):
        w = self.width if not v.get(self.key + ".wswap") else 96 - self.width
        out.tokens.append("G:%s:%d" % ("w" if w == 32 else "x", v[self.key]))
        out.text.append(T.gp_name(w, v[self.key]))


class GpListSlot(Slot):
    """2x{Ws}+ / 8x{Xs}+ : consecutive general purpose registers, written one by one."""

    def __init__(self, opidx, n, inner, rec):
        self.opidx = opidx
        self.n = n
        self.nops = n
        self.letter = inner[0]
        self.suffix = inner[1:]
        self.field = field_of(rec, self.suffix)
        self.key = "op%d.id" % opidx
        self.even = n == 2

    def dims(self, form, rng, tier):
        alts = []
        ids = range(0, 30, 2) if tier == "thorough" else sorted(set([0, 28, 2 * rng.range(1, 13)]))
        for i in ids:
            alts.append(Alt(i, "ok", "", "id%d" % i))
        alts.append(Alt(2 * rng.range(0, 13) + 1, "bad", "pair-odd", "odd"))
        alts.append(Alt(40, "bad", "reg-id", "id40"))
        d = [Dim(self.key, 2 * rng.range(1, 13), alts, self.opidx)]
        d.append(Dim(self.key + ".gap", 0, [Alt(1, "bad", "list-not-consecutive", "gap")], self.opidx + 1))
        return d

    def render(self, form, v, out):
        rid = v[self.key]
        gap = v.get(self.key + ".gap", 0)
        w = 32 if self.letter == "W" else 64
        for k in range(self.n):
            r = rid + k + (gap if k else 0)
            out.tokens.append("G:%s:%d" % ("w" if w == 32 else "x", r))
            out.text.append(T.gp_name(w, r) if r < 31 else None)
        if self.field:
            out.fields.append((self.field, rid & 31 if rid < 31 else None, "reg"))


class VecSlot(Slot):
    """Bd/Hd/.. scalar, Vd.16B / Vd.t arrangement, Vm.H[#idx] element."""

    def __init__(self, opidx, data, rec, elem_index=None):
        self.opidx = opidx
        self.rec = rec
        m = re.match(r"^([BHSDQV])(\w*?)(?:\.(\w+))?(?:\[#(\w+)\])?$", data)
        if not m:
            raise Unsupported("vec operand syntax " + data)
        self.letter, self.suffix, self.arr, self.idx = m.group(1), m.group(2), m.group(3), m.group(4)
        if elem_index is not None:
            self.idx = elem_index
        self.field = field_of(rec, self.suffix)
        self.key = "op%d.id" % opidx
        self.idxkey = None
        self.maxid = 31
        if self.field and fbits(rec, self.field) == 4:
            self.maxid = 15
        if self.letter != "V":
            if self.arr or self.idx:
                # "Dx.8B" and friends: scalar register printed with an arrangement -> treat as V form
                pass
        if self.idx is not None:
            if self.idx.isdigit():
                self.fixed_idx = int(self.idx)
            else:
                self.fixed_idx = None
                self.idxkey = "idx." + self.idx
        if self.letter == "V" and self.arr is None and self.idx is not None:
            raise Unsupported("untyped element operand " + data)
        if self.arr is not None and self.arr not in ARR and self.arr not in ELEM and self.arr not in ("t", "ta", "tb"):
            raise Unsupported("arrangement " + self.arr)
        if self.idx is not None and self.arr not in ELEM:
            raise Unsupported("element type " + str(self.arr))

    def elem_bits(self, form, v):
        if self.letter != "V" and not self.arr:
            return SCALAR_BITS[self.letter]
        if self.idx is not None:
            return ELEM[self.arr][2]
        return ARR[form.arr_of(self.arr, v)][2]

    def idx_limit(self, form):
        f = self.rec["fields"].get(self.idx) if self.idx and not self.idx.isdigit() else None
        if f is None and self.idx and not self.idx.isdigit():
            f = self.rec["fields"].get("imm")  # fmlal spells the lane field `imm`
        arch = 128 // ELEM[self.arr][2] - 1
        if self.arr in ("4B", "2H", "4"):
            arch = 3
        if f is not None:
            return min(arch, (1 << f["bits"]) - 1), f
        return arch, None

    def dims(self, form, rng, tier):
        ids = list(range(0, self.maxid + 1)) if tier == "thorough" else \
            sorted(set([0, self.maxid, rng.range(1, self.maxid - 1), rng.range(1, self.maxid - 1)]))
        alts = [Alt(i, "ok", "", "id%d" % i) for i in ids]
        if self.maxid == 15:
            alts.append(Alt(16, "bad", "reg-id-4bit", "id16"))
            alts.append(Alt(31, "bad", "reg-id-4bit", "id31"))
        for b in (BAD_IDS_THOROUGH if tier == "thorough" else BAD_IDS_QUICK):
            alts.append(Alt(b, "bad", "reg-id", "id%d" % b))
        d = [Dim(self.key, rng.range(1, min(self.maxid, 30) - 1), alts, self.opidx)]
        if self.letter != "V" and not self.arr and self.idx is None:
            # the same operand written with another scalar view (fcvt s0, s1; fadd d0, s1, s2 ...): unencodable unless
            # another record of the instruction has that combination - LLVM referees (a refuted marking is judged
            # against LLVM's bytes like any accepted case)
            self.slkey = "op%d.sl" % self.opidx
            d.append(Dim(self.slkey, self.letter, [Alt(L, "bad", "scalar-view", "as-" + L.lower()) for L in "BHSDQ" if L != self.letter], self.opidx))
        if self.letter == "V" and self.arr is not None and self.idx is None and not any(isinstance(x, ModImmSlot) for x in form.slots):
            # one operand written with another arrangement than its partners (sqxtn v1.8b, v2.2d; add v0.16b, v1.8b,
            # v2.8b): unencodable unless LLVM assembles the text (then the case is judged against LLVM's bytes)
            self.axkey = "op%d.ax" % self.opidx
            # (1D / 1Q are written as a D / Q register without element type: the scalar-view dimension covers those. The
            # picks come from a side stream so that the main stream - and with it every other variant name - is unchanged)
            names = sorted(a for a in ARR if a not in ("1D", "1Q"))
            side = type(rng)(rng.s ^ (0xA5A5A5A5A5 + self.opidx))
            pick = names if tier == "thorough" else sorted(set(names[side.below(len(names))] for _ in range(3)))
            d.append(Dim(self.axkey, None, [Alt(a, "bad", "arrangement-view", "as-" + a.lower()) for a in pick], self.opidx))
        if self.idxkey and self.idxkey not in form.shared:
            form.shared.add(self.idxkey)
            mx, _ = self.idx_limit(form)
            ia = [Alt(0, "ok", "", "lane0"), Alt(mx, "ok", "", "lanemax")]
            if mx >= 2:
                ia.append(Alt(rng.range(1, mx - 1), "ok", "", "lanemid"))
            if tier == "thorough":
                ia = [Alt(i, "ok", "", "lane%d" % i) for i in range(mx + 1)]
            if mx + 1 <= 15:
                ia.append(Alt(mx + 1, "bad", "lane-range", "lanemax+1"))
            if mx < 7:
                ia.append(Alt(15, "bad", "lane-range", "lane15"))
            d.append(Dim(self.idxkey, rng.range(0, mx), ia, self.opidx))
        return d

    def render(self, form, v, out, rid=None, text_only=False):
        rid = v[self.key] if rid is None else rid
        idx = None
        if self.idx is not None:
            idx = self.fixed_idx if self.fixed_idx is not None else v[self.idxkey]
        brace = getattr(self, "brace", False)
        if self.letter != "V" and not self.arr:
            letter = v.get(getattr(self, "slkey", None), self.letter)
            out.tokens.append("V:%s:%d" % (letter.lower(), rid))
            out.text.append(T.vec_scalar_name(letter, rid))
        elif idx is not None:
            et, suf, _ = ELEM[self.arr]
            out.tokens.append("V:q:%d:%s:%d" % (rid, et, idx))
            n = T.vec_name(rid)
            if n and brace:
                out.text.append("{ %s.%s }[%d]" % (n, suf, idx))
            else:
                out.text.append("%s.%s[%d]" % (n, suf, idx) if n else None)
        else:
            arr = form.arr_of(self.arr, v)
            if v.get(getattr(self, "axkey", None)) is not None:
                arr = v[self.axkey]
            rl, et, _, _ = ARR[arr]
            out.tokens.append("V:%s:%d:%s" % (rl, rid, et))
            n = T.vec_name(rid)
            if n and brace:
                out.text.append("{ %s.%s }" % (n, arr.lower()))
            else:
                out.text.append("%s.%s" % (n, arr.lower()) if n else None)
        if self.field and not text_only:
            out.fields.append((self.field, rid if rid <= self.maxid else None, "reg"))
        if self.idxkey and not text_only:
            _, f = self.idx_limit(form)
            if f is not None:
                name = self.idx if self.idx in self.rec["fields"] else "imm"
                out.fields.append((name, idx, "imm"))


class VecListSlot(Slot):
    """Nx{Vd.t}[+][[#idx]] followed by N-1 artificial operands: consecutive vector registers."""

    def __init__(self, opidx, n, inner, rec, idx):
        self.opidx = opidx
        self.n = n
        self.nops = n
        data = inner + ("[#%s]" % idx if idx else "")
        self.inner = VecSlot(opidx, data, rec)
        self.key = self.inner.key

    def dims(self, form, rng, tier):
        d = self.inner.dims(form, rng, tier)
        if self.n > 1:
            d.append(Dim(self.key + ".gap", 0, [Alt(1, "bad", "list-not-consecutive", "gap")], self.opidx + 1))
        return d

    def render(self, form, v, out):
        rid = v[self.key]
        gap = v.get(self.key + ".gap", 0)
        sub = Out()
        for k in range(self.n):
            r = rid + k + (gap if k else 0)
            if rid <= 31:
                r &= 31   # lists wrap around v31 -> v0
            self.inner.render(form, v, sub, rid=r, text_only=(k > 0))
        out.tokens += sub.tokens
        out.fields += sub.fields
        if any(t is None for t in sub.text):
            out.text.append(None)
        elif self.inner.idx is not None:
            # { v1.b, v2.b }[3]
            names = [t.split("[")[0] for t in sub.text]
            out.text.append("{ %s }[%s" % (", ".join(names), sub.text[0].split("[")[1]))
        else:
            out.text.append("{ %s }" % ", ".join(sub.text))


# -- immediates ----------------------------------------------------------------------------------------------------

class ImmSlot(Slot):
    def __init__(self, opidx, op, rec):
        self.opidx = opidx
        self.op = op
        self.rec = rec
        self.name = op["imm"] if isinstance(op["imm"], str) else ""
        self.key = "op%d.imm" % opidx


class PlainImm(ImmSlot):
    """#imm with a same-named field (optionally scaled / signed / renamed): {0, 1, max, max+1}."""

    def __init__(self, opidx, op, rec, field=None, signed=False, scale=1, optional=False, prefix="#", lo=0, addsub=False):
        ImmSlot.__init__(self, opidx, op, rec)
        self.addsub = addsub
        optional = optional or op["data"].startswith("{")
        self.field = field or self.name
        if self.field not in rec["fields"]:
            raise Unsupported("imm %s has no field" % op["data"])
        self.bits = rec["fields"][self.field]["bits"]
        self.signed = signed
        self.scale = scale
        self.optional = optional
        self.prefix = prefix
        self.lo = lo

    def dims(self, form, rng, tier):
        b, s = self.bits, self.scale
        if self.signed:
            mx, mn = (1 << (b - 1)) - 1, -(1 << (b - 1))
            alts = [Alt(0), Alt(s), Alt(-s), Alt(mx * s, tag="max"), Alt(mn * s, tag="min"),
                    Alt((mx + 1) * s, "bad", "imm-range", "max+1"), Alt((mn - 1) * s, "bad", "imm-range", "min-1")]
        else:
            mx = (1 << b) - 1
            alts = [Alt(0), Alt(s), Alt(mx * s, tag="max")]
            if self.addsub:
                # AsmJit (like LLVM) takes 0x00XXX000 as `#imm12, lsl #12`: no claim for these, the oracles decide
                alts += [Alt(0x1000, "unk", "", "4096", True), Alt(0xFFF000, "unk", "", "fff000", True), Alt(0x1001, "bad", "imm-range", "4097"),
                         Alt(0x1000000, "bad", "imm-range", "1000000"), Alt(-1, "unk", "", "neg", True)]
            else:
                alts += [Alt((mx + 1) * s, "bad", "imm-range", "max+1"), Alt(-s, "bad", "imm-range", "neg")]
            if b > 2:
                alts.append(Alt(rng.range(2, mx - 1) * s, tag="mid"))
            if self.optional:
                alts.append(Alt("none", "ok", "", "omitted"))
        if s > 1:
            alts.append(Alt(s + 1, "bad", "imm-align", "misaligned"))
        if tier == "thorough" and b <= 7:
            alts += [Alt(i * s, tag="v%d" % i) for i in range(2, (1 << b) - 1)] if not self.signed else []
        base = s * (3 if b > 2 else 1)
        alts += hi_alts(rng, tier, [base, 0] + ([0x1000, 0xFFF000] if self.addsub else []), self.opidx)
        return [Dim(self.key, base, alts, self.opidx)]

    def render(self, form, v, out):
        x = v[self.key]
        if x == "none":
            return
        out.tokens.append("I:%d" % x)
        out.text.append("%s%d" % (self.prefix, x))
        q = x // self.scale
        if not (self.addsub and x > 0xFFF):
            out.fields.append((self.field, q & ((1 << self.bits) - 1), "imm"))


class PStateImm(ImmSlot):
    """msr <pstatefield>, #imm : which values exist depends on the field; only 0/1 exist for every field"""

    def dims(self, form, rng, tier):
        return [Dim(self.key, 1, [Alt(0), Alt(16, "bad", "imm-range", "16")] + hi_alts(rng, tier, [1], self.opidx), self.opidx)]

    def render(self, form, v, out):
        out.tokens.append("I:%d" % v[self.key])
        out.text.append("#%d" % v[self.key])
        out.fields.append(("imm", v[self.key] & 15, "imm"))


class LiteralImm(ImmSlot):
    """#0 / #8 / #16 / #32: the only value the form admits."""

    def __init__(self, opidx, op, rec, value, fp_zero=False):
        ImmSlot.__init__(self, opidx, op, rec)
        self.value = value
        self.fp_zero = fp_zero

    def dims(self, form, rng, tier):
        return [Dim(self.key, self.value, [Alt(self.value + 1, "bad", "imm-literal", "lit+1")] + hi_alts(rng, tier, [self.value], self.opidx), self.opidx)]

    def render(self, form, v, out):
        x = v[self.key]
        out.tokens.append("I:%d" % x)
        out.text.append("#%d.0" % x if self.fp_zero else "#%d" % x)


class CondImm(ImmSlot):
    def dims(self, form, rng, tier):
        inv = self.rec["name"] in INV_COND_NAMES
        alts = [Alt(c, "ok", "", T.COND_NAMES[c]) for c in range(2, 16)]
        alts.append(Alt(0, "bad" if inv else "unk", "cond-al", "al"))
        alts.append(Alt(1, "bad" if inv else "unk", "cond-nv", "nv"))
        alts.append(Alt(16, "bad", "cond-range", "cc16"))
        alts.append(Alt(17, "bad", "cond-range", "cc17"))
        base = rng.range(2, 15)
        alts += hi_alts(rng, tier, [base], self.opidx)
        return [Dim(self.key, base, alts, self.opidx)]

    def render(self, form, v, out):
        c = v[self.key]
        out.tokens.append("I:%d" % c)
        out.text.append(T.COND_NAMES.get(c))
        if 0 <= c < 16 and "cond" in self.rec["fields"]:
            e = T.cond_enc(c)
            out.fields.append(("cond", e ^ 1 if self.rec["name"] in INV_COND_NAMES else e, "imm"))


class RelImm(ImmSlot):
    """#relS*4 / #relS : PC relative target, given to AsmJit as an absolute address (code base is known) or label."""

    def __init__(self, opidx, op, rec):
        ImmSlot.__init__(self, opidx, op, rec)
        self.bits = rec["fields"]["relS"]["bits"]
        self.page = rec["name"] == "adrp"
        self.scale = 4096 if self.page else (4 if "*4" in op["data"] else 1)

    def dims(self, form, rng, tier):
        b, s = self.bits, self.scale
        mx, mn = (1 << (b - 1)) - 1, -(1 << (b - 1))
        alts = [Alt(0), Alt(s), Alt(-s), Alt(mx * s, tag="max"), Alt(mn * s, tag="min"),
                Alt(rng.range(2, mx - 1) * s, tag="mid"), Alt(-rng.range(2, mx - 1) * s, tag="negmid"),
                Alt((mx + 1) * s, "bad", "disp-range", "max+1"), Alt((mn - 1) * s, "bad", "disp-range", "min-1"),
                Alt("label", "ok", "", "label")]
        if s > 1:
            alts.append(Alt(s // 2, "bad", "disp-align", "misaligned"))
        return [Dim(self.key, 8 * s, alts, self.opidx)]

    def render(self, form, v, out):
        x = v[self.key]
        if x == "label":
            out.tokens.append("L")
            x = 0
        else:
            out.tokens.append("%s:%d" % ("AP" if self.page else "A", x))
        out.text.append("#%d" % x)
        out.fields.append(("relS", (x // self.scale) & ((1 << self.bits) - 1), "imm"))


class ShiftImm(ImmSlot):
    """{lsl|lsr|asr #n}, {sop #n}, {lsl #n=0|12}, {lsl #n} (move wide), {extend #n}"""

    def __init__(self, opidx, op, rec, kind):
        ImmSlot.__init__(self, opidx, op, rec)
        self.kind = kind
        self.opkey = "op%d.sop" % opidx
        self.width = 64 if any(o["data"].startswith("X") for o in rec["operands"] if o["type"] == "reg") else 32

    def dims(self, form, rng, tier):
        k, w = self.kind, self.width
        if k == "lsl12" and self.rec["name"] in ("cmp", "cmn"):
            # AsmJit's cmp/cmn (immediate) takes no shift operand (it derives LSL #12 from the value)
            return [Dim(self.key, "none", [Alt(0, "unk", "", "0"), Alt(12, "unk", "", "12")], self.opidx),
                    Dim(self.opkey, "lsl", [], self.opidx)]
        if k == "lsl12":
            return [Dim(self.key, 0, [Alt(12), Alt(1, "bad", "shift-range", "1"), Alt(24, "bad", "shift-range", "24"),
                                     Alt("none", "ok", "", "omitted")], self.opidx),
                    Dim(self.opkey, "lsl", [Alt("lsr", "bad", "shift-kind", "lsr")], self.opidx)]
        if k == "movw":
            hw = 4 if w == 64 else 2
            alts = [Alt(16 * i, tag="lsl%d" % (16 * i)) for i in range(1, hw)]
            alts.append(Alt(16 * hw, "bad", "shift-range", "lsl%d" % (16 * hw)))
            alts.append(Alt(8, "bad", "shift-align", "lsl8"))
            alts.append(Alt("none", "ok", "", "omitted"))
            return [Dim(self.key, 0, alts, self.opidx),
                    Dim(self.opkey, "lsl", [Alt("lsr", "bad", "shift-kind", "lsr")], self.opidx)]
        if k == "ext":
            ops = [Alt(o, "ok", "", o) for o in EXT_OPS] + [Alt("lsl", "unk", "", "lsl", notemplate=True)]
            amts = [Alt(0), Alt(1), Alt(4, tag="max"), Alt(5, "bad", "shift-range", "max+1"), Alt("none", "ok", "", "omitted")]
            return [Dim(self.opkey, "uxtw" if w == 32 else "sxtx", ops, self.opidx), Dim(self.key, 2, amts, self.opidx)]
        names = ["lsl", "lsr", "asr"] + (["ror"] if k == "sop" else [])
        ops = [Alt(o, "ok", "", o) for o in names]
        if k != "sop":
            ops.append(Alt("ror", "bad", "shift-kind", "ror"))
        amts = [Alt(0), Alt(1), Alt(w - 1, tag="max"), Alt(w, "bad", "shift-range", "max+1"), Alt("none", "ok", "", "omitted")]
        if k == "lsl3":   # addpt-style {lsl #n} with a 3-bit field
            ops = []
            amts = [Alt(0), Alt(1), Alt(7, tag="max"), Alt(8, "bad", "shift-range", "max+1")]
        return [Dim(self.opkey, "lsl", ops, self.opidx), Dim(self.key, 3, amts, self.opidx)]

    def render(self, form, v, out):
        n, op = v[self.key], v[self.opkey]
        if n == "none":
            # the optional operand is left out entirely (an extend kind without amount still needs the operand)
            if self.kind == "ext":
                out.tokens.append("S:%s:0" % op)
                out.text.append(op)
                n = 0
            else:
                n = 0
                op = "lsl"
        else:
            out.tokens.append("S:%s:%d" % (op, n))
            out.text.append("%s #%d" % (op, n))
        f = self.rec["fields"]
        if self.kind == "lsl12":
            if "n" in f and n in (0, 12):
                out.fields.append(("n", n // 12, "imm"))
        elif self.kind == "movw":
            if "hw" in f and n % 16 == 0:
                out.fields.append(("hw", (n // 16) & 3, "imm"))
        elif self.kind == "ext":
            if "option" in f and op in EXT_OPS:
                out.fields.append(("option", EXT_OPS.index(op), "imm"))
            if "n" in f:
                out.fields.append(("n", n & 7, "imm"))
        else:
            if "sop" in f and op in ("lsl", "lsr", "asr", "ror"):
                out.fields.append(("sop", ["lsl", "lsr", "asr", "ror"].index(op), "imm"))
            if "n" in f:
                out.fields.append(("n", n & ((1 << f["n"]["bits"]) - 1), "imm"))


def single_halfword(x, w):
    return sum(1 for i in range(w // 16) if (x >> (16 * i)) & 0xFFFF) <= 1


class LogicalImm(ImmSlot):
    def __init__(self, opidx, op, rec, width):
        ImmSlot.__init__(self, opidx, op, rec)
        self.width = width

    def dims(self, form, rng, tier):
        w = self.width
        m = (1 << w) - 1
        good = [1, 1 << (w - 1), m >> 1, m & ~1, 0x5555555555555555 & m, 0xAAAAAAAAAAAAAAAA & m, 0xFF, 0xFF00FF00FF00FF00 & m,
                0x00FF00FF00FF00FF & m, 0x0F0F0F0F0F0F0F0F & m, 0xFFFF, 0x3FFC, 0x8000000000000001 & m | 1 | (1 << (w - 1)),
                0x0000FFFF0000FFFF & m, 0xFFFFFFFE00000001 & m if w == 64 else 0xFFFE0001, 0x7FFFFFFF00000000 & m if w == 64 else 0x7FFF0000]
        if w == 64:
            good += [0xFFFFFFFF, 0xFFFFFFFF00000000, 0x00000000FFFFFFFE, 0x0000FFFFFFFF0000]
        n = 24 if tier == "thorough" else 3
        for _ in range(n):
            # random valid pattern: element size, run length, rotation
            es = [2, 4, 8, 16, 32, 64][rng.range(0, 5 if w == 64 else 4)]
            ln = rng.range(1, es - 1)
            rot = rng.range(0, es - 1)
            e = T._ror((1 << ln) - 1, rot, es)
            x = 0
            for i in range(w // es):
                x |= e << (i * es)
            good.append(x)
        bad = [0, m, 5, 0x12345678, 0xFFFF0001FFFF0002 & m if w == 64 else 0x00010002, (1 << w) | 1 if w == 32 else 0xDEADBEEFDEADBEE0]
        alts = []
        seen = set()
        is_mov = self.rec["name"] == "mov"
        for x in good:
            if x in seen or not T.is_logical(x, w):
                continue
            if is_mov and (single_halfword(x, w) or single_halfword(~x & m, w)):
                continue   # MOV prefers MOVZ/MOVN: those values belong to the other `mov` records
            seen.add(x)
            alts.append(Alt(x, "ok", "", "log%x" % x))
        for x in bad:
            if x > m or T.is_logical(x, w):
                continue   # (for the 32-bit forms AsmJit only looks at the low 32 bits: not generated)
            if is_mov:
                alts.append(Alt(x, "ok", "", "seq%x" % x, True))   # MOV takes any value (sequence of MOVZ/MOVN/MOVK)
            else:
                alts.append(Alt(x, "bad", "logical-imm", "nolog%x" % x))
        return [Dim(self.key, 0x3FFFC if is_mov else 0xFF0, alts, self.opidx)]

    def render(self, form, v, out):
        x = v[self.key]
        out.tokens.append("U:%d" % x)
        out.text.append("#0x%x" % x)
        if self.rec.get("negated_logical"):
            # bic / bics / orn / eon Rd, Rn, #imm: the complement is what AND / ANDS / ORR / EOR (immediate) must hold
            out.fields.append(("@logical", (~x & ((1 << self.width) - 1), self.width), "imm"))
        else:
            out.fields.append(("@logical", (x, self.width), "imm"))
        if self.rec["name"] == "mov":
            out.fields.append(("@movseq", (x, self.width, False), "imm"))


class WideImm(ImmSlot):
    """mov/movz/movn/movk #imm"""

    def __init__(self, opidx, op, rec, width, inv, alias):
        ImmSlot.__init__(self, opidx, op, rec)
        self.width, self.inv, self.alias = width, inv, alias

    def dims(self, form, rng, tier):
        w = self.width
        m = (1 << w) - 1
        if not self.alias:
            alts = [Alt(0), Alt(1), Alt(0xFFFF, tag="max"), Alt(0x10000, "bad", "imm-range", "max+1"),
                    Alt(rng.range(2, 0xFFFE), tag="mid"), Alt(-1, "bad", "imm-range", "neg")]
            alts += hi_alts(rng, tier, [0x1234, 0], self.opidx)
            return [Dim(self.key, 0x1234, alts, self.opidx)]
        alts = []
        for hw in range(w // 16):
            for imm in (1, 0xFFFF, rng.range(2, 0xFFFE)):
                x = imm << (16 * hw)
                if self.inv:
                    x = ~x & m
                    if single_halfword(x, w):
                        continue   # MOVZ is preferred for these
                alts.append(Alt(x, "ok", "", "hw%d.%x" % (hw, imm)))
        if not self.inv and w == 64 and tier is not None:
            # multi-instruction sequences (MOVZ/MOVN + MOVK...), checked by interpreting LLVM's disassembly
            seqs = [0x123456789ABCDEF0, 0xFFFF1234FFFF5678, 0x0000123400005678, 0xFFFFFFFFFFFE0001, 0x00010000FFFF0000,
                    0x8000000000000001 ^ 0x10, 0xFFFF0000FFFF1234, 0x1234FFFFFFFFFFFF, 0x0001000200030004, 0xFFFEFFFDFFFCFFFB,
                    0x00000001FFFFFFFE, 0xFFFFFFFF00000002]
            for _ in range(20 if tier == "thorough" else 3):
                seqs.append(rng.next())
            for x in seqs:
                alts.append(Alt(x, "ok", "", "seq%x" % x))
        if not self.inv and w == 32:
            for x in (0x12345678, 0xFFFE0001, 0x8001FFFE):
                alts.append(Alt(x, "ok", "", "seq%x" % x))
        return [Dim(self.key, (~0x1234 & m) if self.inv else 0x1234, alts, self.opidx)]

    def render(self, form, v, out):
        x = v[self.key]
        out.tokens.append("U:%d" % x if x >= 0 else "I:%d" % x)
        out.text.append("#0x%x" % x if x >= 0 else "#%d" % x)
        if self.alias:
            out.fields.append(("@movalias", (x, self.width, self.inv), "imm"))
            out.fields.append(("@movseq", (x, self.width, False), "imm"))
        elif 0 <= x <= 0xFFFF:
            out.fields.append(("imm", x, "imm"))


class BitfieldImm(ImmSlot):
    """#lsb,#width / #immr,#imms / shift-by-immediate aliases. One slot object per operand; expected immr/imms
    are computed by the form (needs both)."""

    def __init__(self, opidx, op, rec, role, width):
        ImmSlot.__init__(self, opidx, op, rec)
        self.role, self.width = role, width

    def dims(self, form, rng, tier):
        w = self.width
        r = self.role
        if r in ("immr", "imms", "n"):
            alts = [Alt(0), Alt(1), Alt(w - 1, tag="max"), Alt(w, "bad", "imm-range", "max+1"), Alt(rng.range(2, w - 2), tag="mid")]
            alts += hi_alts(rng, tier, [5], self.opidx)
            return [Dim(self.key, 5, alts, self.opidx)]
        if r == "lsb":
            alts = [Alt(0), Alt(1), Alt(w - 1, tag="max"), Alt(w, "bad", "imm-range", "max+1")]
            alts += hi_alts(rng, tier, [3], self.opidx)
            return [Dim(self.key, 3, alts, self.opidx)]
        # width: base lsb is 3 (see above); when lsb is swept the width stays 1
        alts = [Alt(2), Alt(w - 3, tag="max"), Alt(w - 2, "bad", "imm-range", "max+1"), Alt(0, "bad", "imm-range", "zero")]
        alts += hi_alts(rng, tier, [1], self.opidx)
        return [Dim(self.key, 1, alts, self.opidx)]

    def render(self, form, v, out):
        x = v[self.key]
        out.tokens.append("I:%d" % x)
        out.text.append("#%d" % x)
        out.fields.append(("@bf." + self.role, (x, self.width), "imm"))


class FpImm(ImmSlot):
    def dims(self, form, rng, tier):
        vals = T.fp8_values()
        good = [0.5, 1.0, 2.0, 31.0, 0.125, -0.125, -31.0, 1.9375, -1.0, 0.1328125, 16.0, 17.0, 0.1953125]
        if tier == "thorough":
            good = sorted(set(vals.values()))
        bad = [0.0, 0.1, 32.0, 0.0625, 1.03125, -33.0, 0.12109375, 1e10]
        alts = [Alt(x, "ok", "", "fp%r" % x) for x in good] + [Alt(x, "bad", "fp8-imm", "nofp%r" % x) for x in bad]
        return [Dim(self.key, 3.0, alts, self.opidx)]

    def render(self, form, v, out):
        x = v[self.key]
        out.tokens.append("F:%r" % x)
        out.text.append(T.fp_text(x))
        out.fields.append(("@fp8", x, "imm"))


class VecShiftImm(ImmSlot):
    """SIMD shift by immediate: left shifts 0..esize-1 (immh:immb = esize + n), right shifts 1..esize
    (immh:immb = 2*esize - n); fixed-point fbits 1..esize behave like right shifts."""

    def __init__(self, opidx, op, rec, left):
        ImmSlot.__init__(self, opidx, op, rec)
        self.left = left

    def dims(self, form, rng, tier):
        if self.left:
            alts = [Alt("0"), Alt("1"), Alt("e-1", tag="max"), Alt("e", "bad", "shift-range", "max+1")]
            base = "1"
        else:
            alts = [Alt("1"), Alt("2"), Alt("e", tag="max"), Alt("e+1", "bad", "shift-range", "max+1"), Alt("0", "bad", "shift-range", "zero")]
            base = "2"
        if tier == "thorough":
            alts.append(Alt("e/2", tag="half"))
        alts += hi_alts(rng, tier, [1], self.opidx, wrap=lambda x: "=%d" % x)
        return [Dim(self.key, base, alts, self.opidx)]

    def render(self, form, v, out):
        e = form.min_esize(v)
        sym = v[self.key]
        x = int(sym[1:]) if sym.startswith("=") else {"0": 0, "1": 1, "2": 2, "e-1": e - 1, "e": e, "e+1": e + 1, "e/2": e // 2}[sym]
        out.tokens.append("I:%d" % x)
        out.text.append("#%d" % x)
        if "immh" in self.rec["fields"] and "immb" in self.rec["fields"]:
            hb = (e + x) if self.left else (2 * e - x)
            if 0 <= hb < 128:
                out.fields.append(("immh", (hb >> 3) & 15, "imm"))
                out.fields.append(("immb", hb & 7, "imm"))


class FbitsScaleImm(ImmSlot):
    """fcvtzs Wd, Sn, #fbits : scale = 64 - fbits, fbits in 1..regsize"""

    def __init__(self, opidx, op, rec, width):
        ImmSlot.__init__(self, opidx, op, rec)
        self.width = width

    def dims(self, form, rng, tier):
        w = self.width
        alts = [Alt(1), Alt(2), Alt(w, tag="max"), Alt(0, "bad", "imm-range", "zero"), Alt(w + 1, "bad", "imm-range", "max+1"), Alt(65, "bad", "imm-range", "65")]
        alts += hi_alts(rng, tier, [7, w], self.opidx)
        return [Dim(self.key, 7, alts, self.opidx)]

    def render(self, form, v, out):
        x = v[self.key]
        out.tokens.append("I:%d" % x)
        out.text.append("#%d" % x)
        if "scale" in self.rec["fields"] and 1 <= x <= 64:
            out.fields.append(("scale", 64 - x, "imm"))


class RotateImm(ImmSlot):
    def __init__(self, opidx, op, rec, full):
        ImmSlot.__init__(self, opidx, op, rec)
        self.full = full

    def dims(self, form, rng, tier):
        ok = [0, 90, 180, 270] if self.full else [90, 270]
        alts = [Alt(x) for x in ok] + [Alt(x, "bad", "rotate", "rot%d" % x) for x in ([45, 360, 1] if self.full else [0, 180, 45, 360])]
        alts += hi_alts(rng, tier, [90], self.opidx)
        return [Dim(self.key, 90, alts, self.opidx)]

    def render(self, form, v, out):
        x = v[self.key]
        out.tokens.append("I:%d" % x)
        out.text.append("#%d" % x)
        f = self.rec["fields"]
        fname = "imm" if "imm" in f else ("rot" if "rot" in f else None)
        if fname and x in (0, 90, 180, 270):
            out.fields.append((fname, x // 90 if self.full else (1 if x == 270 else 0), "imm"))


class NamedImm(ImmSlot):
    """system register / system operation names read from a64globals.h; LLVM judges name <-> number."""

    def __init__(self, opidx, op, rec, ns, raw_bits=None, optional_default=None, lower=True):
        ImmSlot.__init__(self, opidx, op, rec)
        self.ns = ns
        self.raw_bits = raw_bits
        self.optional_default = optional_default

    def dims(self, form, rng, tier):
        ents = list(T.predicates().get(self.ns, []))
        if not ents:
            raise Unsupported("no names for " + self.ns)
        limit = len(ents) if tier == "thorough" else 48
        base = ents[0]
        if len(ents) > limit:
            # (the quick tier used to take 48 names: the draw stays, for the base value and the main stream, but every
            # name is a case in every tier - a wrong op2 / CRm in one constant must not depend on the seed to be seen)
            r = rng.fork("names" + self.ns)
            idx = list(range(len(ents)))
            r.shuffle(idx)
            base = ents[sorted(idx[:limit])[0]]
        alts = [Alt((n, val), "unk", "", n.lower()) for n, val in ents]
        alts += hi_alts(rng, tier, [base[1]], self.opidx, wrap=lambda x: (None, x))
        if self.op["data"].startswith("{"):
            alts.append(Alt(("", None), "ok", "", "omitted"))
        if self.raw_bits:
            mx = (1 << self.raw_bits) - 1
            alts.append(Alt((None, mx + 1), "bad", "imm-range", "rawmax+1"))
            if self.ns == "SysReg":
                # generic S<op0>_.. spelling for values that have no name; op0 must be 2 or 3 (bit 15 set)
                for val in (0x8000, 0xFFFF, 0xC000 | rng.range(1, 0x3FFE)):
                    alts.append(Alt((T.sysreg_generic_name(val), val), "ok", "", "generic%x" % val))
                alts.append(Alt((None, 0x10000), "bad", "imm-range", "raw65536"))
                alts.append(Alt((None, 0x4000), "bad", "sysreg-op0", "rawop0=1"))
            elif self.ns == "PRFOp":
                for val in (6, 7, 0x18, 0x1F):
                    alts.append(Alt(("#%d" % val, val), "ok", "", "raw%d" % val))
        return [Dim(self.key, base, alts, self.opidx)]

    def render(self, form, v, out):
        n, val = v[self.key]
        if val is None:
            return
        out.tokens.append("I:%d" % val)
        if self.ns == "BTI" and n == "None":
            pass    # `bti` without operand
        else:
            out.text.append(n.lower() if n else None)
        if self.ns == "SysReg" and n:
            out.fields.append(("@alttext", (n.lower(), T.sysreg_generic_name(val)), "imm"))
        if self.ns == "SysReg" and "sysreg" in self.rec["fields"] and val <= 0xFFFF:
            out.fields.append(("sysreg", val & 0x7FFF, "imm"))


# -- AdvSIMD modified immediates ------------------------------------------------------------------------------------

M64 = (1 << 64) - 1
MODIMM_SHIFTS = {8: [0], 16: [0, 8], 32: [0, 8, 16, 24]}


def modimm_expect(kind, esize, imm, shift):
    """What `movi|mvni|orr|bic Vd.<T>, #imm {, lsl|msl #n}` asks for, judged by this module's own AdvSIMDExpandImm tables.
    -> (status, what, lane value or None, text operands or None).
    Two operand calls give the element value itself (AsmJit finds imm8 and the shift, and may pick a smaller element size
    for replicated patterns): they are encodable iff SOME movi / mvni encoding writes that lane value (orr / bic: iff the
    element is imm8 << 8k). With an explicit shift the operands are those of the Arm syntax."""
    movish = kind in ("movi", "mvni")
    if imm < 0 or imm >> 64:
        return "bad", "imm-hi32", None, None
    text = None
    explicit = shift is not None
    if explicit and esize == 64:
        if shift != ("lsl", 0):
            return "bad", "modimm-shift", None, None
        explicit = False     # (AsmJit documents that it takes a zero amount here)
        zero_shift_on_d = True
    else:
        zero_shift_on_d = False
    if explicit:
        sop, amt = shift
        if sop == "lsl":
            if amt not in MODIMM_SHIFTS[esize]:
                return "bad", "modimm-shift", None, None
            if imm > 0xFF:
                return "bad", "imm-hi32" if imm >> 32 else "imm-range", None, None
            elem = imm << amt
            text = "#0x%x" % imm + (", lsl #%d" % amt if amt or esize > 8 else "")
        elif sop == "msl":
            if not movish or esize != 32 or amt not in (8, 16):
                return "bad", "modimm-shift", None, None
            if imm > 0xFF:
                return "bad", "imm-hi32" if imm >> 32 else "imm-range", None, None
            elem = (imm << amt) | ((1 << amt) - 1)
            text = "#0x%x, msl #%d" % (imm, amt)
        else:
            return "bad", "shift-kind", None, None
    else:
        if imm >> esize:
            return "bad", "imm-hi32" if imm >> 32 else "imm-range", None, None
        elem = imm
    value = T.replicate(elem, esize)
    if kind == "mvni":
        value ^= M64
    if movish:
        encodable = value in T.modimm_movable()
    else:
        encodable = any((elem >> a) << a == elem and (elem >> a) <= 0xFF for a in MODIMM_SHIFTS[esize])
    if not encodable:
        return "bad", "modimm", None, None
    pseudo = kind == "mvni" and esize in (8, 64)       # AsmJit's own reading (movi of the complement): no Arm syntax
    if not explicit and not pseudo and not zero_shift_on_d:
        if esize == 64:
            if all(((elem >> (8 * i)) & 0xFF) in (0, 0xFF) for i in range(8)):
                text = "#0x%016x" % elem
        else:
            for a in MODIMM_SHIFTS[esize]:
                if (elem >> a) << a == elem and (elem >> a) <= 0xFF:
                    text = "#0x%x" % (elem >> a) + (", lsl #%d" % a if a else "")
                    break
    if pseudo:
        text = None
    return ("unk" if (pseudo or zero_shift_on_d) else "ok"), "", value, text


class ModImmSlot(Slot):
    """#imm {, lsl #n} of movi / mvni / orr / bic (vector, immediate): one slot for both operands. The interesting values
    depend on the element size, so the slot enumerates the product arrangement x value itself (product_cases)."""
    nops = 2

    def __init__(self, opidx, rec):
        self.opidx = opidx
        self.rec = rec
        self.kind = rec["name"]
        self.key = "op%d.modimm" % opidx
        self.mid = 0x5A
        self.mask = 0xFF00FF0000FFFF00

    def dims(self, form, rng, tier):
        side = type(rng)(rng.s ^ 0x30D1337)
        self.mid = 2 + side.below(0xFD)
        self.mask = 0
        for i in range(8):
            if side.below(2):
                self.mask |= 0xFF << (8 * i)
        if self.mask in (0, M64):
            self.mask = 0xFF00FF0000FFFF00
        self.tier = tier
        self.his = [a.value for a in hi_alts(rng, tier, [self.mid], self.opidx)]
        return [Dim(self.key, ("base", None, None), [], self.opidx)]

    def esize(self, form, v):
        if "arr" in v:
            return ARR[form.arr_of("t", v)][2]
        return 64

    def specs(self, esize):
        m = self.mid
        out = [("imm8.0", 0, None), ("imm8.1", 1, None), ("imm8.ff", 0xFF, None), ("imm8.mid", m, None)]
        if esize < 64:
            for a in MODIMM_SHIFTS[esize]:
                out.append(("mid.lsl%d" % a, m, ("lsl", a)))
                out.append(("ff.lsl%d" % a, 0xFF, ("lsl", a)))
            mx = MODIMM_SHIFTS[esize][-1]
            out += [("mid.lsl4", m, ("lsl", 4)), ("mid.lsl%d" % (mx + 8), m, ("lsl", mx + 8)), ("mid.lsl%d" % (mx + 1), m, ("lsl", mx + 1)),
                    ("mid.lsl32", m, ("lsl", 32)), ("mid.lsr8", m, ("lsr", 8)), ("mid.msl8", m, ("msl", 8)), ("ff.msl16", 0xFF, ("msl", 16)),
                    ("mid.msl0", m, ("msl", 0)), ("mid.msl24", m, ("msl", 24)), ("x100.lsl0", 0x100, ("lsl", 0)), ("x100", 0x100, None),
                    ("x1fe", 0x1FE, None), ("hi.lsl0", self.his[0], ("lsl", 0))]
            for k, h in enumerate(self.his):
                out.append(("hi%d" % k, h, None))
        if esize == 16:
            out += [("pre8", m << 8, None), ("ff00", 0xFF00, None), ("rep8", m * 0x0101, None), ("x1fe0", 0x1FE0, None), ("xabcd", 0xABCD, None),
                    ("x10000", 0x10000, None), ("pre8.lsl0", m << 8, ("lsl", 0))]
        if esize == 32:
            out += [("pre8", m << 8, None), ("pre16", m << 16, None), ("pre24", m << 24, None), ("ff000000", 0xFF000000, None),
                    ("x1fe00", 0x1FE00, None), ("rep16", m * 0x00010001, None), ("rep16.pre8", (m << 8) * 0x00010001, None),
                    ("rep8", m * 0x01010101, None), ("mslpattern8", (m << 8) | 0xFF, None), ("mslpattern16", (m << 16) | 0xFFFF, None),
                    ("x12345", 0x12345, None), ("x100000000", 1 << 32, None), ("pre16.lsl8", m << 16, ("lsl", 8))]
        if esize == 64:
            k = self.mask
            out = [("mask.0", 0, None), ("mask.ones", M64, None), ("mask.ff", 0xFF, None), ("mask.top", 0xFF << 56, None), ("mask.rnd", k, None),
                   ("mask.alt", 0x00FF00FF00FF00FF, None), ("mask.rnd^1", k ^ 1, None), ("mask.rnd^bit62", k ^ (1 << 62), None), ("x7f", 0x7F, None),
                   ("rep32.imm8", m * 0x0000000100000001, None), ("rep32.pre16", (m << 16) * 0x0000000100000001, None),
                   ("rep16.imm8", m * 0x0001000100010001, None), ("rep8", m * 0x0101010101010101, None), ("rep32.x12345", 0x12345 * 0x0000000100000001, None),
                   ("mask.rnd.lsl0", k, ("lsl", 0)), ("mask.rnd.lsl8", k, ("lsl", 8)), ("mask.rnd.msl8", k, ("msl", 8)), ("mask.rnd.lsl64", k, ("lsl", 64))]
        if self.tier == "thorough" and esize < 64:
            out += [("imm8.%x" % i, i, None) for i in range(2, 255) if i != m]
            for a in MODIMM_SHIFTS[esize]:
                out += [("%x.lsl%d" % (i, a), i, ("lsl", a)) for i in (1, 0x80, 0x7F, 0xAA, 0x55)]
        seen, uniq = set(), []
        for x in out:
            if x[0] not in seen:
                seen.add(x[0])
                uniq.append(x)
        return uniq

    def product_cases(self, form):
        arrd = next((d for d in form.dims if d.key == "arr"), None)
        arrs = arrd.alts if arrd else [None]
        for a in arrs:
            v0 = dict(form.base)
            if a is not None:
                v0["arr"] = a.value
            es = self.esize(form, v0)
            for tag, imm, shift in self.specs(es):
                v = dict(v0)
                v[self.key] = (tag, imm, shift)
                st, what, _, _ = modimm_expect(self.kind, es, imm, shift)
                yield ("%s=%s:%s" % (self.key, a.tag if a is not None else "d", tag), v, st, what, self.opidx, False)

    def render(self, form, v, out):
        tag, imm, shift = v[self.key]
        es = self.esize(form, v)
        if tag == "base":
            imm = self.mask if es == 64 else self.mid
        st, what, value, text = modimm_expect(self.kind, es, imm, shift)
        if st == "bad" and not (self.kind == "mvni" and es in (8, 64)):
            # the request as written, so that LLVM can refute a wrong marking
            text = ("#0x%x" % imm if imm >= 0 else "#%d" % imm) + (", %s #%d" % shift if shift is not None else "")
        out.tokens.append("U:%d" % imm if imm >= 0 else "I:%d" % imm)
        if shift is not None:
            out.tokens.append("S:%s:%d" % shift)
        out.text.append(text)
        if value is not None:
            out.fields.append(("@modimm", (self.kind, value), "imm"))


# -- memory --------------------------------------------------------------------------------------------------------

class MemSlot(Slot):
    def __init__(self, opidx, op, rec):
        self.opidx = opidx
        self.op = op
        self.rec = rec
        d = op["data"]
        self.data = d
        self.key = "op%d.mem" % opidx
        self.basekey = "op%d.base" % opidx
        m = re.match(r"^\[(PC|Xn\|SP|Xn)(?:, (.*?))?\](.*)$", d)
        if not m:
            raise Unsupported("mem syntax " + d)
        self.base, inner, tail = m.group(1), m.group(2), m.group(3)
        self.modes = {"": ["o"], "@": ["post"], "!": ["pre"], "{@}{!}": ["o", "pre", "post"], "{!}": ["o", "pre"]}.get(tail)
        if self.modes is None:
            raise Unsupported("mem tail " + tail)
        self.kind = None
        self.scale = 1
        self.signed = False
        self.bits = 0
        self.fixed = None
        self.fixed_sz_mul = None
        if self.base == "PC":
            self.kind = "lit"
            self.bits = rec["fields"]["offS"]["bits"]
        elif inner is None:
            self.kind = "none"
        elif inner == "Xm":
            self.kind = "postreg"
        elif inner.startswith("Rm"):
            self.kind = "regidx"
        else:
            mm = re.match(r"^#(offS|offZ)(?:\*(\d+))?$", inner)
            if mm:
                self.kind = "off"
                self.signed = mm.group(1) == "offS"
                self.scale = int(mm.group(2) or 1)
                fld = rec["fields"].get(mm.group(1))
                if not fld:
                    # the template has no offset field although the syntax shows one (database slip): only offset 0
                    self.kind = "none"
                else:
                    self.bits = fld["bits"]
                    self.offfield = mm.group(1)
            else:
                mm = re.match(r"^#(?:off==?)?(\d+)(<<sz)?$", inner)
                if not mm:
                    raise Unsupported("mem offset " + inner)
                self.kind = "fixedpost"
                self.fixed = int(mm.group(1))
                self.fixed_sz_mul = bool(mm.group(2))

    def log2size(self):
        n = self.rec["name"]
        if n.startswith("prf"):
            return 3
        if n.endswith("sw"):
            return 2
        if n.endswith("b"):
            return 0
        if n.endswith("h"):
            return 1
        for o in self.rec["operands"]:
            if o["type"] == "reg" and o["data"]:
                return {"W": 2, "X": 3, "B": 0, "H": 1, "S": 2, "D": 3, "Q": 4}.get(o["data"][0], 3)
        return 3

    def dims(self, form, rng, tier):
        d = []
        if self.base != "PC":
            alts = reg_alts(rng, tier, 0, None)
            alts.append(Alt(SP, "ok", "", "sp"))
            alts.append(Alt(ZR, "bad", "base-zr", "zr"))
            for b in (BAD_IDS_THOROUGH if tier == "thorough" else BAD_IDS_QUICK):
                alts.append(Alt(b, "bad", "base-reg-id", "id%d" % b))
            d.append(Dim(self.basekey, rng.range(1, 29), alts, self.opidx))
        k = self.kind
        if k == "none":
            d.append(Dim(self.key, ("o", 0), [Alt(("o", 8), "bad", "offset-not-allowed", "off8"),
                                              Alt(("post", 8), "bad", "offset-not-allowed", "post8")], self.opidx))
        elif k == "off":
            b, s = self.bits, self.scale
            alts = []
            for mode in self.modes:
                if self.signed:
                    mx, mn = ((1 << (b - 1)) - 1) * s, -(1 << (b - 1)) * s
                    vals = [(0, "ok", ""), (s, "ok", ""), (-s, "ok", ""), (mx, "ok", ""), (mn, "ok", ""),
                            (mx + s, "bad", "offset-range"), (mn - s, "bad", "offset-range")]
                    if s > 1:
                        vals.append((s + 1, "bad", "offset-align"))
                        vals.append((-1, "bad", "offset-align"))
                    vals.append((rng.range(2, (1 << (b - 1)) - 2) * s, "ok", ""))
                else:
                    mx = ((1 << b) - 1) * s
                    # LDUR/STUR fallback: AsmJit (and the architecture's preferred disassembly) use the unscaled
                    # form for offsets the scaled form cannot express but that fit a signed 9-bit field
                    vals = [(0, "ok", ""), (s, "ok", ""), (mx, "ok", ""), (mx + s, "bad", "offset-range"),
                            (-s if s <= 256 else -256, "unk", ""), (-256, "unk", ""), (-257, "bad", "offset-range"),
                            (rng.range(2, (1 << b) - 2) * s, "ok", "")]
                    if s > 1:
                        vals += [(1, "unk", ""), (255, "unk", ""), (257, "bad", "offset-align"), (mx + 1, "bad", "offset-align"), (-255, "unk", "")]
                    else:
                        vals += [(-1, "unk", ""), (4096, "bad", "offset-range")]
                for x, st, what in vals:
                    if x == 0 and mode != "o":
                        continue   # write-back by zero: AsmJit may use the plain form (same meaning)
                    tag = "%s%+d" % (mode, x)
                    alts.append(Alt((mode, x), st, what, tag))
            if self.modes == ["o"] and self.rec["name"] not in NAMES_WITH_WRITEBACK:
                alts.append(Alt(("pre", s), "bad", "pre-index-not-allowed", "pre"))
                alts.append(Alt(("post", s), "bad", "post-index-not-allowed", "post"))
            d.append(Dim(self.key, (self.modes[0], self.scale * 2), alts, self.opidx))
        elif k == "fixedpost":
            d.append(Dim(self.key, ("post", "fix"), [Alt(("post", "fix+1"), "bad", "post-imm", "fix+1"), Alt(("post", "fix*2"), "bad", "post-imm", "fix*2"),
                                                      Alt(("pre", "fix"), "bad", "pre-index-not-allowed", "pre"), Alt(("o", "fix"), "bad", "offset-not-allowed", "plainoff")], self.opidx))
        elif k == "postreg":
            alts = reg_alts(rng, tier, 0, None)
            alts.append(Alt(ZR, "bad", "post-index-zr", "zr"))
            alts.append(Alt(SP, "bad", "post-index-sp", "sp"))
            for bb in BAD_IDS_QUICK:
                alts.append(Alt(bb, "bad", "index-reg-id", "id%d" % bb))
            d.append(Dim(self.key, rng.range(1, 29), alts, self.opidx))
        elif k == "regidx":
            n = self.log2size()
            idx_alts = reg_alts(rng, tier, 0, None)
            idx_alts.append(Alt(ZR, "ok", "", "zr"))
            idx_alts.append(Alt(SP, "bad", "index-sp", "sp"))
            for bb in BAD_IDS_QUICK:
                idx_alts.append(Alt(bb, "bad", "index-reg-id", "id%d" % bb))
            d.append(Dim(self.key + ".idx", rng.range(1, 29), idx_alts, self.opidx))
            ext = []
            for op in ("lsl", "uxtw", "sxtw", "sxtx"):
                ext.append(Alt((op, 0), "ok", "", op + "0"))
                if n > 0:
                    ext.append(Alt((op, n), "ok", "", op + "N"))
                ext.append(Alt((op, n + 1), "bad", "index-shift", op + "N+1"))
                if n > 1:
                    ext.append(Alt((op, 1), "bad", "index-shift", op + "1"))
            ext.append(Alt(("none", 0), "ok", "", "plain"))
            for op in ("uxtx", "lsr", "sxtb", "uxtb"):
                ext.append(Alt((op, 0), "bad", "index-extend-kind", op))
            ext.append(Alt(("pre", 0), "bad", "pre-index-not-allowed", "pre"))
            d.append(Dim(self.key, ("lsl", n), ext, self.opidx))
        elif k == "lit":
            b = self.bits
            mx, mn = ((1 << (b - 1)) - 1) * 4, -(1 << (b - 1)) * 4
            alts = [Alt(("ML", 0)), Alt(("ML", 4)), Alt(("ML", -4)), Alt(("ML", mx), tag="max"), Alt(("ML", mn), tag="min"),
                    Alt(("ML", mx + 4), "bad", "disp-range", "max+4"), Alt(("ML", mn - 4), "bad", "disp-range", "min-4"),
                    Alt(("ML", 2), "bad", "disp-align", "misaligned"), Alt(("MA", 64), "unk", "", "abs+64")]
            d.append(Dim(self.key, ("ML", 16), alts, self.opidx))
        return d

    def render(self, form, v, out):
        k = self.kind
        f = self.rec["fields"]
        if k == "lit":
            t, x = v[self.key]
            out.tokens.append("%s:%d" % (t, x))
            out.text.append("#%d" % x)
            out.fields.append(("offS", (x // 4) & ((1 << self.bits) - 1), "imm"))
            return
        base = v[self.basekey]
        bn = T.gp_name(64, base)
        if "Rn" in f:
            out.fields.append(("Rn", base & 31 if (base < 31 or base == SP) else None, "reg"))
        if k in ("none", "off", "fixedpost"):
            mode, x = v[self.key]
            if k == "fixedpost":
                fx = self.fixed
                if self.fixed_sz_mul:
                    fx = self.fixed << form.sz_index(v)
                x = {"fix": fx, "fix+1": fx + 1, "fix*2": fx * 2, "zero": 0}[x]
            out.tokens.append("M:%d:%s:%d" % (base, mode, x))
            if bn is None:
                out.text.append(None)
            elif mode == "o":
                out.text.append("[%s]" % bn if (x == 0 and k == "none") else "[%s, #%d]" % (bn, x))
            elif mode == "pre":
                out.text.append("[%s, #%d]!" % (bn, x))
            else:
                out.text.append("[%s], #%d" % (bn, x))
            if k == "off" and (x % self.scale) == 0:
                q = x // self.scale
                rng_ok = (-(1 << (self.bits - 1)) <= q < (1 << (self.bits - 1))) if self.signed else (0 <= q < (1 << self.bits))
                if rng_ok:
                    out.fields.append((self.offfield, q & ((1 << self.bits) - 1), "imm"))
                else:
                    out.fields.append(("@nofixed", 0, "imm"))   # LDUR/STUR fallback: another record's template applies
            elif k == "off":
                out.fields.append(("@nofixed", 0, "imm"))
            if "W" in f and "!post" in f:
                out.fields.append(("W", 0 if mode == "o" else 1, "imm"))
                out.fields.append(("!post", 1 if mode in ("o", "pre") else 0, "imm"))
            return
        if k == "postreg":
            idx = v[self.key]
            out.tokens.append("MX:%d:x:%d:-:0:post" % (base, idx))
            xn = T.gp_name(64, idx)
            out.text.append("[%s], %s" % (bn, xn) if (bn and xn) else None)
            if "Rm" in f:
                out.fields.append(("Rm", idx if idx < 31 else None, "reg"))
            return
        if k == "regidx":
            idx = v[self.key + ".idx"]
            op, amt = v[self.key]
            mode = "o"
            if op == "pre":
                op, mode = "none", "pre"
            wx = "w" if op in ("uxtw", "sxtw", "uxtb", "sxtb") else "x"
            if op == "none":
                out.tokens.append("MX:%d:x:%d:-:0:%s" % (base, idx, mode))
            else:
                out.tokens.append("MX:%d:%s:%d:%s:%d:o" % (base, wx, idx, op, amt))
            rn = T.gp_name(32 if wx == "w" else 64, idx)
            if bn is None or rn is None:
                out.text.append(None)
            elif op == "none":
                out.text.append("[%s, %s]%s" % (bn, rn, "!" if mode == "pre" else ""))
            elif amt == 0 and op != "lsl":
                out.text.append("[%s, %s, %s]" % (bn, rn, op))
            elif amt == 0:
                out.text.append("[%s, %s]" % (bn, rn))
            else:
                out.text.append("[%s, %s, %s #%d]" % (bn, rn, op, amt))
            if "Rm" in f:
                out.fields.append(("Rm", idx & 31 if (idx < 31 or idx == ZR) else None, "reg"))
            if "option" in f and op in ("lsl", "none", "uxtw", "sxtw", "sxtx"):
                out.fields.append(("option", {"uxtw": 2, "lsl": 3, "none": 3, "sxtw": 6, "sxtx": 7}[op], "imm"))
            sf = "s" if "s" in f else ("n" if "n" in f else None)
            if sf:
                out.fields.append((sf, 1 if amt else 0, "imm"))
            return
        raise Unsupported("mem kind")


# ------------------------------------------------------------------------------------------------------------------
# forms
# ------------------------------------------------------------------------------------------------------------------

class Form:
    def __init__(self, rec):
        self.rec = rec
        self.name = rec["name"]
        self.asm_name = rec["name"]
        self.slots = []
        self.shared = set()
        self.arrs = None        # list of (t, ta, tb) or None
        self.cc_in_name = False
        self.text_name = rec["name"]
        self.mov_imm = rec["name"] == "mov" and any(o["type"] == "imm" for o in rec["operands"])
        self.side_stream = bool(rec.get("_supplement"))
        self._parse()

    # arrangement handling --------------------------------------------------------------------------------------
    def _parse_arrs(self):
        rec = self.rec
        spec = rec.get("t") or rec.get("ta.tb")
        if not spec:
            return
        arrs = []
        for i, ent in enumerate(spec.split()):
            if ent == "~":
                arrs.append(None)
                continue
            if "." in ent:
                a, b = ent.split(".")
                arrs.append((None, a, b, i))
            else:
                arrs.append((ent, ent, ent, i))
        self.arrs = arrs

    def arr_of(self, spec, v):
        if spec in ("t", "ta", "tb"):
            if "arr" not in v:
                raise Unsupported("arrangement list missing in the record")
            a = v["arr"]
            return a[{"t": 0, "ta": 1, "tb": 2}[spec]] or a[1]
        return spec

    def sz_index(self, v):
        a = v.get("arr")
        if a is not None:
            return a[3]
        # element forms: size from the element letter of the first vector operand
        for s in self.slots:
            vs = s.inner if isinstance(s, VecListSlot) else s
            if isinstance(vs, VecSlot):
                return {8: 0, 16: 1, 32: 2, 64: 3}.get(vs.elem_bits(self, v), 0)
        return 0

    def min_esize(self, v):
        e = 128
        for s in self.slots:
            vs = s.inner if isinstance(s, VecListSlot) else s
            if isinstance(vs, VecSlot):
                e = min(e, vs.elem_bits(self, v))
        return e

    def r_width(self, v):
        """width of an `R` register: depends on the extend kind of the same instruction"""
        for s in self.slots:
            if isinstance(s, ShiftImm) and s.kind == "ext":
                op = v[s.opkey]
                return 64 if op in ("uxtx", "sxtx", "lsl") else 32
        return 64

    # parsing ---------------------------------------------------------------------------------------------------
    def _parse(self):
        rec = self.rec
        if "SVE" in rec["category"] or "SME" in rec["category"]:
            raise Unsupported("SVE/SME (not part of a64::Assembler)")
        name = rec["name"]
        if name in ("b.<cond>", "bc.<cond>"):
            self.cc_in_name = True
            self.asm_name = name.split(".")[0]
        self._parse_arrs()
        ops = rec["operands"]
        i = 0
        opidx = 0
        gp_regs = [o for o in ops if o["type"] == "reg" and o["data"] and o["data"][0] in "WX"]
        w_of_first = 64 if (gp_regs and gp_regs[0]["data"][0] == "X") else 32
        imm_call = (rec.get("imm") or {}).get("name") if isinstance(rec.get("imm"), dict) else None
        while i < len(ops):
            o = ops[i]
            d = o["data"]
            slot = None
            if o["type"] == "reg":
                m = re.match(r"^(\d)x\{(.+?)\}(\+?)(?:\[#(\w+)\])?$", d)
                if m:
                    n = int(m.group(1))
                    inner = m.group(2)
                    if inner[0] in "WX":
                        slot = GpListSlot(opidx, n, inner, rec)
                    else:
                        slot = VecListSlot(opidx, n, inner, rec, m.group(4))
                    i += n - 1
                elif d in ("", "+"):
                    raise Unsupported("stray artificial operand")
                elif re.match(r"^[WX]\d+$", d):
                    slot = FixedGpSlot(opidx, d, rec)
                elif d[0] in "WXR":
                    slot = GpSlot(opidx, d, rec)
                elif d[0] in "BHSDQV":
                    slot = VecSlot(opidx, d, rec)
                else:
                    raise Unsupported("register operand " + d)
            elif o["type"] == "mem":
                if d.startswith("[Xd]") or d.startswith("[Xs]"):
                    raise Unsupported("MOPS operand " + d)
                slot = MemSlot(opidx, o, rec)
            elif o["type"] == "imm":
                slot = self._imm_slot(opidx, o, rec, w_of_first, imm_call)
                if isinstance(slot, ModImmSlot):
                    self.side_stream = True      # (these records used to be skipped: they must not draw from the main stream)
                    if i + 1 < len(ops) and ops[i + 1]["data"] == "{lsl #n}":
                        i += 1
            else:
                raise Unsupported("operand type " + o["type"])
            self.slots.append(slot)
            opidx += slot.nops
            i += 1
        if opidx > 6:
            raise Unsupported("more than 6 operands")
        # single-register lists are written with braces
        if re.match(r"^(ld|st)[1-4]r?$", name) and self.slots and isinstance(self.slots[0], VecSlot):
            self.slots[0].brace = True
        if name in ("tbl", "tbx") and len(self.slots) > 1 and isinstance(self.slots[1], VecSlot):
            self.slots[1].brace = True

    def _imm_slot(self, opidx, o, rec, w, imm_call):
        d = o["data"]
        name = rec["name"]
        f = rec["fields"]
        if d == "#cond":
            return CondImm(opidx, o, rec)
        if d in ("#relS*4", "#relS"):
            return RelImm(opidx, o, rec)
        if d == "#0":
            return LiteralImm(opidx, o, rec, 0, fp_zero=name.startswith("f"))
        if d in ("#8", "#16", "#32"):
            return LiteralImm(opidx, o, rec, int(d[1:]))
        if d == "{lsl #n=0|12}":
            return ShiftImm(opidx, o, rec, "lsl12")
        if d in ("{lsl|lsr|asr #n}",):
            return ShiftImm(opidx, o, rec, "shift")
        if d == "{sop #n}":
            return ShiftImm(opidx, o, rec, "sop")
        if d == "{extend #n}":
            return ShiftImm(opidx, o, rec, "ext")
        if imm_call in ("ASimdMovPImm", "ASimdMovNImm", "ASimdLogicalImm") and d == "#imm":
            return ModImmSlot(opidx, rec)
        if d == "{lsl #n}":
            if imm_call in ("ImmWide", "ImmWideInv"):
                return ShiftImm(opidx, o, rec, "movw")
            if "n" in f and f["n"]["bits"] == 3:
                return ShiftImm(opidx, o, rec, "lsl3")
            raise Unsupported("vector modified immediate (movi/mvni/orr/bic #imm, lsl #n)")
        if imm_call in ("ASimdMovPImm", "ASimdMovNImm", "ASimdLogicalImm") and d == "#imm":
            return ModImmSlot(opidx, rec)
        if imm_call in ("LogicalImm", "ImmLogical") and d in ("#imm", "#log_imm"):
            return LogicalImm(opidx, o, rec, w)
        if imm_call in ("ImmWide", "ImmWideInv") and d == "#imm":
            return WideImm(opidx, o, rec, w, imm_call == "ImmWideInv", name == "mov")
        if d in ("#lsb", "#width", "#immr", "#imms"):
            return BitfieldImm(opidx, o, rec, d[1:], w)
        if d == "#n" and name in ("lsl", "lsr", "asr", "ror") and not any(x["data"][:1] in "BHSDQV" for x in rec["operands"] if x["type"] == "reg"):
            return BitfieldImm(opidx, o, rec, "n", w)
        if d == "#fimm":
            return FpImm(opidx, o, rec)
        if d == "#n" and imm_call in ("ASimdSHL", "ASimdShiftPImm"):
            return VecShiftImm(opidx, o, rec, True)
        if d == "#n" and imm_call in ("ASimdShiftNImm", "ASimdSHRN"):
            return VecShiftImm(opidx, o, rec, False)
        if d in ("#fbits", "#bits") and imm_call == "ASimdFBitsHBImm":
            return VecShiftImm(opidx, o, rec, False)
        if d == "#fbits" and imm_call == "ASimdFBitsScaleImm":
            return FbitsScaleImm(opidx, o, rec, w)
        if d == "#rotate":
            return RotateImm(opidx, o, rec, imm_call == "ASimdRotateImm_0_90_180_270")
        if d == "#sysreg":
            return NamedImm(opidx, o, rec, "SysReg", raw_bits=16)
        if d == "#at_op":
            return NamedImm(opidx, o, rec, "AT")
        if d == "#dc_op":
            return NamedImm(opidx, o, rec, "DC")
        if d == "#ic_op":
            return NamedImm(opidx, o, rec, "IC")
        if d == "#tlbi_op":
            return NamedImm(opidx, o, rec, "TLBI")
        if d == "#barrier_op":
            return NamedImm(opidx, o, rec, "DB", raw_bits=4)
        if d == "#prf_op":
            return NamedImm(opidx, o, rec, "PRFOp", raw_bits=5)
        if d == "#pstatefield":
            return NamedImm(opidx, o, rec, "PState")
        if d == "{#targets}":
            return NamedImm(opidx, o, rec, "BTI")
        if d == "{#isb_op=15}":
            return NamedImm(opidx, o, rec, "ISB")
        if d in ("#Cn", "#Cm", "#CRn", "#CRm"):
            fld = {"#Cn": "CRn", "#Cm": "CRm"}.get(d, d[1:])
            return PlainImm(opidx, o, rec, field=fld, prefix="c")
        if d == "{#imm=15}" and "CRm" in f:
            return PlainImm(opidx, o, rec, field="CRm")
        if name == "msr" and d == "#imm":
            return PStateImm(opidx, o, rec)
        m = re.match(r"^\{?#(\w+)\}?$", d)
        if m and m.group(1) in f:
            nm = m.group(1)
            if nm == "imm1":     # addg/subg: uimm6 * 16
                return PlainImm(opidx, o, rec, field=nm, scale=16)
            addsub = any(x["data"] == "{lsl #n=0|12}" for x in rec["operands"])
            return PlainImm(opidx, o, rec, field=nm, signed=nm.endswith("S"), addsub=addsub)
        raise Unsupported("immediate " + d + (" (%s)" % imm_call if imm_call else ""))

    # case enumeration ------------------------------------------------------------------------------------------
    def build(self, rng, tier):
        self.dims = []
        if self.arrs:
            good = [a for a in self.arrs if a is not None]
            # arrangement names must be ones this generator can hand to AsmJit
            for a in good:
                for x in a[:3]:
                    if x is not None and x not in ARR:
                        raise Unsupported("arrangement " + x)
            alts = [Alt(a, "ok", "", "arr" + (a[0] or a[1] + "." + a[2])) for a in good]
            self.dims.append(Dim("arr", good[rng.range(0, len(good) - 1)], alts, 0))
        if self.cc_in_name:
            alts = [Alt(c, "ok", "", T.COND_NAMES[c]) for c in range(2, 16)]
            self.dims.append(Dim("cc", rng.range(2, 15), alts, 0))
        elif self.asm_name != "b":
            # a condition code composed into the id of any instruction but B is invalid input
            self.dims.append(Dim("idcc", 0, [Alt(c, "bad", "cond-code-in-id", "cc%d" % c) for c in (2, 15)], -1))
        for s in self.slots:
            self.dims += s.dims(self, rng, tier)
        regdims = [d for d in self.dims if (d.key.endswith(".id") or d.key.endswith(".base") or d.key.endswith(".mem.idx") or
                                            (d.key.endswith(".mem") and isinstance(d.base, int))) and isinstance(d.base, int)]
        self.regdims = regdims
        used = set()
        for d in regdims:
            tries = 0
            while (d.base in used or d.base + 1 in used or d.base - 1 in used) and tries < 40:
                cand = rng.range(1, 29)
                if any(a.value == cand and a.status == "ok" for a in d.alts) or True:
                    lim = 15 if any(a.what == "reg-id-4bit" for a in d.alts) else 29
                    d.base = rng.range(1, lim - 1)
                tries += 1
            used.add(d.base)
        for d in regdims:
            others = set(o.base for o in regdims if o is not d)
            d.alts = [a for a in d.alts if not (isinstance(a.value, int) and a.value in others and a.status == "ok")]
        self.base = {d.key: d.base for d in self.dims}

    def cases(self):
        """yields (vclass, values, status, what, opidx)"""
        yield ("base", dict(self.base), "ok", "", -1, False)
        for d in self.dims:
            for a in d.alts:
                if a.value == d.base and a.status == "ok":
                    continue
                v = dict(self.base)
                v[d.key] = a.value
                yield ("%s=%s" % (d.key, a.tag), v, a.status, a.what, d.opidx, a.notemplate)
        # products of two dimensions: the limits of a shift / #fbits immediate are symbolic in the element size, so they
        # are tried at EVERY arrangement of the record (the sweep above meets them at the base arrangement only); the
        # modified-immediate slot enumerates arrangement x value itself
        arrd = next((d for d in self.dims if d.key == "arr"), None)
        for s in self.slots:
            if isinstance(s, VecShiftImm) and arrd is not None:
                sd = next(d for d in self.dims if d.key == s.key)
                for a in arrd.alts:
                    if a.value == arrd.base:
                        continue
                    for b in sd.alts:
                        v = dict(self.base)
                        v["arr"] = a.value
                        v[sd.key] = b.value
                        yield ("arr=%s*%s=%s" % (a.tag, sd.key, b.tag), v, b.status, b.what, sd.opidx, False)
            if isinstance(s, ModImmSlot):
                for c in s.product_cases(self):
                    yield c

    def random_cases(self, rng, n):
        """all dimensions at once, valid values only"""
        for k in range(n):
            v = dict(self.base)
            tags = []
            for d in self.dims:
                oks = [a for a in d.alts if a.status == "ok"]
                if oks and rng.chance(2, 3):
                    a = oks[rng.below(len(oks))]
                    v[d.key] = a.value
            regs = [v[d.key] for d in self.regdims if isinstance(v[d.key], int)]
            if len(set(regs)) != len(regs):
                continue   # the same register twice (write-back base == data register ...) is a different question
            yield ("random%d" % k, v, "unk", "", -1, False)

    def render(self, v):
        """-> (driver line tail, text or None, expected fields)"""
        tokens, texts, fields = [], [], []
        for s in self.slots:
            o = Out()
            s.render(self, v, o)
            tokens += o.tokens
            texts += o.text
            fields += o.fields
        name = self.asm_name
        tname = self.text_name
        if v.get("idcc"):
            name = "%s.%d" % (self.asm_name, v["idcc"])
        if self.cc_in_name:
            name = "%s.%d" % (self.asm_name, v["cc"])
            tname = "%s.%s" % (self.asm_name, T.COND_NAMES[v["cc"]])
            if "cond" in self.rec["fields"]:
                fields.append(("cond", T.cond_enc(v["cc"]), "imm"))
        if "sz" in self.rec["fields"] and v.get("arr") is not None and self.rec["fields"]["sz"]["bits"] == 2:
            e = self.min_esize(v)
            if e in (8, 16, 32, 64):
                fields.append(("sz", {8: 0, 16: 1, 32: 2, 64: 3}[e], "imm"))
        bf = {k[4:]: val for k, val, _ in fields if isinstance(k, str) and k.startswith("@bf.")}
        if bf:
            fields = [x for x in fields if not (isinstance(x[0], str) and x[0].startswith("@bf."))]
            fields += bitfield_fields(self.rec, bf)
        self.last_parts = (list(tokens), list(texts))
        line = "%s %d %s" % (name, len(tokens), " ".join(tokens))
        text = None
        if all(t is not None for t in texts):
            text = tname + (" " + ", ".join(texts) if texts else "")
        return line.rstrip(), text, fields


def bitfield_fields(rec, bf):
    """expected immr / imms (Arm ARM alias definitions) for the bitfield family and the shift-by-immediate aliases"""
    n = rec["name"]
    f = rec["fields"]
    out = []
    w = list(bf.values())[0][1]
    g = {k: x[0] for k, x in bf.items()}
    immr = imms = None
    if n in ("bfm", "sbfm", "ubfm") and "immr" in g and "imms" in g:
        immr, imms = g["immr"], g["imms"]
    elif n in ("bfi", "sbfiz", "ubfiz", "bfc") and "lsb" in g and "width" in g:
        if 0 <= g["lsb"] < w and 1 <= g["width"] <= w - g["lsb"]:
            immr, imms = (-g["lsb"]) % w, g["width"] - 1
    elif n in ("bfxil", "sbfx", "ubfx") and "lsb" in g and "width" in g:
        if 0 <= g["lsb"] < w and 1 <= g["width"] <= w - g["lsb"]:
            immr, imms = g["lsb"], g["lsb"] + g["width"] - 1
    elif n == "lsl" and "n" in g and 0 <= g["n"] < w:
        immr, imms = (-g["n"]) % w, w - 1 - g["n"]
    elif n in ("lsr", "asr") and "n" in g and 0 <= g["n"] < w:
        immr = g["n"]
    elif n == "ror" and "n" in g and 0 <= g["n"] < w and "n" in f:
        out.append(("n", g["n"], "imm"))
    if immr is not None and "immr" in f and 0 <= immr < w:
        out.append(("immr", immr, "imm"))
    if imms is not None and "imms" in f and 0 <= imms < w:
        out.append(("imms", imms, "imm"))
    return out


NAMES_WITH_WRITEBACK = set()


def build_forms(recs):
    for rec in recs:
        for o in rec["operands"]:
            if o["type"] == "mem" and (o["data"].endswith("!") or o["data"].endswith("@") or "{@}" in o["data"] or "{!}" in o["data"]):
                NAMES_WITH_WRITEBACK.add(rec["name"])
    forms, unsupported = [], {}
    for rec in recs:
        try:
            forms.append(Form(rec))
        except Unsupported as e:
            unsupported.setdefault(str(e).split(" (")[0][:60], []).append(rec["_idx"])
    return forms, unsupported


SHAPE_WHATS = ("foreign-shape", "extra-operand", "wrong-id-kind", "inst-id-range", "mem-base-w", "mem-absolute", "mem-index-and-offset",
               "mem-label-index", "element-index-unexpected")


def coarse_sig(tokens):
    """operand KINDS of a driver line: G gp register, Vs scalar vector register, Vv vector with an element type, Ve vector
    element, I immediate, S shift / extend immediate, M memory, Ml literal / absolute memory, R label or address"""
    out = []
    for t in tokens:
        p = t.split(":")
        k = p[0]
        if k == "G":
            out.append("G")
        elif k == "V":
            out.append("Ve" if (len(p) >= 5 and p[4] != "-") else ("Vv" if len(p) >= 4 and p[3] != "-" else "Vs"))
        elif k in ("I", "U", "F"):
            out.append("I")
        elif k == "S":
            out.append("S")
        elif k in ("M", "MX"):
            out.append("M")
        elif k in ("ML", "MA", "MLX"):
            out.append("Ml")
        else:
            out.append("R")
    return tuple(out)


def shape_cases(built, sigs_of_name, first_rec, shape_info, rng, tier):
    """Shape-level negatives. The sweeps above keep the operand KINDS of a record and perturb values; here the kinds
    themselves are wrong:
      foreign-shape   a mnemonic gets the operands of a sibling form of its own encoding class (cmhi v, v, #0; shl v, v, v;
                      fcvtas .., #fbits; asrv x, x, #n; ldrb w, [label]) - guarded in AsmJit only by per-row table flags
      wrong-id-kind   the general purpose id of a name with vector operands and the other way round
      inst-id-range   ids beyond the table
      extra-operand   one more register after the last operand
      mem-*           W register as base, absolute address where no literal form exists, index AND offset, label + index
      element-index-unexpected   a lane index on the vector operand of a non-indexed form
    A case is generated only when NO record of the mnemonic has these operand kinds; where a text exists LLVM can still
    refute the marking. Picks come from a side stream."""
    ids, count = shape_info["ids"], shape_info["count"]
    side = type(rng)(rng.s ^ 0x5AA9E5AA9E)
    out = []

    def views_folded(sg):
        # a register written without its element type (bif d1, d2, d3) is the scalar- / arrangement-view dimension, not a
        # different operand kind
        return tuple("V" if x in ("Vs", "Vv") else x for x in sg)
    folded_of_name = {n: set(views_folded(x) for x in sgs) for n, sgs in sigs_of_name.items()}

    def enc_of(name, tokens):
        lst = ids.get(name)
        if not lst:
            return None
        has_vec = any(t.startswith("V:") for t in tokens)
        return (lst[-1] if has_vec else lst[0])[1]

    def mk(name, tokens, texts, what, vclass, opidx=-1, inst=None):
        text = None
        if inst is None and texts is not None and all(t is not None for t in texts):
            text = name + (" " + ", ".join(texts) if texts else "")
        line = ("%s %d %s" % (inst or name, len(tokens), " ".join(tokens))).rstrip()
        out.append({"rec": first_rec[name], "vclass": vclass, "status": "bad", "what": what, "opidx": opidx, "alt_text": None,
                    "line": line, "text": text, "fields": [], "notemplate": True})

    # donors per encoding class: one base line per (class, operand kinds)
    donors = {}
    for fm, tokens, texts in built:
        if fm.cc_in_name:
            continue
        e = enc_of(fm.asm_name, tokens)
        if e is None:
            continue
        donors.setdefault(e, {}).setdefault(coarse_sig(tokens), (fm, tokens, texts))
    names_of_enc = {}
    for name, lst in ids.items():
        if name in first_rec:
            for _, e in lst:
                names_of_enc.setdefault(e, set()).add(name)
    for e in sorted(donors):
        for sg in sorted(donors[e]):
            fm, tokens, texts = donors[e][sg]
            for name in sorted(names_of_enc.get(e, ())):
                if name == fm.asm_name or views_folded(sg) in folded_of_name.get(name, ()) or enc_of(name, tokens) != e:
                    continue
                mk(name, tokens, texts, "foreign-shape", "shape=%s:%s" % (fm.asm_name, "".join(sg)))

    seen_name = set()
    for fm, tokens, texts in built:
        name = fm.asm_name
        if fm.cc_in_name:
            continue
        sigs = sigs_of_name.get(name, ())
        tag = "rec%d" % fm.rec["_idx"]
        # one more operand (a64::Assembler dispatches on the kinds of the first four operands; what it does with a fifth or
        # sixth one that no form has is its own business)
        if len(tokens) < 4:
            extra = "V:q:3:b" if (tokens and tokens[-1].startswith("V:") and side.below(2)) else "G:x:3"
            if coarse_sig(tokens + [extra]) not in sigs:
                mk(name, tokens + [extra], None, "extra-operand", "shape=extra:" + tag, len(tokens))
        # the sibling id of the same mnemonic, and ids beyond the table
        lst = ids.get(name, [])
        if len(lst) > 1:
            has_vec = any(t.startswith("V:") for t in tokens)
            other = lst[0][0] if has_vec else lst[-1][0]
            mk(name, tokens, None, "wrong-id-kind", "shape=otherid:" + tag, inst="#%d" % other)
        if name not in seen_name:
            seen_name.add(name)
            picks = (count, count + 1 + side.below(4000), 0xFFFF, 0x0FFFFFFF)
            for bad_id in (picks if len(seen_name) <= 8 else (picks[side.below(4)],)):
                mk(name, tokens, None, "inst-id-range", "shape=id%d:%s" % (bad_id if bad_id in (count, 0xFFFF, 0x0FFFFFFF) else -1, tag), inst="#%d" % bad_id)
        # memory operand shapes
        for i, t in enumerate(tokens):
            p = t.split(":")
            if p[0] == "M" and len(p) == 4:
                tx = [(x.replace("[x", "[w", 1).replace("[sp", "[wsp", 1) if (x is not None and x.startswith("[")) else x) for x in texts]
                mk(name, tokens[:i] + [t + ":w"] + tokens[i + 1:], tx, "mem-base-w", "shape=wbase:" + tag, i)
                if p[2] == "o":
                    mk(name, tokens[:i] + ["MX:%s:x:%d:-:0:o:%s" % (p[1], 1 + side.below(29), p[3] if p[3] != "0" else "8")] + tokens[i + 1:], None,
                       "mem-index-and-offset", "shape=idxoff:" + tag, i)
                if "Ml" not in "".join("".join(x) for x in sigs):
                    mk(name, tokens[:i] + ["MA:64"] + tokens[i + 1:], None, "mem-absolute", "shape=abs:" + tag, i)
            elif p[0] == "MX" and len(p) == 7 and p[6] == "o":
                mk(name, tokens[:i] + [t + ":8"] + tokens[i + 1:], None, "mem-index-and-offset", "shape=idxoff:" + tag, i)
            elif p[0] == "ML":
                mk(name, tokens[:i] + ["MLX:%s:%d" % (p[1], 1 + side.below(29))] + tokens[i + 1:], None, "mem-label-index", "shape=labelidx:" + tag, i)
        # a lane index where the form has none
        vv = [i for i, t in enumerate(tokens) if coarse_sig([t]) == ("Vv",) and t.split(":")[1] == "q"]
        if vv:
            i = vv[side.below(len(vv))]
            mt = tokens[:i] + [tokens[i] + ":1"] + tokens[i + 1:]
            if coarse_sig(mt) not in sigs:
                pre = "v%s." % tokens[i].split(":")[2]
                tx, hit = [], False
                for x in texts:
                    if x is not None and x.startswith(pre) and "[" not in x and not hit:
                        hit = True
                        x = pre + x[len(pre):].lstrip("0123456789") + "[1]"
                    tx.append(x)
                if not hit:
                    tx = None
                mk(name, mt, tx, "element-index-unexpected", "shape=lane:" + tag, i)
    return out


def generate(recs, seed, tier, known_names=None, nrandom=24, shape_info=None):
    """-> (cases, stats). A case is a dict: rec, vclass, status, what, opidx, line, text, fields.
    shape_info ({"ids": {name: [(id, encoding class)]}, "count": id count}, from the driver) switches the shape-level
    negatives on."""
    forms, unsupported = build_forms(recs)
    rng = common.Rng(seed).fork("c02")
    cases = []
    skipped_unknown = 0
    built, sigs_of_name, first_rec = [], {}, {}
    for fm in forms:
        if known_names is not None and fm.asm_name not in known_names:
            skipped_unknown += 1
            continue
        if fm.side_stream:
            r = type(rng)(rng.s ^ 0x51DE57AE).fork(fm.rec["_idx"])     # (does not advance the main stream)
        else:
            r = rng.fork(fm.rec["_idx"])
        try:
            fm.build(r, tier)
        except Unsupported as e:
            unsupported.setdefault(str(e)[:60], []).append(fm.rec["_idx"])
            continue
        import itertools
        it = fm.cases()
        if nrandom:
            it = itertools.chain(it, fm.random_cases(r, nrandom))
        for vclass, v, status, what, opidx, notemplate in it:
            try:
                line, text, fields = fm.render(v)
            except Unsupported as e:
                unsupported.setdefault(str(e)[:60], []).append(fm.rec["_idx"])
                break
            tokens, texts = fm.last_parts
            sigs_of_name.setdefault(fm.asm_name, set()).add(coarse_sig(tokens))
            first_rec.setdefault(fm.asm_name, fm.rec["_idx"])
            if vclass == "base":
                built.append((fm, tokens, texts))
            alt = None
            for fk, fv, _ in fields:
                if fk == "@alttext" and text:
                    alt = text.replace(fv[0], fv[1])
            cases.append({"rec": fm.rec["_idx"], "vclass": vclass, "status": status, "what": what, "opidx": opidx, "alt_text": alt,
                          "line": line, "text": text, "fields": [f for f in fields if f[0] == "@movseq"] if notemplate else fields, "notemplate": notemplate})
    nshape = 0
    if shape_info:
        sc = shape_cases(built, sigs_of_name, first_rec, shape_info, rng, tier)
        nshape = len(sc)
        cases += sc
    stats = {"forms": len(forms), "shape_level_cases": nshape, "unsupported": {k: len(v) for k, v in unsupported.items()},
             "unsupported_records": sum(len(v) for v in unsupported.values()), "not_in_asmjit": skipped_unknown}
    return cases, stats
