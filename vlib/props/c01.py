"""C01 - the x86/x64 assembler emits a correct encoding of every instruction it accepts.

Runtime monitor: every database form x mode x systematic variants is emitted through the public API of an
ASan/UBSan build with strict validation on; the appended bytes are judged by
  (A) xdec - our field-level decoder applying the encoding rule of the ISA database to the case's operands,
  (B) an independent assembler + decoder: llvm-mc assembles our own rendering of the case; GNU objdump must print
      the same canonical text for AsmJit's bytes and for LLVM's bytes,
  (C) length: objdump and llvm-objdump must end an instruction exactly where AsmJit stopped appending, with nothing
      but padding behind it,
  (D) when neither independent decoder can decode bytes of a form they both know -> undecodable,
  (E) an accepted case whose operands were generated to lie outside every database form of the mnemonic (immediate one
      past the field, wrong broadcast factor) -> accepts-unencodable: no byte sequence can mean what was asked.
Extended dimensions (x86gen.Gen.ext): implicit operands omitted, ModMR/ModRM on every prefix class, long form on
non-branches, branch hints / size optimisation through EncodingOptions, the address-size x index-type matrix (incl. vector
indexes), disp8*N boundaries under every addressing style. Each has measured counters; a dimension that judged nothing makes
the run inconclusive.
Round 12: absolute (base-less, index-less) memory operands x address type {abs, rel, default} x CodeHolder base address {none, 0,
low, > 4 GiB, high} x requested address {32-bit, near the code, at the edge of the rel32 reach, out of reach}, each case assembled
alone in a holder with that base behind a known padding: the oracle computes the address the decoded operand designates
(base + offset + instruction length incl. trailing immediate + disp32, or the extended absolute disp32 / moffs) and compares it
with the requested one; an accepted out-of-reach target shows as a wrong address. Relocated operands (no base address) are C04's.
"""
import collections
import json
import multiprocessing
import os
import re
import subprocess
import tempfile

from vlib import build, common, isadb, x86gen, x86text, x86tools, xdec

G = x86gen


def reason_class(msg):
    """stable class of an xdec mismatch message (numbers and register names stripped)"""
    m = msg.split(" | ")[0].split(": ", 1)[-1]
    m = re.sub(r"\(form [^)]*\)|\([^)]*\)$", "", m)
    m = re.sub(r"\b[0-9a-f]{2}\b|-?\d+|\b(gp8lo|gp8hi|gp16|gp32|gp64|xmm|ymm|zmm|mm|k|st|sreg|creg|dreg|bnd|tmm|rip)\b:?", "#", m)
    m = re.sub(r"[\[\]\(\)',:]", " ", m)
    m = re.sub(r"\s+", " ", m).strip()
    return m[:70]


def gap_class(c, byname, mode, round11=False):
    """Classes of accepted-but-unencodable input that AsmJit's validator does not reject (see DESIGN.md, findings):
    features that only EVEX can express used with an instruction (signature) that has no EVEX encoding, and
    explicit memory operands of instructions whose memory operand is implicit (string instructions)."""
    cands = xdec.candidates(c, byname, mode)
    if not cands:
        return None
    gp = ("gp16", "gp32", "gp64")
    # (round11: classes introduced with C01's extended dimensions; C14 reuses judge_mode and keeps its own classification)
    for op in (c["ops"] if round11 else ()):
        if op[0] == "M" and op[1]["index"]:
            b, x = op[1]["base"], op[1]["index"]
            if b and b[0] in gp and x[0] in gp and b[0] != x[0]:
                return "validator-gap:base-and-index-of-different-address-size"
            if b and b[0] == "gp16" and x[0] in ("xmm", "ymm", "zmm"):
                return "validator-gap:vector-index-with-16-bit-base"
    if round11 and c["opts"] & G.OPT_MODMR and c["name"].startswith("kmov") and len(c["ops"]) == 2 and all(op[0] == "R" and op[1] == "k" for op in c["ops"]):
        return "enc:modmr-kmov-k-k-uses-the-memory-store-opcode"
    # EVEX forms of extensions this AsmJit release does not encode (it only knows their VEX forms) do not count
    any_evex = any(f["prefix"] == "EVEX" and not (set(f.get("ext") or {}) & {"AVX10_2", "APX_F"}) for f, _ in cands)
    if not any_evex:
        high = any((op[0] == "R" and op[1] in ("xmm", "ymm", "zmm") and op[2] >= 16) or
                   (op[0] == "M" and op[1]["index"] and op[1]["index"][0] in ("xmm", "ymm", "zmm") and op[1]["index"][1] >= 16)
                   for op in c["ops"])
        if high:
            return "validator-gap:vec16-31-with-non-evex-instruction"
        if c["opts"] & G.OPT_EVEX:
            return "validator-gap:evex-option-with-non-evex-instruction"
        if c["extra"] or c["opts"] & (G.OPT_ZMASK | G.OPT_ER | G.OPT_SAE):
            return "validator-gap:mask-or-rounding-with-non-evex-instruction"
    for f, opmap in cands:
        if f["opcode"]["mod"] == "" and f["encoding"] in ("OP", "NONE"):
            for ci, fi in enumerate(opmap):
                o = f["operands"][fi]
                op = c["ops"][ci]
                if op[0] == "M" and o.get("memSegment") in ("es", "ds") and not o["mem"].startswith("moff"):
                    m = op[1]
                    want = 7 if o["memSegment"] == "es" else 6
                    if not m["base"] or m["base"][1] != want or m["index"] or m["disp"] or (o["memSegment"] == "es" and m["seg"] not in (0, 1)):
                        return "validator-gap:implicit-memory-operand-not-checked"
    return None


ABSREL = re.compile(r"^mem-absrel-(abs|rel|default)-(none|zero|low|high|top)-")


DIMS = ("implicit_omitted", "modmr_modrm_non_legacy", "long_form_non_branch", "accumulator_short_form", "branch_hints",
        "optimize_for_size", "address_size_matrix", "address_size_matrix_vector_index", "disp8xN_other_styles")


def dims_of(c, form):
    """extended dimensions a case belongs to (coverage accounting)"""
    v = c["variant"]
    out = []
    if v.startswith("impomit"):
        out.append("implicit_omitted")
    if v.split("-")[0] in ("modmr", "modrm") and form["prefix"] != "":
        out.append("modmr_modrm_non_legacy")
    if v.startswith("long-"):
        out.append("long_form_non_branch")
    if v in ("acc", "long-acc"):
        out.append("accumulator_short_form")
    if v.startswith(("taken", "nottaken")):
        out.append("branch_hints")
    if v.startswith("optsize"):
        out.append("optimize_for_size")
    if v.startswith("mem-asz-"):
        out.append("address_size_matrix")
        if v.endswith("v"):
            out.append("address_size_matrix_vector_index")
    if v.startswith(("mem-disp8xN-", "bcst-disp8xN-")):
        out.append("disp8xN_other_styles")
    return out


UNENCODABLE = re.compile(r"^(imm\d+-oob|bcst-wrong|bcst-illegal)$")


_GAP_CLASS = gap_class


def _emit(exe, lines, extra_args=()):
    d = os.path.join(build.CACHE, "tmp")
    os.makedirs(d, exist_ok=True)
    fd, path = tempfile.mkstemp(dir=d, suffix=".cases")
    try:
        with os.fdopen(fd, "w") as fh:
            fh.write("\n".join(lines) + "\n")
        rc, out, err = common.run_child([exe, "--cases", path] + list(extra_args), timeout=1800)
    finally:
        os.unlink(path)
    return rc, out, err


def judge_mode(cases, results, forms, byname, mode, stats, viol, samples, round11=False):
    """apply all oracles to the accepted cases of one mode"""
    def gap_class(c, byname, mode):
        return _GAP_CLASS(c, byname, mode, round11)

    for c, r in zip(cases, results):
        if "cbase" in c:
            # absolute-operand dimension: the driver says where in the section the instruction was assembled
            if r.get("off") is None or r["off"] != c.get("pad", 0):
                raise common.HarnessError("driver assembled a base-address case at offset %s, generator expected %s: %s" % (r.get("off"), c.get("pad"), G.case_line(c)))
            c["off"] = r["off"]
            m = ABSREL.match(c["variant"])
            if m:
                cell = "%s_%s_%s" % (m.group(1), "base_" + m.group(2), "trailing_imm" if c.get("trail") else "no_imm")
                stats["absrel_gen_" + cell] += 1
                if r["err"] != 0:
                    stats["absrel_refused_" + cell] += 1
                elif r["dr"]:
                    stats["absrel_relocated_" + cell] += 1
    sel = [(c, r) for c, r in zip(cases, results) if r["err"] == 0 and r["bytes"]]
    if not sel:
        return
    raws = [bytes.fromhex(r["bytes"]) for c, r in sel]
    # EncodingOptions::kOptimizeForSize: the documented r64 -> r32 rewrite is judged as the equivalent case (text and rule)
    for i, (c, r) in enumerate(sel):
        alt = xdec.optsize_alternative(c)
        if alt is not None and xdec.check(alt, byname, raws[i], mode)[0] == "ok":
            sel[i] = (alt, r)
            stats["optsize_rewrites_judged"] += 1
    texts = [x86text.render(c, forms[c["form"]]) for c, r in sel]
    lb = x86tools.llvm_assemble(texts, mode)
    o1 = x86tools.objdump(x86tools.layout(raws), mode)
    o2 = x86tools.objdump(x86tools.layout(lb), mode)
    l1 = x86tools.llvm_objdump(x86tools.layout(raws), mode)
    form_decodable = collections.Counter()
    pending_undec = []
    for i, (c, r) in enumerate(sel):
        raw = raws[i]
        line = G.case_line(c)
        stats["accepted"] += 1
        vclass = (c["form"], mode, c["variant"].split("-")[0])
        # (A) database rule
        v, d = xdec.check(c, byname, raw, mode)
        stats["xdec_" + v] += 1
        # (E) operands generated outside every form of the mnemonic
        reported_unenc = False
        if round11 and UNENCODABLE.match(c["variant"]):
            reported_unenc = not xdec.candidates(c, byname, mode)
            if not reported_unenc:
                stats["unenc_in_another_form"] += 1
            else:
                stats["unenc_accepted"] += 1
                kind = "imm-oob" if c["variant"].startswith("imm") else c["variant"]
                if kind == "bcst-illegal" and any(f.get("broadcast") for f in byname.get(c["name"], [])):
                    kind = "bcst-on-operand-without-broadcast"   # the mnemonic has a broadcast form, this signature / operand has not
                viol.append(("accepts-unencodable:%s:%s" % (kind, c["name"]),
                             "AsmJit accepts operands that no database form of %s can express (%s) and emits %s (objdump: `%s`); case: %s"
                             % (c["name"], {"imm-oob": "immediate outside the field", "bcst-wrong": "broadcast factor that does not match the vector length"}.get(kind, "broadcast on an operand that has none"),
                                raw.hex(), x86tools.decode_slot(o1[i], len(raw))[1], line), line))
        # (B)/(C) independent decoders
        ok1, t1 = x86tools.decode_slot(o1[i], len(raw))
        okl, tl = x86tools.decode_slot(l1[i], len(raw))
        obj_knows = "(bad)" not in t1 and t1 != ""
        llvm_knows = "<unknown>" not in tl and tl != ""
        dec = "none"
        if obj_knows and lb[i] is not None:
            ok2, t2 = x86tools.decode_slot(o2[i], len(lb[i]))
            if "(bad)" not in t2 and t2 != "":
                dec = "agree" if x86tools.canon(t1, mode) == x86tools.canon(t2, mode) else "disagree"
                if dec == "disagree":
                    viol.append((gap_class(c, byname, mode) or "dec-disagree:%s" % c["name"],
                                 "objdump reads AsmJit's bytes %s as `%s` but the same instruction assembled by llvm-mc from `%s` (%s) reads `%s`; case: %s"
                                 % (raw.hex(), t1, texts[i], lb[i].hex(), t2, line), line))
        stats["dec_" + dec] += 1
        if obj_knows and not ok1:
            stats["len_mismatch"] += 1
            viol.append(("length:objdump:%s" % c["name"], "objdump does not end an instruction at the %d bytes AsmJit appended (%s): `%s`; case: %s" % (len(raw), raw.hex(), t1, line), line))
        elif llvm_knows and not okl and not obj_knows:
            stats["len_mismatch"] += 1
            viol.append(("length:llvm:%s" % c["name"], "llvm-objdump does not end an instruction at the %d bytes AsmJit appended (%s): `%s`; case: %s" % (len(raw), raw.hex(), tl, line), line))
        if obj_knows or llvm_knows:
            form_decodable[c["form"]] += 1
        elif v != "ok" and not reported_unenc and not ("cbase" in c and r["dr"]):
            # (a relocated absolute operand has no database-rule verdict by design - C04 judges relocations - so a decoder
            # that refuses the bytes for another reason, e.g. vfcmaddcph with destination == source, proves nothing here)
            pending_undec.append((c, raw, line, v, d))
        if v == "mismatch" and dec == "agree" and c["opts"] & (G.OPT_MODMR | G.OPT_MODRM):
            # the direction options select the sibling opcode, whose database record may list the memory operand only
            # (F2 0F 11 /r movsd m64,xmm is a valid register form architecturally): the independent decoders are the judge
            stats["direction_option_judged_by_decoders_only"] += 1
        elif v == "mismatch":
            kind = "db-rule-vs-decoders" if dec == "agree" else "enc"
            key = "%s:%s:%s" % (kind, reason_class(d), c["name"])
            gap = gap_class(c, byname, mode)
            if gap:
                key = gap
            viol.append((key, "bytes %s violate the database encoding rule for %s: %s; decoders: %s (`%s`); case: %s" % (raw.hex(), c["name"], d, dec, t1, line), line))
        m = ABSREL.match(c["variant"])
        if m and not r["dr"]:
            cell = "%s_%s_%s" % (m.group(1), "base_" + m.group(2), "trailing_imm" if c.get("trail") else "no_imm")
            if v == "ok":
                enc = c.get("_absenc", "moffs")
                stats["absrel_judged_%s_%s" % (enc, cell)] += 1
        for dim in dims_of(c, forms[c["form"]]):
            stats["dim_acc_" + dim] += 1
            if v == "ok" or dec == "agree":
                stats["dim_judged_" + dim] += 1
        if v == "ok" or dec == "agree":
            stats["judged"] += 1
            nontrivial = any(op[0] == "M" for op in c["ops"]) or any(op[0] == "R" and op[2] >= 8 for op in c["ops"]) or \
                any(op[0] == "I" and op[1] not in (0, 1) for op in c["ops"]) or c["opts"] or c["extra"]
            if nontrivial:
                stats.setdefault("_distinct", set()).add(vclass)
        if len(samples) < 6 and v == "ok" and dec == "agree" and c["variant"] not in ("base",):
            samples.append({"case": line, "bytes": raw.hex(), "objdump": t1, "llvm_text": texts[i], "db_rule": d})
    # (D) neither decoder reads the bytes although both read other cases of the same form
    for c, raw, line, v, d in pending_undec:
        if form_decodable[c["form"]] >= 2:
            stats["undecodable"] += 1
            viol.append((gap_class(c, byname, mode) or "undecodable:%s" % c["variant"].split("-")[0],
                         "neither objdump nor LLVM can decode %s emitted for %s although both decode other cases of this form; db rule says: %s; case: %s" % (raw.hex(), c["name"], d, line), line))
        else:
            stats["no_decoder"] += 1


def _tuplify(c):
    """case dict read back from a replay file (JSON turned the operand tuples into lists)"""
    ops = []
    for op in c["ops"]:
        if op[0] == "M":
            m = dict(op[1])
            for k in ("base", "index"):
                if m[k]:
                    m[k] = tuple(m[k])
            ops.append(("M", m))
        else:
            ops.append(tuple(op))
    return dict(c, ops=ops, extra=tuple(c["extra"]) if c.get("extra") else None)


def generate(shard, nshards, seed, budget, deep, scale=1.0, ext=True):
    """the C01 workload of one shard (also driven by C13, which compares it with validation switched off)"""
    forms = isadb.x86_forms()
    rng = common.Rng(seed).fork("c01-%d" % shard)
    gen = G.Gen(rng, deep)
    gen.ext = ext
    gen.ext_fraction = min(1.0, scale)
    cases = []
    for fi, f in enumerate(forms):
        if fi % nshards != shard:
            continue
        for mode in G.modes_of(f):
            cases += gen.cases_for_form(f, mode, budget)
    return cases


def worker(arg):
    shard, nshards, seed, budget, deep, exe, replay_cases, scale = arg
    forms = isadb.x86_forms()
    byname = collections.defaultdict(list)
    for f in forms:
        byname[f["name"]].append(f)
    cases = replay_cases if replay_cases is not None else generate(shard, nshards, seed, budget, deep, scale)
    stats = collections.Counter()
    viol = []
    samples = []
    lines = [G.case_line(c) for c in cases]
    rc, out, err = _emit(exe, lines)
    rep = common.sanitizer_report(err)
    if rep or rc != 0:
        # attribute the report to one case by bisection
        lo, hi = 0, len(lines)
        while hi - lo > 1:
            mid = (lo + hi) // 2
            rc2, out2, err2 = _emit(exe, lines[lo:mid])
            if rc2 != 0 or common.sanitizer_report(err2):
                hi = mid
            else:
                lo = mid
        top = "?"
        if rep:
            top = next((fr for fr in rep["frames"] if "asmjit" in fr), rep["frames"][0] if rep["frames"] else "?").split("(")[0][:80]
        viol.append(("sanitizer:%s:%s" % ((rep or {"kind": "crash rc=%d" % rc})["kind"].split(" on ")[0][:50], top),
                     "sanitizer/crash while emitting: %s ; case: %s" % (rep, lines[lo]), lines[lo]))
        return dict(stats=dict(stats), viol=_attach(viol, cases), samples=samples, distinct=[], ncases=len(cases), forms=0, refused=0)
    results = [json.loads(l) for l in out.decode().splitlines()]
    if len(results) != len(cases):
        raise common.HarnessError("driver returned %d records for %d cases" % (len(results), len(cases)))
    forms_accepted = set()
    for c, r in zip(cases, results):
        for dim in dims_of(c, forms[c["form"]]):
            stats["dim_gen_" + dim] += 1
        if UNENCODABLE.match(c["variant"]):
            stats["unenc_generated"] += 1
            if r["err"] != 0:
                stats["unenc_refused"] += 1
        if r["err"] == 0:
            forms_accepted.add((c["form"], c["arch"]))
            if r["oneshot"] or r["h"]:
                viol.append(("state:success-leaves-state", "successful emit left one-shot state or called the error handler: %s" % G.case_line(c), G.case_line(c)))
        else:
            stats["refused"] += 1
            if r["bytes"] or r["dl"] or r["df"] or r["dr"]:
                viol.append(("state:failed-emit-appended", "refused emit appended bytes/labels/fixups: %s -> %s" % (G.case_line(c), r), G.case_line(c)))
    for mode in (64, 32):
        arch = "x64" if mode == 64 else "x86"
        idx = [i for i, c in enumerate(cases) if c["arch"] == arch]
        judge_mode([cases[i] for i in idx], [results[i] for i in idx], forms, byname, mode, stats, viol, samples, round11=True)
    distinct = list(stats.pop("_distinct", set()))
    return dict(stats=dict(stats), viol=_attach(viol[:4000], cases), samples=samples, distinct=distinct, ncases=len(cases),
                forms=len(forms_accepted), refused=stats.get("refused", 0))


def _attach(viol, cases):
    """(key, what, line) -> (key, what, line, case dict): the replay file stores the case itself"""
    by_line = {}
    for c in cases:
        by_line.setdefault(G.case_line(c), c)
    return [(k, w, l, by_line.get(l)) for k, w, l in viol]


def run(tier, args):
    chk = common.Check("C01", tier)
    exe = build.build_driver("drv_emit", "asan")
    isadb.x86_forms()
    if tier == "quick":
        budget, deep, nshards = max(2, int(12 * args.scale)), False, 16
    else:
        budget, deep, nshards = None, True, 64
    if args.replay:
        rp = json.load(open(args.replay))
        rcases = [_tuplify(c) for c in rp["case"].get("dicts") or []]
        if not rcases:
            raise common.HarnessError("replay file carries no case")
        for i, c in enumerate(rcases):
            c["id"] = i
        jobs = [(0, 1, chk.seed, None, False, exe, rcases, 1.0)]
    else:
        jobs = [(s, nshards, chk.seed, budget, deep, exe, None, args.scale) for s in range(nshards)]
    with multiprocessing.Pool(16) as pool:
        outs = pool.map(worker, jobs, chunksize=1)
    stats = collections.Counter()
    distinct = set()
    samples = []
    ncases = forms_accepted = 0
    byk = collections.OrderedDict()
    for o in outs:
        stats.update(o["stats"])
        distinct.update(tuple(x) for x in o["distinct"])
        samples += o["samples"][:1]
        ncases += o["ncases"]
        forms_accepted += o["forms"]
        for key, what, line, cd in o["viol"]:
            byk.setdefault(key, []).append((what, line, cd))
    for key, lst in byk.items():
        chk.violation(key, lst[0][0] + (" [+%d more cases of this class]" % (len(lst) - 1) if len(lst) > 1 else ""),
                      {"cases": [l for _, l, _ in lst[:20]], "dicts": [cd for _, _, cd in lst[:20] if cd]})
    dims = {d: {"generated": stats["dim_gen_" + d], "accepted": stats["dim_acc_" + d], "judged": stats["dim_judged_" + d]} for d in DIMS}
    unenc = {"generated": stats["unenc_generated"], "refused": stats["unenc_refused"],
             "accepted_as_another_form_and_judged": stats["unenc_in_another_form"], "accepted_unencodable": stats["unenc_accepted"]}
    absrel = {k[7:]: v for k, v in sorted(stats.items()) if k.startswith("absrel_")}
    if not args.replay and args.scale >= 0.5:
        # (a default-typed operand is turned into [rip+disp32] only when its address is no 32-bit value: never reachable from a low base)
        need = ["judged_riprel_%s_base_%s_%s" % (a, b, t) for a in ("rel", "default") for b in ("zero", "low", "high", "top") for t in ("trailing_imm", "no_imm")
                if not (a == "default" and b in ("zero", "low"))] + \
               ["judged_abs_%s_base_%s_%s" % (a, b, t) for a in ("abs", "default") for b in ("none", "zero", "high") for t in ("trailing_imm", "no_imm")]
        deadabs = [k for k in need if not absrel.get(k)]
        if deadabs:
            raise common.HarnessError("absolute-operand dimension: no case judged for %s" % ", ".join(deadabs[:6]))
        if not any(k.startswith("refused_rel_") for k in absrel):
            raise common.HarnessError("absolute-operand dimension: no out-of-reach rel operand was refused")
        dead = [d for d in DIMS if not dims[d]["judged"]]
        if dead:
            raise common.HarnessError("extended dimension(s) judged nothing: %s" % ", ".join(dead))
        if not unenc["generated"] or not (unenc["refused"] + unenc["accepted_as_another_form_and_judged"] + unenc["accepted_unencodable"]):
            raise common.HarnessError("no out-of-form immediate / broadcast probe was observed")
    chk.coverage.update({
        "evaluations": ncases,
        "distinct_nontrivial": len(distinct),
        "rule": "one evaluation = one emit() call generated from a database form; distinct = (form, mode, variant class); non-trivial = accepted, judged ok by the database-rule decoder or by the objdump/llvm-mc cross-check, and using a memory operand, an extended register, a non-trivial immediate, an option or a mask",
        "samples": samples[:6],
        "accepted": stats["accepted"], "refused": stats["refused"],
        "form_mode_pairs_accepted": forms_accepted,
        "database_rule_verdicts": {k[5:]: v for k, v in stats.items() if k.startswith("xdec_")},
        "decoder_cross_check_verdicts": {k[4:]: v for k, v in stats.items() if k.startswith("dec_")},
        "length_mismatches": stats["len_mismatch"], "undecodable": stats["undecodable"],
        "accepted_without_any_decoder": stats["no_decoder"],
        "judged_by_at_least_one_oracle": stats["judged"],
        "extended_dimensions": dims,
        "out_of_form_probes": unenc,
        "absolute_operand_x_address_type_x_code_base": absrel,
        "optimize_for_size_rewrites_judged_as_the_r32_instruction": stats["optsize_rewrites_judged"],
    })
    chk.assumptions += [
        "GNU objdump 2.40 and LLVM 14 as independent decoders/assembler; a form neither knows gets only the database-rule verdict",
        "vlib/xdec.py (our decoder) and vlib/x86text.py (our renderer) are trusted harness code; LLVM refusing our text is 'no verdict'",
        "UBSan shift-base check disabled: the tree relies on arithmetic shifts of negative values (defined since C++20, implemented so by gcc)",
        "rel8/rel32 operands reference a label bound immediately before the instruction; other label distances belong to C03",
        "a call that omits the implicit operands (mul rcx, jecxz L) is judged against every database form of the mnemonic that the explicit operands fit: which implicit register size is meant is not part of the input",
        "EncodingOptions::kOptimizeForSize: the documented mov/and r64,imm -> r32 rewrite is judged as the r32 instruction; kPredictedJumps: kTaken/kNotTaken on a conditional jump must give 3E/2E, and nothing anywhere else",
        "InstOptions::kX86_ModMR/kX86_ModRM cases whose bytes the database rule rejects but objdump and llvm-mc agree on are accepted (the sibling opcode's database record may list only the memory operand)",
    ]
    return chk.finish()
