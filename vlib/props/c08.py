"""C08 - Builder/Compiler serialization is byte-identical to direct assembling.

Runtime differential monitor. Seeded *scripts* (1..200 emitter calls: instructions drawn from the C01 / C02 case generators
with 0..6 operands, option bits, {k}/{z}/{er}/rep extra register, inline comments; new_label / bind; jumps, calls and
label memory operands forward and backward; align; embed; embed_data_array; embed_const_pool; ConstPoolNode;
embed_label; embed_label_delta; comment; section switches) are replayed by drv_equiv (ASan/UBSan build) into
  (a) an Assembler in script order,          (r) an Assembler in the node order predicted by vlib/scriptgen.Model,
  (b) a Builder + finalize(),                (c) a Compiler without functions + finalize(),
and - with an edit script (remove_node, remove_nodes, add_node, add_before, add_after, set_cursor, re-insertion, emitting
new calls in the middle, new_inst_node) - into a Builder/Compiler whose node list is edited before finalize(), against an
Assembler fed with the edited sequence. Every run owns a fresh CodeHolder with the same environment.
Oracle: sections (count, name, flags, alignment, order, bytes), labels (bound, section, offset), relocation entries,
unresolved fixups, first error code (+ everything produced before it), and the flattened / relocated image.

Dimensions added later (all picks from side streams, every one with a measured counter that must be non-zero):
  * JA calls: Compiler::emit_annotated_jump (JumpNode with its own operand/option/extra-reg storage) vs a plain jmp/br/b elsewhere;
  * kTaken / kNotTaken on every conditional-jump pool entry (scripts with EncodingOptions::kPredictedJumps get them for sure) and
    forced REX.B/X/R/W option bits on 64-bit forms;
  * labels the emitter under test did not create: CodeHolder::new_label_id / new_named_label_id, an idle second emitter on the
    same holder (LabelNode made on demand by label_node_of), BaseBuilder::new_label_node;
  * GC calls: Compiler::_new_const(kGlobal) + GlobalConstPoolPass vs [label+offset] and embed_const_pool after the last node;
  * edit scripts make 1/6 of the one-node calls by hand (new_inst_node + set_op + set_extra_reg + set_inline_comment, new_align_node,
    new_embed_data_node, new_comment_node, then add_node), on Builder and Compiler, all three architectures;
  * remove_node / remove_nodes of nodes that are not part of the list (nothing may change);
  * a refused call: the state after finalize() is compared in full with the node-order Assembler fed with the calls in front of it;
    "go on" replays (script flag F_CONTINUE) continue after the refusal on every emitter and compare everything again.
"""
import collections
import json
import multiprocessing
import os
import tempfile

from vlib import a64gen, build, common, isadb, scriptgen as SG

NODE_KINDS = {1: "inst", 2: "section", 3: "label", 4: "align", 5: "embed_data", 6: "embed_label", 7: "embed_label_delta",
              8: "const_pool", 9: "comment", 10: "sentinel", 15: "jump", 16: "func", 17: "func_ret", 18: "invoke"}

ASAN_ENV = {"ASAN_OPTIONS": common.SAN_ENV["ASAN_OPTIONS"] + ":malloc_fill_byte=190:max_malloc_fill_size=268435456"}


def _tmp():
    d = os.path.join(build.CACHE, "tmp")
    os.makedirs(d, exist_ok=True)
    return d


def _run_file(cmd_prefix, text, flag, env=None, timeout=1800):
    fd, path = tempfile.mkstemp(dir=_tmp(), suffix=".c08")
    try:
        with os.fdopen(fd, "w") as fh:
            fh.write(text)
        return common.run_child(cmd_prefix + [flag, path], timeout=timeout, env=env)
    finally:
        os.unlink(path)


# ----------------------------------------------------------------------------------------------------------------------
# instruction pools: every candidate is validated once by a throw-away validating Assembler (drv_emit / drv_emit_a64)
# ----------------------------------------------------------------------------------------------------------------------
def _accepted(exe, cands, what):
    if not cands:
        return []
    rc, out, err = _run_file([exe, "--api-validate", "1"], "\n".join(c["probe"] for c in cands) + "\n", "--cases")
    if rc != 0:
        # a crash of the probe driver is another property's business (C01/C02/C14): drop the pool half by half
        if len(cands) == 1:
            return [None]
        h = len(cands) // 2
        return _accepted(exe, cands[:h], what) + _accepted(exe, cands[h:], what)
    recs = [json.loads(l) for l in out.decode().splitlines()]
    if len(recs) != len(cands):
        raise common.HarnessError("%s probe returned %d records for %d cases" % (what, len(recs), len(cands)))
    # None = unusable (the name does not resolve to an instruction id: nothing a user could pass), True / False = accepted / refused
    return [None if not r.get("iid", r.get("inst", 1)) else (r["err"] == 0 and len(r["bytes"]) > 0) for r in recs]


def build_pools(rng, shard, nshards, exes, want_forms):
    pools = {}
    forms = list(isadb.x86_forms())
    order = list(range(len(forms)))
    rng.shuffle(order)
    mine = order[shard::nshards]
    while len(mine) < want_forms:
        mine.append(order[rng.below(len(order))])
    # the few forms with 5 and 6 operands go into every worker's pool (they are the only way to reach operands 4 and 5)
    mine += [i for i, f in enumerate(forms) if len(f["operands"]) >= 5 and i not in mine]
    # so do the indirect / direct jmp forms: the only instruction the Compiler's annotated-jump API (JumpNode) is meant for
    mine += [i for i, f in enumerate(forms) if f["name"] == "jmp" and i not in mine]
    sub = [forms[i] for i in mine]
    for arch, mode in (("x86", 32), ("x64", 64)):
        cands = SG.x86_pool_candidates(rng.fork("pool-" + arch), sub, mode, 5)
        pools[arch] = SG.Pool(cands, _accepted(exes["emit"], cands, arch))
    recs = isadb.a64_forms()
    order = list(range(len(recs)))
    rng.shuffle(order)
    mine = order[shard::nshards]
    while len(mine) < want_forms:
        mine.append(order[rng.below(len(order))])
    mine += [i for i, r in enumerate(recs) if r["name"] in ("br", "b") and i not in mine]
    a64gen.build_forms(recs)    # fills the module's write-back name table from the whole database
    cases, _ = a64gen.generate([recs[i] for i in sorted(set(mine))], rng.next() % (1 << 40), "quick", None, nrandom=3)
    cases = [c for c in cases if c["status"] != "bad" or rng.chance(1, 6)]
    cands = SG.a64_pool_candidates(rng.fork("pool-a64"), cases)
    pools["a64"] = SG.Pool(cands, _accepted(exes["emit_a64"], cands, "a64"))
    return pools


# ----------------------------------------------------------------------------------------------------------------------
# running scripts
# ----------------------------------------------------------------------------------------------------------------------
def san_key(rep, rc):
    if rc == 71 and not rep:
        return "hang:cpu-limit"
    if rep:
        top = next((fr for fr in rep["frames"] if "asmjit" in fr), rep["frames"][0] if rep["frames"] else "?").split("(")[0][:80]
        return "sanitizer:%s:%s" % (rep["kind"].split(" on ")[0].split(" 0x")[0][:60], top)
    return "crash:rc=%d" % rc


def run_scripts(exe, items, env=None):
    """items: list of (script, text). -> (records by sid, crashes [(key, what, sid)])"""
    recs = {}
    crashes = []
    todo = list(items)
    hangs = 0
    for _ in range(8):
        if not todo or hangs >= 3:
            break
        rc, out, err = _run_file([exe, "--cpu-limit", "10"], "".join(t for _, t in todo), "--scripts", env=env)
        hangs += 1 if rc == 71 else 0
        for l in out.decode("utf-8", "replace").splitlines():
            try:
                r = json.loads(l)
            except ValueError:
                continue
            recs[r["sid"]] = r
        rep = common.sanitizer_report(err)
        if rc == 0 and not rep:
            break
        last = None
        for l in err.decode("utf-8", "replace").splitlines():
            if l.startswith("@script "):
                last = l.split()[1]
        if last is None:
            raise common.HarnessError("driver failed before the first script: rc=%s %s" % (rc, err[-400:]))
        what = "sanitizer report" if rep else "10 s of CPU time used up (a script needs milliseconds): the library does not terminate" if rc == 71 else "crash"
        crashes.append((san_key(rep, rc), "%s while replaying script %s: %s" % (what, last, rep or ("exit code %d" % rc)), last))
        idx = next(i for i, (s, _) in enumerate(todo) if s["sid"] == last)
        todo = todo[idx + 1:]
    return recs, crashes


def has_key(exe, script, key):
    try:
        text = SG.render(script, script.get("allow_empty", False))
    except SG.Invalid:
        return False
    recs, crashes = run_scripts(exe, [(script, text)])
    if any(k == key for k, _, _ in crashes):
        return True
    r = recs.get(script["sid"])
    return bool(r) and any(v["key"] == key for v in r["viol"])


def minimize(exe, script, key, budget=160):
    """greedy delta debugging on edits, then calls, then flags; keeps the violation key"""
    best = dict(script)
    runs = [0]

    def attempt(cand):
        if runs[0] >= budget:
            return False
        runs[0] += 1
        return has_key(exe, cand, key)

    for field in ("edits", "calls"):
        n = len(best[field])
        chunk = max(1, n // 2)
        while chunk >= 1 and runs[0] < budget:
            i = 0
            while i < len(best[field]) and runs[0] < budget:
                cand = dict(best)
                cand[field] = best[field][:i] + best[field][i + chunk:]
                if field == "edits" and not cand["edits"] and best.get("edits"):
                    # without edits the edit phase disappears; only acceptable if the key is not an edit key
                    pass
                if len(cand[field]) < len(best[field]) and attempt(cand):
                    best = cand
                else:
                    i += chunk
            chunk //= 2
    for bit in (SG.F_CONTINUE, SG.F_LOGGER, SG.F_OPT_SIZE, SG.F_OPT_ALIGN, SG.F_PREDICTED, SG.F_BASE, SG.F_VALIDATE_INTERMEDIATE, SG.F_VALIDATE_ASM):
        if best["flags"] & bit:
            cand = dict(best)
            cand["flags"] = best["flags"] & ~bit
            if attempt(cand):
                best = cand
    if best["secs"]:
        cand = dict(best)
        used = max([c.get("sec", 0) for c in best["calls"] + best.get("calls2", [])] + [0])
        cand["secs"] = best["secs"][:used]
        if len(cand["secs"]) < len(best["secs"]) and attempt(cand):
            best = cand
    return best


def worker(arg):
    shard, nshards, seed, n_per_arch, exes, want_forms, probes = arg
    rng = common.Rng(seed).fork("c08-%d" % shard)
    pools = build_pools(rng.fork("pools"), shard, nshards, exes, want_forms)
    gen = SG.ScriptGen(rng.fork("scripts"), pools)
    st = collections.Counter()
    hashes = {}            # calls hash -> kinds mask measured by the driver
    edit_hashes = set()
    kinds_seen = 0
    kinds_compiler = 0
    viol = {}              # key -> (what, script, count)
    samples = []
    harness = []
    batch = 300
    for arch in ("x86", "x64", "a64"):
        p = pools[arch]
        st["pool_%s_valid" % arch] = len(p.plain) + len(p.jump)
        st["pool_%s_invalid" % arch] = len(p.invalid)
        if not p.plain:
            harness.append("empty instruction pool for " + arch)
            continue
        done = 0
        while done < n_per_arch:
            items = []
            for i in range(min(batch, n_per_arch - done)):
                s = gen.gen_script("%s-%d-%d" % (arch, shard, done + i), arch)
                try:
                    items.append((s, SG.render(s)))
                except SG.Invalid as e:
                    st["generator_rejects"] += 1
            done += batch
            recs, crashes = run_scripts(exes["equiv"], items)
            bysid = {s["sid"]: s for s, _ in items}
            for key, what, sid in crashes:
                st["sanitizer_reports"] += 1
                if key not in viol:
                    viol[key] = [what, bysid[sid], 0]
                viol[key][2] += 1
            for s, text in items:
                r = recs.get(s["sid"])
                if r is None:
                    st["not_run"] += 1
                    continue
                if "harness" in r:
                    harness.append("%s: %s" % (s["sid"], r["harness"]))
                    continue
                st["scripts"] += 1
                st["scripts_" + arch] += 1
                ncalls = sum(1 for c in s["calls"] if c["kind"] != "NL")
                st["calls"] += ncalls
                st["max_calls"] = max(st["max_calls"], ncalls)
                hinted = False
                for c in s["calls"] + s.get("calls2", []):
                    if c["kind"] == "I" and c.get("dim") == "hint":
                        hinted = True
                        st["x_jcc_with_taken_or_not_taken_hint"] += 1
                    elif c["kind"] == "I" and c.get("dim") == "rexbits":
                        st["x_inst_with_forced_rex_bits"] += 1
                    elif c["kind"] == "NL" and c.get("creator"):
                        st["x_labels_created_by_" + {1: "code_holder", 2: "another_emitter", 3: "new_label_node"}[c["creator"]]] += 1
                    elif c["kind"] == "JA":
                        st["x_annotated_jump_target_" + c["target"]] += 1
                        st["x_annotated_jumps_with_options_or_extra_reg"] += 1 if c.get("fancy") else 0
                if hinted and s["flags"] & SG.F_PREDICTED:
                    st["x_scripts_with_hinted_jcc_under_predicted_jumps"] += 1
                for c in s["calls"]:
                    st["call_" + c["kind"]] += 1
                    if c["kind"] == "I":
                        st["inst_ops>3"] += 1 if c.get("wide") else 0
                        st["inst_ops_%d" % c.get("nops", 0)] += 1
                        st["inst_with_options_or_extra_reg"] += 1 if c.get("fancy") else 0
                        st["inst_with_label_operand"] += 1 if c.get("uses") else 0
                        st["inst_with_inline_comment"] += 0 if c["text"].startswith("- ") else 1
                if s["secs"]:
                    st["multi_section_scripts"] += 1
                h = SG.calls_hash(s)
                hashes[h] = r["kinds"] & ~(1 << 2)
                kinds_seen |= r["kinds"] | r["kinds_edit"]
                kinds_compiler |= r.get("kinds_compiler", 0) | (r["kinds_edit"] if s["flags"] & SG.F_EDIT_COMPILER else 0)
                st["x_foreign_label_nodes"] += r.get("foreign", 0)
                st["x_global_const_calls"] += r.get("gc_calls", 0)
                st["x_global_const_pools_compared"] += r.get("gc_pools", 0)
                st["x_global_const_pools_compared_after_edits"] += r.get("gc_edit", 0)
                st["x_state_before_refused_call_compared"] += r.get("sbrc", 0)
                if r.get("go_on"):
                    st["x_go_on_" + {1: "judged", 2: "not_comparable_builder_reports_at_finalize", 3: "no_call_refused"}[r["go_on"]]] += 1
                    st["x_go_on_calls_replayed_after_a_refusal"] += r.get("go_on_after", 0)
                st["nodes"] += r["nodes"]
                if r["errR"]:
                    st["scripts_with_error"] += 1
                st["first_error_cases_compared"] += r["fec"]
                st["call_time_error_cases_compared"] += r["ctec"]
                st["ambiguous_multi_error_skipped"] += r["amb"]
                if r["edit"] == 1:
                    st["edit_scripts_judged"] += 1
                    st["edit_ops"] += len(s["edits"])
                    for e in s["edits"]:
                        st["edit_" + e[0]] += 1
                    edit_hashes.add(SG.edits_hash(s))
                    for k, v in s.get("sec_stats", {}).items():
                        st["secedit_" + k] += v
                    for k, v in s.get("xstats", {}).items():
                        st["xedit_" + k] += v
                    if s.get("sec_mode"):
                        st["secedit_section_centred_edit_scripts"] += 1
                    if len(s["secs"]) >= 2:
                        st["secedit_edit_scripts_with_3_or_4_sections"] += 1
                elif r["edit"] == 2:
                    st["edit_scripts_skipped_call_time_error"] += 1
                if r["log"] == 1:
                    st["logger_output_equal"] += 1
                elif r["log"] in (2, 3):
                    st["logger_output_differs" if r["log"] == 2 else "logger_output_differs_in_data_directives_only"] += 1
                    if "log_note" in r:
                        viol.setdefault("~note:log:" + r.get("log_class", "?")[:40], [r["log_note"][:600], s, 0])[2] += 1
                if r["raw_eq"] == 1:
                    st["script_order_equals_node_order_raw"] += 1
                elif r["raw_eq"] == 0:
                    st["script_order_differs_raw_but_final_image_equal"] += 1
                for v in r["viol"]:
                    if v["key"] not in viol:
                        viol[v["key"]] = [v["what"] + " [script %s]" % s["sid"], s, 0]
                    viol[v["key"]][2] += 1
                if not r["viol"] and len(samples) < 3 and 4 <= ncalls <= 9 and (not samples or s.get("edits")):
                    samples.append({"script": text.splitlines(), "result": {k: r[k] for k in ("errA", "errR", "errB", "errC", "edit", "nodes", "kinds")}})
    # probes for the side observations other checks made (isolated: one script per process)
    probe_out = []
    if probes:
        for name, s in SG.probe_scripts(pools):
            try:
                text = SG.render(s, s.get("allow_empty", False))
            except SG.Invalid as e:
                harness.append("probe %s: %s" % (name, e))
                continue
            recs, crashes = run_scripts(exes["equiv"], [(s, text)], env=ASAN_ENV)
            st["probe_scripts"] += 1
            for key, what, sid in crashes:
                probe_out.append(("probe:%s:%s" % (name.split(":")[0], key), what, s))
            r = recs.get(s["sid"])
            if r and "harness" in r:
                harness.append("probe %s: %s" % (name, r["harness"]))
            for v in (r or {}).get("viol", []):
                probe_out.append(("probe:%s:%s" % (name, v["key"]), v["what"], s))
    # shrink one witness per key
    out_viol = []
    shrunk = 0
    known = common.load_findings("C08")
    for key, (what, s, count) in viol.items():
        if key.startswith("~note"):
            out_viol.append((key, what, None, count))
            continue
        # shrinking costs driver runs: the first few classes of a worker get the full budget, a flood (mutated tree) does not
        if any(f.get("status") == "known" and common.key_matches(f["key"], key) for f in known):
            budget = 0      # already triaged: no need to pay for a minimal witness on every run
        else:
            shrunk += 1
            budget = 120 if shrunk <= 4 else 40 if shrunk <= 12 else 0
        small = minimize(exes["equiv"], s, key, budget=min(budget, 10) if key.startswith("hang") else budget)
        try:
            text = SG.render(small, small.get("allow_empty", False))
        except SG.Invalid:
            text = SG.render(s, s.get("allow_empty", False))
        out_viol.append((key, what, text, count))
    for key, what, s in probe_out:
        out_viol.append((key, what, SG.render(s, s.get("allow_empty", False)), 1))
    return dict(st=dict(st), hashes=hashes, edit_hashes=list(edit_hashes), kinds=kinds_seen, kinds_compiler=kinds_compiler, viol=out_viol, samples=samples,
                harness=harness[:20])


def replay(chk, exe, rp):
    text = rp["case"]["script"]
    if isinstance(text, list):
        text = "\n".join(text) + "\n"
    rc, out, err = _run_file([exe], text, "--scripts", env=ASAN_ENV)
    rep = common.sanitizer_report(err)
    n = 0
    if rep or rc != 0:
        chk.violation(san_key(rep, rc), "sanitizer report / crash on replay: %s" % (rep or rc), rp["case"])
    for l in out.decode().splitlines():
        r = json.loads(l)
        n += 1
        print(json.dumps(r, indent=1))
        for v in r["viol"]:
            chk.violation(v["key"], v["what"], rp["case"])
    chk.coverage.update({"evaluations": n, "distinct_nontrivial": 2 if n else 0, "rule": "replay of one recorded script"})
    return chk.finish()


def run(tier, args):
    chk = common.Check("C08", tier)
    exes = {"equiv": build.build_driver("drv_equiv", "asan"), "emit": build.build_driver("drv_emit", "asan"),
            "emit_a64": build.build_driver("drv_emit_a64", "asan")}
    if args.replay:
        return replay(chk, exes["equiv"], json.load(open(args.replay)))
    isadb.x86_forms()
    isadb.a64_forms()
    if tier == "quick":
        nshards, total, want_forms = 16, int(3000 * args.scale), 260
    else:
        nshards, total, want_forms = 64, int(100000 * args.scale), 200
    per = max(1, (total + nshards - 1) // nshards)
    jobs = [(s, nshards, chk.seed, per, exes, want_forms, s == 0) for s in range(nshards)]
    with multiprocessing.Pool(16) as pool:
        outs = pool.map(worker, jobs, chunksize=1)
    st = collections.Counter()
    hashes = {}
    edit_hashes = set()
    kinds = 0
    kinds_c = 0
    samples = []
    byk = collections.OrderedDict()
    harness = []
    for o in outs:
        for k, v in o["st"].items():
            if k == "max_calls":
                st[k] = max(st[k], v)
            else:
                st[k] += v
        hashes.update(o["hashes"])
        edit_hashes.update(o["edit_hashes"])
        kinds |= o["kinds"]
        kinds_c |= o["kinds_compiler"]
        samples += o["samples"][:1]
        harness += o["harness"]
        for key, what, text, count in o["viol"]:
            if key not in byk:
                byk[key] = [what, text, 0]
            byk[key][2] += count
    for key, (what, text, count) in byk.items():
        if key.startswith("~note"):
            chk.note("logger output of Builder/Compiler differs from the Assembler's in %d scripts, class %s (not part of the property, no verdict): %s" % (count, key[10:], what))
            continue
        chk.violation(key, what + (" [%d scripts of this class]" % count if count > 1 else ""), {"script": text.splitlines() if text else None})
    for h in harness[:5]:
        chk.note("harness: " + h)
    if harness and not st["scripts"]:
        raise common.HarnessError("no script could be judged: " + harness[0])
    if len(harness) > max(5, st["scripts"] // 200):
        raise common.HarnessError("%d scripts hit harness errors, first: %s" % (len(harness), harness[0]))
    nontrivial = sum(1 for m in hashes.values() if bin(m).count("1") >= 2)
    chk.coverage.update({
        "evaluations": st["scripts"],
        "distinct_nontrivial": nontrivial,
        "rule": "one evaluation = one script replayed into Assembler (script order), Assembler (node order), Builder+finalize, Compiler+finalize "
                "(and, with an edit script, edited Builder/Compiler vs Assembler on the edited sequence); distinct = sha1 of the phase-1 call lines; "
                "non-trivial = the Builder's node list (walked by the driver before finalize) held >= 2 node kinds besides the section node",
        "samples": samples[:3],
        "distinct_call_sequences": len(hashes),
        "distinct_edit_scripts": len(edit_hashes),
        "scripts_per_arch": {a: st["scripts_" + a] for a in ("x86", "x64", "a64")},
        "emitter_calls": st["calls"], "longest_script_calls": st["max_calls"], "builder_nodes_serialized": st["nodes"],
        "calls_by_kind": {k[5:]: v for k, v in sorted(st.items()) if k.startswith("call_") and k != "call_time_error_cases_compared"},
        "instructions_with_more_than_3_operands": st["inst_ops>3"],
        "instructions_by_operand_count": {str(n): st["inst_ops_%d" % n] for n in range(7)},
        "instructions_with_options_or_extra_reg": st["inst_with_options_or_extra_reg"],
        "instructions_with_label_operand": st["inst_with_label_operand"],
        "instructions_with_inline_comment": st["inst_with_inline_comment"],
        "multi_section_scripts": st["multi_section_scripts"],
        "node_kinds_seen": sorted(NODE_KINDS.get(i, "type%d" % i) for i in range(32) if (kinds | kinds_c) >> i & 1),
        "node_kinds_seen_in_compiler_lists": sorted(NODE_KINDS.get(i, "type%d" % i) for i in range(32) if kinds_c >> i & 1),
        "added_dimensions": {
            "annotated_jumps (Compiler::emit_annotated_jump -> JumpNode; plain instruction elsewhere)": {k[24:]: v for k, v in sorted(st.items()) if k.startswith("x_annotated_jump_target_")},
            "annotated_jumps_with_options_or_extra_reg": st["x_annotated_jumps_with_options_or_extra_reg"],
            "jcc_with_taken_or_not_taken_hint": st["x_jcc_with_taken_or_not_taken_hint"],
            "scripts_with_hinted_jcc_under_predicted_jumps": st["x_scripts_with_hinted_jcc_under_predicted_jumps"],
            "instructions_with_forced_rex_bits": st["x_inst_with_forced_rex_bits"],
            "labels_created_by_code_holder": st["x_labels_created_by_code_holder"],
            "labels_created_by_another_emitter": st["x_labels_created_by_another_emitter"],
            "labels_created_by_new_label_node": st["x_labels_created_by_new_label_node"],
            "label_nodes_made_on_demand (bind / embed_const_pool of such a label through Builder or Compiler)": st["x_foreign_label_nodes"],
            "global_const_calls (Compiler::_new_const(kGlobal))": st["x_global_const_calls"],
            "global_const_pools_compared": st["x_global_const_pools_compared"],
            "global_const_pools_compared_after_edits": st["x_global_const_pools_compared_after_edits"],
            "nodes_made_by_hand_in_edit_scripts": {k[24:]: v for k, v in sorted(st.items()) if k.startswith("xedit_node_made_by_hand_")},
            "removals_of_inactive_nodes": {k[34:]: v for k, v in sorted(st.items()) if k.startswith("xedit_removal_of_inactive_node_by_")},
            "state_before_refused_call_compared_with_node_order_assembler": st["x_state_before_refused_call_compared"],
            "go_on_after_refused_call": {"judged": st["x_go_on_judged"], "calls_replayed_after_a_refusal": st["x_go_on_calls_replayed_after_a_refusal"],
                                         "not_comparable_builder_reports_at_finalize": st["x_go_on_not_comparable_builder_reports_at_finalize"],
                                         "no_call_refused": st["x_go_on_no_call_refused"]},
        },
        "scripts_with_error": st["scripts_with_error"],
        "first_error_cases_compared": st["first_error_cases_compared"],
        "call_time_error_cases_compared": st["call_time_error_cases_compared"],
        "ambiguous_multi_error_skipped": st["ambiguous_multi_error_skipped"],
        "edit_scripts_judged": st["edit_scripts_judged"],
        "edit_scripts_skipped_call_time_error": st["edit_scripts_skipped_call_time_error"],
        "edit_ops_by_kind": {k[5:]: v for k, v in sorted(st.items()) if k.startswith("edit_") and not k.startswith("edit_scripts") and k not in ("edit_scripts_judged", "edit_scripts_skipped_call_time_error", "edit_ops")},
        "section_edits": {k[8:]: v for k, v in sorted(st.items()) if k.startswith("secedit_")},
        "logger_output": {"equal": st["logger_output_equal"], "differs_in_data_directives_only": st["logger_output_differs_in_data_directives_only"],
                          "differs_in_instruction_label_or_comment_lines": st["logger_output_differs"]},
        "script_order_vs_node_order": {"raw_state_equal": st["script_order_equals_node_order_raw"],
                                       "raw_differs_final_image_equal": st["script_order_differs_raw_but_final_image_equal"]},
        "instruction_pools": {a: {"valid": st["pool_%s_valid" % a], "invalid": st["pool_%s_invalid" % a]} for a in ("x86", "x64", "a64")},
        "sanitizer_reports": st["sanitizer_reports"], "generator_rejects": st["generator_rejects"], "probe_scripts": st["probe_scripts"],
        "exhaustive": False,
    })
    # every added dimension must have been observed (scaled-down debugging runs excepted)
    if args.scale >= 1 and st["scripts"]:
        need = {"jump node in a Compiler list": kinds_c >> 15 & 1,
                "hinted jcc under kPredictedJumps": st["x_scripts_with_hinted_jcc_under_predicted_jumps"],
                "instructions with forced REX bits": st["x_inst_with_forced_rex_bits"],
                "label nodes made on demand": st["x_foreign_label_nodes"],
                "global constant pools compared": st["x_global_const_pools_compared"],
                "global constant pools compared after edits": st["x_global_const_pools_compared_after_edits"],
                "InstNodes made by hand in edit scripts": st["xedit_node_made_by_hand_I"],
                "other nodes made by hand in edit scripts": st["xedit_node_made_by_hand_AL"] + st["xedit_node_made_by_hand_EM"] + st["xedit_node_made_by_hand_ED"] + st["xedit_node_made_by_hand_CM"],
                "removals of inactive nodes": st["xedit_removal_of_inactive_node_by_remove_node"] and st["xedit_removal_of_inactive_node_by_remove_nodes"],
                "state before a refused call compared": st["x_state_before_refused_call_compared"],
                "go-on replays judged": st["x_go_on_judged"]}
        missing = [k for k, v in need.items() if not v]
        if missing and not byk:
            raise common.HarnessError("added dimensions observed nothing: " + ", ".join(missing))
    chk.assumptions += [
        "vlib/scriptgen.Model (a Python list + cursor following the documented add_node / section / remove / add_before / add_after behaviour) is the trusted "
        "definition of 'the edited sequence'; the driver replays its node order into a fresh Assembler",
        "a Builder groups nodes by section, so with several sections the expected result is the Assembler fed in node order; the script-order Assembler is only "
        "required to agree on section sizes, label positions and the flattened+relocated image (an embed_label_delta may legitimately become a constant or a relocation)",
        "error rule: first error code equal and everything produced before it equal; a Builder call that fails at the call must fail with the same code at the same call in the Assembler",
        "logger text is compared but not judged (the property names contents, labels, relocations and errors only)",
        "instruction validity is pre-computed by drv_emit / drv_emit_a64 with kValidateAssembler; absolute branch targets are fixed addresses relative to the base address",
        "emit_annotated_jump(inst, target, annotation) on a Compiler without functions stands for emit(inst, target) on the other emitters; the annotation's label list has no effect on the code",
        "Compiler::_new_const(kGlobal, data) stands for a [label + offset] operand plus embed_const_pool(label, pool) after the last node of the list on the other emitters; "
        "the offsets are those asmjit's ConstPool hands out for the constants in call order (ConstPool itself is C19's subject)",
        "removing a node that is not part of the list leaves the list unchanged (the library's explicit early return); a label id obtained from the CodeHolder or from "
        "another emitter attached to it is as good as one obtained from the emitter under test",
        "go-on replays: a script with one deliberately invalid call is also replayed with every emitter continuing after the refusal, judged only when Builder/Compiler "
        "refuse the same calls with the same codes as the Assembler (a Builder that stores the offending instruction and fails in finalize() falls under the first-error rule)",
        "the new_inst_node probes run with ASan malloc_fill_byte=0xBE over whole allocations so that reads of never-initialised node memory give deterministic results",
    ]
    return chk.finish()
