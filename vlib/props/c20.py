"""C20 - formatter and logger text faithfully denotes the instruction and operands.

Runtime monitor: drv_format (ASan+UBSan build) emits the C01 x86 case stream and the C02 AArch64 case stream with a
StringLogger attached under several FormatFlags sets per case (quick: two complementary pairs per case, thorough: all
256), and calls Formatter::format_instruction / format_operand / format_node directly with physical and virtual
registers and anonymous / named / local labels. Oracles (vlib/fmttok.py):
  (1) our tokenizer of the produced line vs. the tokens a faithful line must contain, generated from the *case* with
      register-name tables written from the manuals (mnemonic, options, registers, memory size/segment/base/index/
      scale/displacement/broadcast, immediates, masks, {er/sae}, labels; order and multiplicity),
  (2) machine-code column == bytes appended (wildcards only over a pending label displacement),
  (3) x86: tokenised objdump line of the same bytes vs. the tokenised AsmJit line, for cases whose bytes satisfy the
      database encoding rule of the case (vlib/xdec.py) - an opinion that does not depend on our name tables.
Round 12: (4) the `{..|..}` explanation of an imm8 under kExplainImms against what the bits mean (fmttok.explain_expected: SDM
semantics, confirmed on the host CPU for the doubtful families), in the logger stream and in a Formatter sweep over many imm8 values
of every explainable instruction; (5) logger layout: inline comments (exact text, also longer than kMaxCommentSize), indentation
and padding of both columns on every case; (6) directives: bind / align / embed / embed_data_array (every TypeId incl. abstract
and vector types, `.repeat`) / embed_label / embed_label_delta / section / comment through the logging Assembler - the data lines
must denote exactly the bytes appended - and the same nodes through Formatter::format_node; (7) operand shapes: register-home
memory `[&v+8]`, label base with index `[L1+rax*4+8]`, `rep {ecx}`, label and virtual-register names of 40..1000 characters.
"""
import collections
import json
import multiprocessing
import os
import re
import tempfile

from vlib import a64gen, build, common, fmttok as F, isadb, x86gen, x86tools, xdec
from vlib.props import c01, c02

G = x86gen
ALL_FLAGS = [0x1, 0x8, 0x10, 0x20, 0x40, 0x100, 0x200, 0x400]
FLAG_NAMES = {0x1: "machine_code", 0x8: "show_aliases", 0x10: "explain_imms", 0x20: "hex_imms", 0x40: "hex_offsets",
              0x100: "reg_casts", 0x200: "positions", 0x400: "reg_type"}
FULL = 0x7FF & sum(ALL_FLAGS)
ALL256 = []
for _i in range(256):
    ALL256.append(sum(b for k, b in enumerate(ALL_FLAGS) if (_i >> k) & 1))

# manual mnemonic synonyms (decoder spellings) on top of the database alias groups
MANUAL_ALIASES = [("sal", "shl"), ("wait", "fwait"), ("repnz", "repne"), ("xlatb", "xlat")]


def flag_sets_for(rng, tier):
    if tier == "thorough":
        return ALL256
    a = ALL256[rng.below(256)]
    b = ALL256[rng.below(256)]
    return sorted(set([a, FULL ^ a, b, FULL ^ b]))


_alias_cache = {}


def alias_groups():
    """name -> set of names of its alias group, read from the ISA database (db/isa_x86.json `aliases`)"""
    if "g" in _alias_cache:
        return _alias_cache["g"]
    groups = {}
    try:
        txt = open(os.path.join(build.REPO, "db", "isa_x86.json")).read()
        for m in re.finditer(r'"(\w+)"\s*:\s*\{"aliases":\s*\[([^\]]*)\]', txt):
            names = [m.group(1)] + re.findall(r'"(\w+)"', m.group(2))
            s = set(names)
            for n in names:
                groups.setdefault(n, set()).update(s)
    except OSError:
        pass
    for a, b in MANUAL_ALIASES:
        s = groups.get(a, {a}) | groups.get(b, {b})
        for n in s:
            groups[n] = s
    _alias_cache["g"] = groups
    return groups


def alias_group(name):
    return alias_groups().get(name, {name})


def _run_driver(exe, lines):
    d = os.path.join(build.CACHE, "tmp")
    os.makedirs(d, exist_ok=True)
    fd, path = tempfile.mkstemp(dir=d, suffix=".c20")
    try:
        with os.fdopen(fd, "w") as fh:
            fh.write("\n".join(lines) + "\n")
        rc, out, err = common.run_child([exe, "--cases", path], timeout=3000)
    finally:
        os.unlink(path)
    return rc, out, err


def _sanitizer_violation(exe, lines, rc, err, tag):
    rep = common.sanitizer_report(err)
    heads = [l for l in lines if l.startswith("!")]
    body = [l for l in lines if not l.startswith("!")]
    lo, hi = 0, len(body)
    while hi - lo > 1:
        mid = (lo + hi) // 2
        rc2, out2, err2 = _run_driver(exe, heads + body[lo:mid])
        if rc2 != 0 or common.sanitizer_report(err2):
            hi = mid
        else:
            lo = mid
    top = "?"
    if rep:
        top = next((fr for fr in rep["frames"] if "asmjit" in fr), rep["frames"][0] if rep["frames"] else "?").split("(")[0][:80]
    kind = (rep or {"kind": "crash rc=%d" % rc})["kind"].split(" on ")[0][:50]
    return ("sanitizer:%s:%s" % (kind, top), "sanitizer/crash in drv_format (%s): %s ; case: %s" % (tag, rep, body[lo] if body else "-"),
            {"lines": heads + body[lo:lo + 1]})


def has_label_ref(c):
    for op in c["ops"]:
        if op[0] == "L":
            return True
        if op[0] == "M" and op[1]["base"] and op[1]["base"][0] == "label":
            return True
    return False


def op_token(op):
    """x86gen.op_token extended with virtual register ids (`v<k>`) and label keys"""
    if op[0] == "R":
        return "R:%s:%s" % (op[1], op[2])
    if op[0] == "I":
        return "I:%d" % op[1]
    if op[0] == "L":
        return "L:%s" % op[1]
    m = op[1]
    b = m["base"] or ("none", 0)
    i = m["index"] or ("none", 0)
    return "M:%d:%s:%s:%s:%s:%d:%d:%d:%d:%s%s" % (m["size"], b[0], b[1], i[0], i[1], m["shift"], m["disp"], m["seg"], m["bcst"], m["addr"], ":1" if m.get("home") else "")


def layout_for(cid):
    """logger layout of a case (a function of the case id only, so that every flag set of the case shares it):
    (indentation of code, padding of a regular line, padding of the machine-code column, inline comment 0 none | 1 short | 2 longer than
    Globals::kMaxCommentSize)"""
    h = (cid * 2654435761 + 0x9E3779B9) & 0xFFFFFFFF
    comment = 0 if h % 3 else (2 if (h >> 5) % 41 == 0 else 1)
    return ([0, 0, 2, 4, 9][(h >> 8) % 5], [0, 0, 20, 44, 60, 200][(h >> 12) % 6], [0, 0, 12, 30][(h >> 16) % 4], comment)


def lay_suffix(lay):
    return "@%d,%d,%d,%d" % tuple(lay) if lay else ""


_X86_ENUM_IDS = None


def x86_enum_ids():
    """mnemonic -> instruction id, read from the `enum Id` of asmjit/x86/x86globals.h (enumerator position = id, mnemonic from
    the generated `Instruction 'name'` comment). This is the C++ API a user writes (x86::Inst::kIdCrc32) and it does not pass
    through the packed name tables that inst_id_to_string()/string_to_inst_id() decode: an instruction is handed to the
    driver by this id, so a mnemonic the name tables print wrongly (or no longer resolve) is still emitted and its text
    judged against the case's name."""
    global _X86_ENUM_IDS
    if _X86_ENUM_IDS is None:
        ids, n, on = {}, 0, False
        for line in open(os.path.join(common.REPO, "asmjit", "x86", "x86globals.h")):
            if "${InstId:Begin}" in line:
                on = True
                continue
            if not on:
                continue
            m = re.match(r"\s*(_?kId\w+)\s*(=\s*0\s*)?,?\s*(//!<\s*Instruction '([^']+)')?", line)
            if not m or not m.group(1):
                continue
            if m.group(1) == "_kIdCount":
                break
            if m.group(4):
                ids.setdefault(m.group(4), n)
            n += 1
        _X86_ENUM_IDS = ids
    return _X86_ENUM_IDS



_A64_ENUM_IDS = None


def a64_line_by_id(line):
    """AArch64 twin of x86_enum_ids(): the mnemonic at the head of a drv_emit_a64-style line is replaced by `#<id>` taken from the
    `enum Id` of asmjit/arm/a64globals.h (the SIMD id of a two-id name when the line has a vector operand, like the driver's
    own rule), so that the instruction does not have to pass string_to_inst_id()."""
    global _A64_ENUM_IDS
    if _A64_ENUM_IDS is None:
        ids, n, on = {}, 0, False
        for l in open(os.path.join(common.REPO, "asmjit", "arm", "a64globals.h")):
            if "${InstId:Begin}" in l:
                on = True
                continue
            if not on:
                continue
            m = re.match(r"\s*(_?kId\w+)\s*(=\s*0\s*)?,?\s*(//!<\s*Instruction '([^']*)')?", l)
            if not m or not m.group(1):
                continue
            if m.group(1) == "_kIdCount":
                break
            if m.group(4):
                ids.setdefault(m.group(4), []).append(n)
            n += 1
        _A64_ENUM_IDS = ids
    head, _, rest = line.partition(" ")
    base, dot, cc = head.partition(".")
    got = _A64_ENUM_IDS.get(base)
    if not got or base.startswith("#"):
        return line
    iid = got[-1] if " V:" in " " + rest else got[0]
    return "#%d%s%s %s" % (iid, dot, cc, rest)

def driver_line(c, kind, flags):
    ex = "-" if not c["extra"] else "%s:%s" % tuple(c["extra"])
    kind = kind + lay_suffix(c.get("_lay"))
    name = c["name"]
    if c["arch"] in ("x86", "x64") and name in x86_enum_ids():
        name = "#%d" % x86_enum_ids()[name]
    return "%d %s %s %s %s %x %s %d %s" % (c["id"], kind, ",".join("%x" % f for f in flags), c["arch"], name, c["opts"], ex,
                                           len(c["ops"]), " ".join(op_token(o) for o in c["ops"]))


class Stats:
    def __init__(self):
        self.c = collections.Counter()
        self.flag_on = collections.Counter()
        self.flag_off = collections.Counter()
        self.distinct = set()
        self.samples = []
        self.viol = []      # (key, what, replay)

    def flags(self, ffs):
        for ff in ffs:
            for b in ALL_FLAGS:
                if ff & b:
                    self.flag_on[b] += 1
                else:
                    self.flag_off[b] += 1

    def export(self):
        return {"c": dict(self.c), "on": dict(self.flag_on), "off": dict(self.flag_off), "distinct": len(self.distinct),
                "samples": self.samples[:3], "viol": self.viol[:3000]}


# ---------------------------------------------------------------------------------------------------------------------
# x86: logger transcript of the C01 stream
# ---------------------------------------------------------------------------------------------------------------------

def judge_x86_case(c, rec, st, mode, replay, names_factory, kind="asm"):
    """primary oracle + machine-code column for one case (all flag sets). Returns the parsed AsmJit line of the first
    flag set without aliases (for the objdump cross-check) or None."""
    first_parsed = None
    line = driver_line(c, kind, [0])
    for r in rec["res"]:
        if r["err"] != 0:
            st.c["refused_emissions"] += len(r["ff"])
            continue
        raw = r["bytes"]
        if kind == "asm" and not raw:
            continue
        st.c["emissions_accepted"] += len(r["ff"])
        log = r["log"]
        lines = [l for l in log.split("\n") if l.strip()]
        if len(lines) != 1:
            st.viol.append(("x86:log-line-count", "emit produced %d log lines (%r) for: %s" % (len(lines), log[:200], line), replay))
            continue
        if kind == "asm":
            pos, text, mc, comment, indent = F.split_log_line(lines[0], bool(r["ff"][0] & 1))
            lay = c.get("_lay") or (0, 0, 0, 0)
            want_c = F.expected_comment(c["id"], lay[3])
            st.c["lines_with_inline_comment"] += len(r["ff"]) if want_c else 0
            st.c["lines_with_indentation_or_padding"] += len(r["ff"]) if any(lay[:3]) else 0
            if (comment if comment is not None else None) != want_c and not (comment is not None and want_c is not None and comment.rstrip() == want_c.rstrip()):
                st.viol.append(("x86:comment", "inline comment %r printed as %r in `%s` (layout %s, flags 0x%x); case: %s" %
                                ((want_c or "")[:60], (comment or "")[:60] if comment is not None else None, lines[0][:200], lay, r["ff"][0], line), replay))
            elif want_c:
                st.c["inline_comments_exact"] += len(r["ff"])
        else:
            pos, text, mc, comment = F.split_line(lines[0])
        parsed = F.parse_x86_text(text)
        st.c["lines_tokenised"] += 1
        groups = {}
        for ff in r["ff"]:
            groups.setdefault(ff & 0x519 if kind != "asm" else ff & 0x19, []).append(ff)
        for gk, ffs in groups.items():
            ff = ffs[0]
            names = names_factory(r)
            diffs = F.compare_x86_line(c, alias_group, parsed, names, ff, mode, raw_hex=raw if kind == "asm" else None)
            nov = [d for d in diffs if d[0] == "noverdict"]
            diffs = [d for d in diffs if d[0] != "noverdict"]
            if nov:
                st.c["no_expected_name"] += len(ffs)
            for field, msg in diffs:
                key = "x86:text:%s" % field
                if field == "mnemonic":
                    key += ":" + c["name"]
                if field == "explain":
                    key = "x86:explain:" + c["name"]
                st.viol.append((key, "%s; line `%s` (flags 0x%x) for case: %s" % (msg, text, ff, line), replay))
            if (ff & 0x10) and any(op[0] == "I" for op in c["ops"]):
                imm = [op[1] for op in c["ops"] if op[0] == "I"][-1]
                if F.explain_expected(c["name"], imm, F.explain_vec_size(c)) is not None:
                    st.c["imm_explanations_judged"] += len(ffs)
                    st.c["imm_explanations_judged:" + ("logger" if kind == "asm" else "formatter")] += len(ffs)
                elif any(o["kind"] == "imm" and o["deco"] for o in parsed["ops"]):
                    st.c["imm_explanations_not_judged"] += len(ffs)
            if not diffs and not nov:
                st.c["lines_judged_faithful"] += len(ffs)
                st.flags(ffs)
                for f2 in ffs:
                    st.distinct.add((c["form"], mode, f2))
            # positions are a node property: the logger must not print one
            if kind == "asm" and pos is not None:
                st.viol.append(("x86:text:position", "logger line carries a node position: `%s`" % lines[0], replay))
            # machine-code column
            if kind == "asm":
                if ff & 1:
                    if mc is None:
                        st.viol.append(("x86:machine-code:missing", "kMachineCode set, no column in `%s`; case: %s" % (lines[0], line), replay))
                    else:
                        st.c["machine_code_columns_checked"] += len(ffs)
                        msg = F.check_machine_code(mc, raw, bool(r["ln"]))
                        if "." in mc:
                            st.c["machine_code_wildcard_columns"] += len(ffs)
                        if msg:
                            st.viol.append(("x86:machine-code:mismatch", "%s: column `%s`, bytes %s; case: %s" % (msg, mc, raw, line), replay))
                elif mc is not None and mc:
                    msg = F.check_machine_code(mc, raw, bool(r["ln"]))
                    if msg:
                        st.viol.append(("x86:machine-code:mismatch", "%s: column `%s`, bytes %s; case: %s" % (msg, mc, raw, line), replay))
            if first_parsed is None and not (ff & 0x8):
                first_parsed = (parsed, text)
        if len(st.samples) < 3 and (r["ff"][0] & 1) and any(op[0] == "M" and op[1]["index"] and op[1]["disp"] < 0 for op in c["ops"]):
            st.samples.append({"case": line, "flags": ["0x%x" % f for f in r["ff"]], "line": lines[0], "bytes": raw})
    return first_parsed


def x86_worker(arg):
    shard, nshards, seed, budget, deep, exe, tier, only_ids = arg
    forms = isadb.x86_forms()
    byname = collections.defaultdict(list)
    for f in forms:
        byname[f["name"]].append(f)
    rng = common.Rng(seed).fork("c01-%d" % shard)       # the C01 stream itself
    gen = G.Gen(rng, deep)
    cases = []
    for fi, f in enumerate(forms):
        if fi % nshards != shard:
            continue
        for mode in G.modes_of(f):
            cases += gen.cases_for_form(f, mode, budget)
    # C20 additions: every relative-branch base case once more against a label that is not bound yet (wildcard column)
    extra = []
    for c in cases:
        if c["variant"] in ("base", "long") and any(op[0] == "L" for op in c["ops"]):
            ops = [("L", 1) if op[0] == "L" else op for op in c["ops"]]
            extra.append(dict(c, id=gen.next_id, ops=ops, variant=c["variant"] + "-unbound"))
            gen.next_id += 1
    # ... and every base case with a memory operand once more with `[unbound label + disp]` as the address: the machine-code
    # column then carries the `........` placeholder between the opcode bytes and a trailing immediate
    for c in cases:
        if c["variant"] not in ("base", "base-mem", "mem-b", "mem-bd8", "mem-bd32") or any(op[0] == "L" for op in c["ops"]):
            continue
        mi = [i for i, op in enumerate(c["ops"]) if op[0] == "M"]
        if len(mi) != 1:
            continue
        m = c["ops"][mi[0]][1]
        if not m["base"] or m["base"][0] not in ("gp32", "gp64") or m["index"] or m["seg"] or m["addr"] != "default":
            continue
        if m["base"][0] != ("gp64" if c["arch"] == "x64" else "gp32"):
            continue   # an address-size override has no label form
        ops = list(c["ops"])
        ops[mi[0]] = ("M", dict(m, base=("label", 1), disp=m["disp"] if -2**31 <= m["disp"] < 2**31 else 8))
        extra.append(dict(c, id=gen.next_id, ops=ops, variant=c["variant"] + "-label-unbound"))
        gen.next_id += 1
    cases += extra
    if only_ids is not None:
        cases = [c for c in cases if c["id"] in only_ids]
    frng = common.Rng(seed).fork("c20-flags-%d" % shard)
    st = Stats()
    lines = []
    for c in cases:
        c["_ff"] = flag_sets_for(frng, tier)
        c["_lay"] = layout_for(c["id"])
        lines.append(driver_line(c, "asm", c["_ff"]))
    if not lines:
        return st.export()
    rc, out, err = _run_driver(exe, lines)
    if rc != 0 or common.sanitizer_report(err):
        st.viol.append(_sanitizer_violation(exe, lines, rc, err, "x86 logger"))
        return st.export()
    recs = [json.loads(l) for l in out.decode().splitlines()]
    if len(recs) != len(cases):
        raise common.HarnessError("drv_format returned %d records for %d cases" % (len(recs), len(cases)))
    by_mode = {64: [], 32: []}
    for c, rec in zip(cases, recs):
        mode = 64 if c["arch"] == "x64" else 32
        st.c["cases"] += 1
        st.c["emissions"] += len(c["_ff"])
        if rec["parse"]:
            raise common.HarnessError("drv_format could not parse: " + driver_line(c, "asm", c["_ff"]))
        ok = [r for r in rec["res"] if r["err"] == 0 and r["bytes"]]
        if not ok:
            st.c["cases_refused"] += 1
            continue
        st.c["cases_accepted"] += 1
        replay = {"part": "x86", "shard": shard, "nshards": nshards, "budget": budget, "deep": deep, "ids": [c["id"]]}
        if len(set(r["bytes"] for r in ok)) > 1 and not has_label_ref(c):
            st.c["bytes_depend_on_format_flags"] += 1
        fp = judge_x86_case(c, rec, st, mode, replay, lambda r: F.Names(l0=r["l0"], ln=r["ln"]))
        if fp is not None:
            by_mode[mode].append((c, ok[0]["bytes"], fp, replay))
    # (3) objdump cross-check
    for mode, sel in by_mode.items():
        if not sel:
            continue
        raws = [bytes.fromhex(b) for _, b, _, _ in sel]
        slots = x86tools.objdump(x86tools.layout(raws), mode)
        for (c, hexb, (parsed, text), replay), raw, slot in zip(sel, raws, slots):
            ok_len, otext = x86tools.decode_slot(slot, len(raw))
            if not ok_len or not otext or "bad" in otext:
                st.c["objdump_no_verdict"] += 1
                continue
            if c["variant"].endswith(("wrong", "illegal", "oob")):
                # input the generator itself marks as unencodable; that the assembler took it is C01's finding, what the
                # bytes then mean says nothing about the text (the primary oracle still judged the line as a transcript)
                st.c["objdump_skipped_invalid_input_accepted"] += 1
                continue
            v, d = xdec.check(c, byname, raw, mode)
            if v != "ok" or c01.gap_class(c, byname, mode):
                st.c["objdump_skipped_encoding_not_confirmed"] += 1
                continue
            od = F.parse_x86_text(otext.split("#")[0].strip().lower())
            verdict, msgs = F.cross_compare(parsed, od, forms[c["form"]].get("implicit") or 0, mode)
            om = od["mnemonic"] or ""
            am = F.mnemonic_names(parsed["mnemonic"] or "")[0]
            if om == am or om in alias_group(am) or (om.startswith(am) and len(om) - len(am) <= 2):
                st.c["objdump_mnemonic_agrees"] += 1
            else:
                st.c["objdump_mnemonic_other_spelling"] += 1
            if verdict == "shape":
                st.c["objdump_other_operand_shape"] += 1
            elif verdict == "width":
                st.c["objdump_other_width_notation"] += 1
            elif verdict == "ok":
                st.c["objdump_operands_agree"] += 1
            else:
                st.c["objdump_operands_differ"] += 1
                st.viol.append(("x86:objdump:%s:%s" % (re.sub(r"`[^`]*`|vs objdump|\(.*", "", msgs[0]).strip().replace(" ", "-")[:30], c["name"]),
                                "AsmJit line `%s` vs objdump `%s` of the same bytes %s (encoding confirmed by the database rule): %s; case: %s"
                                % (text, otext, hexb, "; ".join(msgs), driver_line(c, "asm", [0])), replay))
    return st.export()


# ---------------------------------------------------------------------------------------------------------------------
# AArch64: logger transcript of the C02 stream
# ---------------------------------------------------------------------------------------------------------------------

def judge_a64(c, line, rec, st, replay, vnames=None, labels=None, kind="asm"):
    for r in rec["res"]:
        if r["err"] != 0 or (kind == "asm" and not r["bytes"]):
            st.c["refused_emissions"] += len(r["ff"])
            continue
        st.c["emissions_accepted"] += len(r["ff"])
        lines = [l for l in r["log"].split("\n") if l.strip()]
        if len(lines) != 1:
            st.viol.append(("a64:log-line-count", "emit produced %d log lines (%r) for: %s" % (len(lines), r["log"][:200], line), replay))
            continue
        if kind == "asm":
            pos, text, mc, comment, indent = F.split_log_line(lines[0], bool(r["ff"][0] & 1))
            lay = c.get("_lay") or (0, 0, 0, 0)
            want_c = F.expected_comment(c.get("_id", 0), lay[3])
            st.c["lines_with_inline_comment"] += len(r["ff"]) if want_c else 0
            st.c["lines_with_indentation_or_padding"] += len(r["ff"]) if any(lay[:3]) else 0
            if comment != want_c and not (comment is not None and want_c is not None and comment.rstrip() == want_c.rstrip()):
                st.viol.append(("a64:comment", "inline comment %r printed as %r in `%s` (layout %s, flags 0x%x); case: %s" %
                                ((want_c or "")[:60], comment[:60] if comment is not None else None, lines[0][:200], lay, r["ff"][0], line), replay))
            elif want_c:
                st.c["inline_comments_exact"] += len(r["ff"])
        else:
            pos, text, mc, comment = F.split_line(lines[0])
        atoms = F.a64_atoms(text)
        st.c["lines_tokenised"] += 1
        mn, exp = F.a64_expected(line, r["pc"], r["l0"], vnames, labels)
        if exp is None or not atoms:
            st.c["no_expected_name"] += len(r["ff"])
            continue
        got_mn = str(atoms[0])
        bad = False
        base_mn = mn.split(".")[0]
        if got_mn.lower() != mn.lower() and not (c02.UNSCALED.get(base_mn) == got_mn.lower() and " M:" in line):
            bad = True
            st.viol.append(("a64:text:mnemonic:%s" % mn.split(".")[0], "instruction %s printed as `%s` in `%s`; case: %s" % (mn, got_mn, text, line), replay))
        msg = F.a64_match(exp, atoms[1:])
        if msg:
            bad = True
            cls = "operands"
            if re.search(r"`[su]xt[bhwx]` printed", msg):
                cls = "mem-extend-dropped" if "MX:" in line else "extend"
            else:
                m3 = re.search(r"`([^`.]+)\.\w+(\[\d+\])?` printed as `([^`.]+)\.", msg)
                if m3 and m3.group(1) == m3.group(3):
                    cls = "vec-arrangement"
            st.viol.append(("a64:text:%s" % cls, "%s in `%s`; case: %s" % (msg, text, line), replay))
        if kind == "fb":
            want = int(r["ops"][0]) if r.get("ops") else None
            for ff in r["ff"]:
                if bool(ff & 0x200) != (pos is not None) or (pos is not None and pos != want):
                    bad = True
                    st.viol.append(("a64:text:position", "node position %s printed as `%s` (flags 0x%x)" % (want, lines[0], ff), replay))
                    break
        if not bad:
            st.c["lines_judged_faithful"] += len(r["ff"])
            st.flags(r["ff"])
            for ff in r["ff"]:
                st.distinct.add((c["rec"], "a64", ff))
        if kind == "asm":
            for ff in r["ff"]:
                if ff & 1:
                    if mc is None:
                        st.viol.append(("a64:machine-code:missing", "kMachineCode set, no column in `%s`" % lines[0], replay))
                    else:
                        st.c["machine_code_columns_checked"] += sum(1 for f2 in r["ff"] if f2 & 1)
                        m2 = F.check_machine_code(mc, r["bytes"], False)
                        if m2:
                            st.viol.append(("a64:machine-code:mismatch", "%s: column `%s`, bytes %s; case: %s" % (m2, mc, r["bytes"], line), replay))
                    break
        if len(st.samples) < 2 and (r["ff"][0] & 1) and "[" in text:
            st.samples.append({"case": line, "flags": ["0x%x" % f for f in r["ff"]], "line": lines[0], "bytes": r["bytes"]})


def a64_worker(arg):
    shard, exe, tier, seed, cases = arg
    st = Stats()
    frng = common.Rng(seed).fork("c20-a64-flags-%d" % shard)
    lines = []
    for i, c in cases:
        c["_ff"] = flag_sets_for(frng, tier)
        c["_lay"] = layout_for(i)
        c["_id"] = i
        lines.append("%d asm%s %s a64 %s" % (i, lay_suffix(c["_lay"]), ",".join("%x" % f for f in c["_ff"]), a64_line_by_id(c["line"])))
    if not lines:
        return st.export()
    rc, out, err = _run_driver(exe, lines)
    if rc != 0 or common.sanitizer_report(err):
        st.viol.append(_sanitizer_violation(exe, lines, rc, err, "a64 logger"))
        return st.export()
    recs = [json.loads(l) for l in out.decode().splitlines()]
    if len(recs) != len(cases):
        raise common.HarnessError("drv_format returned %d records for %d a64 cases" % (len(recs), len(cases)))
    for (i, c), rec in zip(cases, recs):
        st.c["cases"] += 1
        st.c["emissions"] += len(c["_ff"])
        if rec["parse"]:
            raise common.HarnessError("drv_format could not parse a64 case: " + c["line"])
        if not any(r["err"] == 0 and r["bytes"] for r in rec["res"]):
            st.c["cases_refused"] += 1
            continue
        st.c["cases_accepted"] += 1
        judge_a64(c, c["line"], rec, st, {"part": "a64", "indices": [i]})
    return st.export()


# ---------------------------------------------------------------------------------------------------------------------
# direct Formatter API: physical / virtual registers, anonymous / named / local labels, node positions
# ---------------------------------------------------------------------------------------------------------------------

X86_VREGS = []     # (k, rtype, name|None)
for _k, (_t, _n) in enumerate([("gp8lo", "byte_v"), ("gp8lo", None), ("gp16", "word_v"), ("gp16", None), ("gp32", "counter"), ("gp32", None),
                               ("gp64", "ptr"), ("gp64", None), ("xmm", "vec_a"), ("xmm", None), ("ymm", "acc"), ("ymm", None),
                               ("zmm", "wide"), ("zmm", None), ("k", "msk"), ("k", None), ("mm", "m64"), ("mm", None),
                               ("gp64", "a_rather_long_virtual_register_name_that_leaves_the_embedded_storage"), ("xmm", "vec_with_a_long_name_0123456789")]):
    X86_VREGS.append((_k, _t, _n))
X86_GROUP = {"gp8lo": "gp", "gp8hi": "gp", "gp16": "gp", "gp32": "gp", "gp64": "gp", "xmm": "vec", "ymm": "vec", "zmm": "vec", "k": "k", "mm": "mm"}
# (key kind, k, name, parent key)
LABELS = [("a", 0, None, None), ("a", 1, None, None), ("g", 2, "main", None), ("g", 3, "other_1", None), ("l", 4, "loop", "g2"),
          ("l", 5, "inner", "a0"), ("n", 6, "dbg", None), ("x", 7, "ext_fn", None), ("l", 8, "exit", "g3"),
          # names beyond the small-buffer paths: ArenaString's embedded storage, StringTmp<256> of an instruction line
          ("g", 9, "a_global_label_with_a_name_of_forty_chars", None), ("g", 10, "long_" + "n" * 300, None), ("l", 11, "local_of_a_long_parent_" + "m" * 40, "g10"),
          ("n", 12, "anonymous_but_named_at_some_length_0123456789", None)]
A64_VREGS = [(0, "x", "xptr"), (1, "x", None), (2, "w", "wcnt"), (3, "w", None), (4, "q", "qv"), (5, "q", None), (6, "d", "dv"), (7, "s", None),
             (8, "x", "another_long_virtual_register_name_64")]


def label_texts(ids, emitter_known=True):
    """documented notation: anonymous `L<id>`; anonymous with name `L<id>@name`; global/external `name`; local
    `<parent>.name` with the parent's own text. Without an emitter every label is `L<id>`."""
    out = {}
    for kind, k, name, parent in LABELS:
        key = "%s%d" % (kind, k)
        lid = ids[key]
        if not emitter_known or kind == "a":
            out[key] = "L%d" % lid
        elif kind == "n":
            out[key] = "L%d@%s" % (lid, name)
        elif kind == "l":
            pk = parent
            pkind = pk[0]
            pname = next(n for kd, kk, n, _ in LABELS if "%s%d" % (kd, kk) == pk)
            ptxt = pname if pkind != "a" else "L%d" % ids[pk]
            out[key] = "%s.%s" % (ptxt, name)
        else:
            out[key] = name
    return out


def virtualise_x86(c, rng, with_vregs):
    """operands of an accepted case with registers replaced by pool virtual registers and labels by pool labels"""
    def vreg(rtype):
        grp = X86_GROUP.get(rtype)
        if not with_vregs or grp is None or rng.chance(1, 4):
            return None
        cands = [k for k, t, n in X86_VREGS if X86_GROUP[t] == grp]
        return "v%d" % rng.choice(cands)
    ops = []
    for op in c["ops"]:
        if op[0] == "R":
            v = vreg(op[1])
            ops.append(("R", op[1], v if v is not None else op[2]))
        elif op[0] == "L":
            kind, k, _, _ = rng.choice(LABELS)
            ops.append(("L", "%s%d" % (kind, k)))
        elif op[0] == "M":
            m = dict(op[1])
            for f in ("base", "index"):
                if m[f] and m[f][0] in X86_GROUP:
                    v = vreg(m[f][0])
                    if v is not None:
                        m[f] = (m[f][0], v)
            if m["base"] and m["base"][0] in ("gp32", "gp64") and m["addr"] == "default" and rng.chance(1, 5):
                m["home"] = 1        # the home slot of the (virtual) base register: `[&v+8]`
            if m["base"] is None and m["index"] is None and rng.chance(1, 3):
                kind, k, _, _ = rng.choice(LABELS)
                m["base"] = ("label", "%s%d" % (kind, k))
                m["disp"] = rng.choice([0, 8, -8, 4096])
                m["addr"] = "default"
            ops.append(("M", m))
        else:
            ops.append(op)
    extra = c["extra"]
    if extra and with_vregs and rng.chance(1, 2):
        extra = ("k", "v%d" % rng.choice([k for k, t, n in X86_VREGS if t == "k"]))
    return dict(c, ops=ops, extra=extra)


def virtualise_a64(line, rng, with_vregs):
    parts = line.split()
    toks = []
    pool = {"x": [0, 1, 8], "w": [2, 3], "q": [4, 5], "d": [6], "s": [7]}

    def v(kind, cur):
        if not with_vregs or rng.chance(1, 4):
            return cur
        ks = pool.get(kind) or []
        if kind in ("x", "w"):
            ks = pool["x"] + pool["w"]
        if kind in ("b", "h"):
            ks = pool["q"]
        return "v%d" % rng.choice(ks) if ks else cur
    for t in parts[2:]:
        p = t.split(":")
        if p[0] == "G":
            p[2] = v(p[1], p[2])
        elif p[0] == "V":
            p[2] = v(p[1], p[2])
        elif p[0] == "M":
            p[1] = v("x", p[1])
        elif p[0] == "MX":
            p[1] = v("x", p[1])
            p[3] = v(p[2], p[3])
        elif p[0] == "L":
            kind, k, _, _ = rng.choice(LABELS)
            p = ["L", "%s%d" % (kind, k)]
        elif p[0] == "ML":
            kind, k, _, _ = rng.choice(LABELS)
            p = ["ML", p[1], "%s%d" % (kind, k)]
        elif p[0] in ("A", "AP", "MA"):
            return None
        toks.append(":".join(p))
    return " ".join(parts[:2] + toks)


def api_worker(arg):
    exe, tier, seed, scale, only_ids, shard, nshards = arg
    st = Stats()
    rng = common.Rng(seed).fork("c20-api")
    forms = isadb.x86_forms()
    n_x86 = int((1500 if tier == "quick" else 6000) * scale) or 20
    n_a64 = int((600 if tier == "quick" else 2400) * scale) or 20
    # source cases: a stride sample of the C01 stream (instantiated here; no emission needed for Formatter calls)
    gen = G.Gen(rng.fork("gen"), False)
    pool_cases = []
    stride = max(1, len(forms) * 2 // n_x86)
    for fi in range(rng.below(stride), len(forms), stride):
        f = forms[fi]
        for mode in G.modes_of(f):
            pool_cases += gen.cases_for_form(f, mode, 6)
    pool_cases = [c for c in pool_cases if not c["variant"].endswith(("oob", "illegal", "wrong"))]
    lines = []
    for k, t, n in X86_VREGS:
        lines.append("!vreg x64 %d %s %s" % (k, t, n or "-"))
    for k, t, n in A64_VREGS:
        lines.append("!vreg a64 %d %s %s" % (k, t, n or "-"))
    for arch in ("x86", "x64", "a64"):
        for grp in ("a", "c"):
            if grp == "c" and arch == "x86":
                continue
            for kind, k, name, parent in LABELS:
                lines.append("!label %s %s %d %s %s %s" % (arch, grp, k, kind, name or "-", parent or "-"))
    ndef = len(lines)
    jobs = []     # (id, kind, arch, case|line, flags)
    nid = 0
    rng.shuffle(pool_cases)
    for c in pool_cases[:n_x86]:
        for kind in ("fc", "fb", "fa", "fn"):
            if kind in ("fc", "fb") and c["arch"] != "x64":
                continue
            c2 = virtualise_x86(c, rng, kind in ("fc", "fb"))
            c2["id"] = nid
            ffs = flag_sets_for(rng, tier)
            jobs.append((nid, kind, c2["arch"], c2, ffs))
            lines.append(driver_line(c2, kind, ffs))
            nid += 1
    # every pool label as branch target and as memory base, under every emitter kind
    first_form = {}
    for f in forms:
        first_form.setdefault(f["name"], f["_idx"])
    for arch in ("x64", "x86"):
        areg = "gp64" if arch == "x64" else "gp32"
        for lkind, lk, _, _ in LABELS:
            key = "%s%d" % (lkind, lk)
            mem = dict(size=4, base=("label", key), index=None, shift=0, disp=8, seg=0, bcst=0, addr="default")
            tmpl = [("jmp", [("L", key)]), ("call", [("L", key)]), ("jz", [("L", key)]),
                    ("lea", [("R", areg, 3), ("M", dict(mem, size=0))]), ("mov", [("R", "gp32", 1), ("M", dict(mem, disp=-16))]),
                    # a label base WITH an index register: `[L1+rax*4+8]`, `[L1+rcx-16]`
                    ("mov", [("R", "gp32", 2), ("M", dict(mem, index=(areg, 0), shift=2))]),
                    ("lea", [("R", areg, 5), ("M", dict(mem, size=0, index=(areg, 1), shift=0, disp=-16))])]
            for name, ops in tmpl:
                for kind in ("fc", "fb", "fa", "fn"):
                    if kind in ("fc", "fb") and arch != "x64":
                        continue
                    c2 = dict(id=nid, arch=arch, form=first_form.get(name, 0), name=name, opts=0, extra=None, ops=ops, variant="label")
                    ffs = flag_sets_for(rng, tier)
                    jobs.append((nid, kind, arch, c2, ffs))
                    lines.append(driver_line(c2, kind, ffs))
                    nid += 1
    # kExplainImms: many imm8 values of every instruction whose immediate has a documented meaning (one form per name and vector width)
    seen = set()
    egen = G.Gen(rng.fork("explain"), False)
    fixed_imms = [0, 1, 2, 3, 4, 5, 6, 7, 8, 0x0F, 0x10, 0x1B, 0x55, 0x7F, 0x80, 0x81, 0xAA, 0xE4, 0xFF]
    for f in forms:
        if F.explain_expected(f["name"], 0, 16) is None:
            continue
        mode = G.modes_of(f)[-1]
        ops0 = egen.instantiate(f, mode, False)
        if ops0 is None or not any(op[0] == "I" for op in ops0):
            continue
        width = F.explain_vec_size({"ops": ops0})
        if (f["name"], width) in seen:
            continue
        seen.add((f["name"], width))
        last = max(i for i, op in enumerate(ops0) if op[0] == "I")
        imms = range(256) if tier == "thorough" else sorted(set(fixed_imms + [rng.below(256) for _ in range(14)]))
        for imm in imms:
            ops = [("I", imm) if i == last else op for i, op in enumerate(ops0)]
            c2 = dict(id=nid, arch="x64" if mode == 64 else "x86", form=f["_idx"], name=f["name"], opts=0, extra=None, ops=ops, variant="explain")
            ffs = [0x10, 0x30, 0x0] if tier == "quick" else [0x10, 0x30, 0x18, 0x0, 0x7FF & FULL]
            jobs.append((nid, "fa", c2["arch"], c2, ffs))
            lines.append(driver_line(c2, "fa", ffs))
            nid += 1
    # `rep {ecx}`: REP/REPNE string instructions with an explicit count register
    for f in forms:
        if f["name"] not in ("movs", "stos", "lods", "cmps", "scas", "ins", "outs"):
            continue
        for mode in G.modes_of(f):
            for c in egen.cases_for_form(f, mode, 4):
                if not c["opts"] & (G.OPT_REP | G.OPT_REPNE) or c["variant"].endswith(("oob", "illegal", "wrong")):
                    continue
                for et in (("gp64", 1) if mode == 64 else ("gp32", 1), ("gp32", 1), ("gp16", 1)):
                    for kind in ("fa", "fn", "fc"):
                        if kind == "fc" and c["arch"] != "x64":
                            continue
                        c2 = dict(c, id=nid, extra=et if kind != "fc" or rng.chance(1, 2) else (et[0], "v%d" % (6 if et[0] == "gp64" else 4 if et[0] == "gp32" else 2)), variant="rep-extra")
                        ffs = flag_sets_for(rng, tier)
                        jobs.append((nid, kind, c2["arch"], c2, ffs))
                        lines.append(driver_line(c2, kind, ffs))
                        nid += 1
    recs64 = isadb.a64_forms()
    first_rec = {}
    for r64 in recs64:
        first_rec.setdefault(r64["name"], r64["_idx"])
    for lkind, lk, _, _ in LABELS:
        key = "%s%d" % (lkind, lk)
        for l2 in ("b 1 L:%s" % key, "bl 1 L:%s" % key, "adr 2 G:x:3 L:%s" % key, "cbz 2 G:w:5 L:%s" % key, "b.2 1 L:%s" % key,
                   "ldr 2 G:x:7 ML:16:%s" % key, "ldr 2 G:w:v2 ML:0:%s" % key):
            for kind in ("fc", "fb", "fa", "fn"):
                if ":v" in l2 and kind not in ("fc", "fb"):
                    continue
                ffs = flag_sets_for(rng, tier)
                jobs.append((nid, kind, "a64", {"line": l2, "rec": first_rec.get(l2.split()[0].split(".")[0], 0)}, ffs))
                lines.append("%d %s %s a64 %s" % (nid, kind, ",".join("%x" % f for f in ffs), l2))
                nid += 1
    acases, _ = a64gen.generate(recs64, seed, "quick", None, nrandom=1)
    acases = [c for c in acases if c["status"] == "ok"]
    rng.shuffle(acases)
    for c in acases[:n_a64]:
        for kind in ("fc", "fb", "fa"):
            l2 = virtualise_a64(c["line"], rng, kind in ("fc", "fb"))
            if l2 is None:
                continue
            ffs = flag_sets_for(rng, tier)
            jobs.append((nid, kind, "a64", {"line": l2, "rec": c["rec"]}, ffs))
            lines.append("%d %s %s a64 %s" % (nid, kind, ",".join("%x" % f for f in ffs), l2))
            nid += 1
    if only_ids is not None:
        keep = set(only_ids)
    else:
        keep = set(j[0] for j in jobs if j[0] % nshards == shard)
    lines = lines[:ndef] + [l for l, j in zip(lines[ndef:], jobs) if j[0] in keep]
    jobs = [j for j in jobs if j[0] in keep]
    rc, out, err = _run_driver(exe, lines)
    if rc != 0 or common.sanitizer_report(err):
        st.viol.append(_sanitizer_violation(exe, lines, rc, err, "formatter api"))
        return st.export()
    recs = [json.loads(l) for l in out.decode().splitlines()]
    defs = [r for r in recs if "def" in r]
    recs = [r for r in recs if "def" not in r]
    if len(recs) != len(jobs) or len(defs) != ndef:
        raise common.HarnessError("drv_format (api) returned %d/%d records for %d/%d lines" % (len(recs), len(defs), len(jobs), ndef))
    vmap = {"x64": {}, "a64": {}}
    lab_ids = {}
    for d in defs:
        if d["def"] == "vreg":
            if d["err"] != 0:
                raise common.HarnessError("virtual register creation failed: %s" % d)
            src = X86_VREGS if d["arch"] == "x64" else A64_VREGS
            k, t, n = src[d["k"]]
            vmap[d["arch"]][k] = (t, n, d["index"])
        elif d["def"] == "label":
            if not d["valid"]:
                raise common.HarnessError("label creation failed: %s" % d)
            lab_ids.setdefault((d["arch"], d["grp"]), {})[d["key"]] = d["id"]
        else:
            raise common.HarnessError("bad directive record: %s" % d)
    for (nid, kind, arch, c, ffs), rec in zip(jobs, recs):
        st.c["api_calls"] += len(ffs)
        st.c["api_calls_" + kind] += len(ffs)
        st.c["emissions"] += len(ffs)
        replay = {"part": "api", "ids": [nid]}
        if rec["parse"]:
            raise common.HarnessError("drv_format could not parse api case %s %s" % (kind, c if arch == "a64" else driver_line(c, kind, ffs)))
        grp = "c" if kind in ("fc", "fb") else "a"
        labels = label_texts(lab_ids[(arch, grp)], emitter_known=(kind != "fn"))
        st.c["api_calls_" + ("a64" if arch == "a64" else "x86")] += len(ffs)
        txt = c["line"] if arch == "a64" else driver_line(c, kind, [0])
        st.c["api_virtual_register_operands"] += len(re.findall(r":v\d+", txt)) * len(ffs)
        if arch != "a64":
            st.c["api_reg_home_operands"] += sum(1 for op in c["ops"] if op[0] == "M" and op[1].get("home")) * len(ffs)
            st.c["api_label_base_with_index_operands"] += sum(1 for op in c["ops"] if op[0] == "M" and op[1]["base"] and op[1]["base"][0] == "label" and op[1]["index"]) * len(ffs)
            st.c["api_rep_count_register_cases"] += len(ffs) if c.get("variant") == "rep-extra" else 0
            st.c["api_explain_sweep_cases"] += len(ffs) if c.get("variant") == "explain" else 0
        st.c["api_long_name_operands"] += len(re.findall(r"[L:](?:g9|g10|l11|n12)\b|:v(?:18|19)\b" if arch != "a64" else r"[L:](?:g9|g10|l11|n12)\b|:v8\b", txt if arch == "a64" else txt.split(" ", 4)[-1])) * len(ffs)
        for lk, what in (("a", "anonymous"), ("g", "named_global"), ("l", "local_with_parent"), ("n", "anonymous_with_name"), ("x", "external")):
            st.c["api_label_operands_" + what] += len(re.findall(r"[L:]%s\d+\b" % lk, txt if arch == "a64" else txt.split(" ", 4)[-1])) * len(ffs)
        if arch == "a64":
            before = len(st.viol)
            judge_a64(c, c["line"], rec, st, replay, vnames=vmap["a64"], labels=labels, kind=kind)
            if len(st.viol) == before:
                st.c["api_calls_judged"] += sum(len(r["ff"]) for r in rec["res"] if r["err"] == 0)
            continue
        mode = 64 if arch == "x64" else 32
        vregs = vmap["x64"] if grp == "c" else {}
        before = len(st.viol)
        for r in rec["res"]:
            if r["err"] != 0:
                st.c["api_calls_refused_" + kind] += len(r["ff"])
        ok = [r for r in rec["res"] if r["err"] == 0]
        if not ok:
            continue
        judge_x86_case(c, {"res": ok}, st, mode, replay, lambda r: F.Names(vregs=vregs, labels=labels), kind=kind)
        for r in ok:
            ff = r["ff"][0]
            pos, text, mc, comment = F.split_line(r["log"])
            if kind == "fb":
                want = int(r["ops"][0])
                for f2 in r["ff"]:
                    if bool(f2 & 0x200) != (pos is not None) or (pos is not None and pos != want):
                        st.viol.append(("x86:text:position", "node position %d printed as `%s` (flags 0x%x)" % (want, r["log"], f2), replay))
                        break
                continue
            # format_operand on every operand
            names = F.Names(vregs=vregs, labels=labels)
            for exp, txt in zip(c["ops"], r.get("ops") or []):
                got = F.parse_x86_operand(txt)
                st.c["format_operand_calls"] += len(r["ff"])
                for gk in sorted(set(f2 & 0x500 for f2 in r["ff"])):
                    for field, msg in F.compare_x86_operand(exp, got, names, gk, mode, in_instruction=False):
                        if field != "noverdict":
                            st.viol.append(("x86:format_operand:%s" % field, "%s; format_operand -> `%s` (flags 0x%x)" % (msg, txt, gk), replay))
        if len(st.viol) == before:
            st.c["api_calls_judged"] += sum(len(r["ff"]) for r in ok)
            if len(st.samples) < 3 and kind in ("fc", "fb") and any(isinstance(op[2], str) for op in c["ops"] if op[0] == "R"):
                st.samples.append({"api": kind, "case": driver_line(c, kind, ok[0]["ff"]), "text": ok[0]["log"]})
    return st.export()


# ---------------------------------------------------------------------------------------------------------------------
# directives: what the logger writes for bind / align / embed / embed_data_array / embed_label / embed_label_delta / section /
# comment (the log is a transcript of the code buffer: data bytes included), and Formatter::format_node for the same nodes
# ---------------------------------------------------------------------------------------------------------------------

DIR_TYPES = sorted(F.TYPE_SIZE) + [32, 33]
NAME_LENGTHS = [3, 7, 12, 40, 300, 1000]       # beyond ArenaString's embedded storage, beyond StringTmp<256> / <512> of the log lines


def gen_dir_cases(rng, n, tier):
    cases = []
    for i in range(n):
        arch = rng.choice(["x64", "x64", "x86", "a64"])
        kind = "dirn" if rng.chance(1, 3) else "dir"
        what = rng.choice(["bind", "bind", "align", "embed", "data", "data", "data", "elabel", "edelta", "section", "comment"])
        c = dict(id=i, arch=arch, kind=kind, what=what)
        if what == "bind":
            c["lk"] = rng.choice(["a", "n", "g", "l"])
            ln = rng.choice(NAME_LENGTHS)
            c["name"] = ("nm%d_" % i + "x" * ln)[:max(ln, 6)]
            c["args"] = "%s %s" % (c["lk"], c["name"])
        elif what == "align":
            c["mode"], c["n"] = rng.below(3), rng.choice([1, 2, 4, 8, 16, 32, 64])
            c["args"] = "%d %d" % (c["mode"], c["n"])
        elif what == "embed":
            c["n"] = rng.choice([1, 2, 3, 4, 5, 7, 8, 16, 31, 64, 200]) * (4 if arch == "a64" else 1)
            c["args"] = "%d %d" % (c["n"], rng.below(1 << 30))
        elif what == "data":
            c["type"], c["count"], c["rep"] = rng.choice(DIR_TYPES), 1 + rng.below(5), rng.choice([1, 1, 2, 3, 4])
            c["args"] = "%d %d %d %d" % (c["type"], c["count"], c["rep"], rng.below(1 << 30))
        elif what == "elabel":
            c["size"], c["bound"] = rng.choice([0, 4, 8, 8, 2, 1]), rng.below(2)
            c["args"] = "%d %d" % (c["size"], c["bound"])
        elif what == "edelta":
            c["size"], c["b1"], c["b2"] = rng.choice([0, 4, 4, 8, 2, 1]), rng.below(2), rng.below(2)
            c["args"] = "%d %d %d" % (c["size"], c["b1"], c["b2"])
        elif what == "section":
            c["name"] = ".s%d" % i
            c["args"] = c["name"]
        else:
            c["text"] = "note_%d_%s" % (i, "y" * rng.choice([0, 5, 40, 300]))
            c["args"] = c["text"]
        c["_lay"] = layout_for(i)
        c["_ff"] = flag_sets_for(rng, "quick")[:2] if tier == "quick" else flag_sets_for(rng, "quick")
        cases.append(c)
    return cases


def dir_line(c):
    return "%d %s%s %s %s %s %s" % (c["id"], c["kind"], lay_suffix(c["_lay"]), ",".join("%x" % f for f in c["_ff"]), c["arch"], c["what"], c["args"])


def judge_dir(c, rec, st):
    fam = "a64" if c["arch"] == "a64" else "x86"
    regsize = 4 if c["arch"] == "x86" else 8
    line = dir_line(c)
    replay = {"part": "lines", "lines": [line]}
    nodes = c["kind"] == "dirn"
    what = c["what"]

    def bad(field, msg, r):
        st.viol.append(("%s:%s:%s" % ("node" if nodes else "log", what, field), "%s; text %r (flags 0x%x, bytes %s); case: %s" % (msg, r["log"][:300], r["ff"][0], r["bytes"][:80], line), replay))

    for r in rec["res"]:
        ff = r["ff"][0]
        st.c["dir_calls"] += 1
        st.c["dir_calls_%s" % c["kind"]] += 1
        if r["err"] != 0:
            st.c["dir_refused:" + what] += 1
            if what == "align" and fam == "a64" and c["mode"] == 0:
                continue        # documented: code alignment at an offset that is not a multiple of the instruction size is refused
            if what in ("bind", "align", "embed", "section", "comment") or (what == "data" and c["type"] != 44):
                bad("refused", "valid directive refused with error %d" % r["err"], r)
            continue
        lines = [l for l in r["log"].split("\n") if l.strip()]
        raw = bytes.fromhex(r["bytes"])
        before = len(st.viol)
        lay = c["_lay"]
        tclass = ""
        if what == "data":
            tclass = ":abstract-type" if c["type"] in (32, 33) else ":vector-type" if F.type_size(c["type"], regsize) > 8 else ""
        if nodes and tclass and len(lines) == 1 and not re.match(r"^\s*\.\w", lines[0]):
            bad("text" + tclass, "EmbedDataNode of TypeId %d printed without a data directive: %r" % (c["type"], lines), r)
            continue
        if nodes and what != "comment" and len(lines) == 1:
            # the node's own inline comment: `<text><padding>; <comment>` (not cut: kMaxCommentSize is the logger's limit)
            full = F.expected_comment(c["id"], lay[3], clamp=False)
            if full:
                if not lines[0].endswith("; " + full):
                    bad("comment", "node comment %r printed as %r" % (full[:40], lines[0][-60:]), r)
                else:
                    lines[0] = lines[0][:-len("; " + full)].rstrip()
                    st.c["inline_comments_exact"] += 1
            elif ";" in lines[0]:
                bad("comment", "a comment column although the node has no comment", r)
        if what == "align":
            if not nodes:
                if fam == "x86" and c["n"] > 1 and len(raw) != (-r["off0"]) % c["n"]:
                    bad("bytes", "align %d at offset %d appended %d bytes" % (c["n"], r["off0"], len(raw)), r)
                if raw or lines:
                    m = re.match(r"^\s*\.?align\s+(\d+)\b", lines[0]) if len(lines) == 1 else None
                    if not m or int(m.group(1)) != c["n"]:
                        bad("text", "alignment %d logged as %r" % (c["n"], lines), r)
            else:
                m = re.match(r"^\s*\.?align\s+(\d+)\s*\((\w+)\)", lines[0]) if len(lines) == 1 else None
                if not m or int(m.group(1)) != c["n"] or (c["mode"] < 2 and m.group(2) != ("code" if c["mode"] == 0 else "data")):
                    bad("text", "AlignNode(mode %d, %d) printed as %r" % (c["mode"], c["n"], lines), r)
        elif what in ("embed", "data"):
            if what == "embed":
                tsize, count, rep = 1, c["n"], 1
            else:
                tsize, count, rep = F.type_size(c["type"], regsize), c["count"], c["rep"]
            if not nodes:
                if len(raw) != tsize * count * rep:
                    bad("bytes", "%d items of %d bytes repeated %d times appended %d bytes" % (count, tsize, rep, len(raw)), r)
                elif len(lines) != 1:
                    bad("line-count" + tclass, "%d bytes appended, %d log lines" % (len(raw), len(lines)), r)
                else:
                    denoted, why = F.data_line_bytes(F.split_log_line(lines[0], False)[1] if ";" not in lines[0] else lines[0].split(";")[0], fam)
                    if denoted is None:
                        bad("text", why, r)
                    elif denoted != raw:
                        bad("text", "the line denotes %s, appended were %s" % (denoted.hex()[:64], raw.hex()[:64]), r)
                    else:
                        st.c["data_bytes_transcribed"] += len(raw)
            else:
                m = re.match(r"^\s*\.(\w+)\s*\{Count=(\d+) Repeat=(\d+) TotalSize=(\d+)\}", lines[0]) if len(lines) == 1 else None
                kw = F.DATA_KW[fam].get(m.group(1)) if m else None
                # the directive names the item width (items wider than 8 bytes / of odd width are shown in smaller units, like the logger does)
                kw_ok = kw == tsize if tsize in (1, 2, 4, 8) else (kw is not None and tsize % kw == 0)
                if not m or not kw_ok or int(m.group(2)) != count or int(m.group(3)) != rep or int(m.group(4)) not in (count * tsize, count * tsize * rep):
                    bad("text" + tclass, "EmbedDataNode(%d-byte type, %d items, repeat %d) printed as %r" % (tsize, count, rep, lines), r)
        elif what == "bind":
            lid = r["lab"][0]
            want = F.label_text(c["lk"], lid, "%s_%d_%d" % (c["name"], c["id"], rec["res"].index(r)), "p_%s_%d_%d" % (c["name"], c["id"], rec["res"].index(r)))
            if len(lines) != 1:
                bad("line-count", "%d lines" % len(lines), r)
            else:
                if nodes:
                    text, comment, mc = lines[0], None, None
                else:
                    pos, text, mc, comment, indent = F.split_log_line(lines[0], bool(ff & 1))
                if text.strip() != want + ":":
                    bad("name", "label %s printed as %r" % (want[:80], text.strip()[:120]), r)
                want_c = F.expected_comment(c["id"], lay[3]) if not nodes else None
                if (comment.rstrip() if comment is not None else None) != (want_c.rstrip() if want_c else None):
                    bad("comment", "inline comment %r printed as %r" % ((want_c or "")[:40], (comment or "")[:40] if comment is not None else None), r)
                elif want_c:
                    st.c["inline_comments_exact"] += 1
                if mc:
                    bad("machine-code", "a label line carries machine code `%s`" % mc[:40], r)
                st.c["label_name_chars_judged"] += len(want)
        elif what in ("elabel", "edelta"):
            size = c["size"] or regsize
            names = ["L%d" % x for x in r["lab"]]
            if what == "elabel":
                pat = r"^\s*\.(\w+)\s+(\S+)\s*$" if not nodes else r"^\s*\.(label)\s+(\S+)\s*$"
            else:
                pat = r"^\s*\.(\w+)\s+\(\s*(\S+)\s+-\s+(\S+)\s*\)\s*$" if not nodes else r"^\s*\.(label)\s+\(\s*(\S+)\s+-\s+(\S+)\s*\)\s*$"
            m = re.match(pat, lines[0]) if len(lines) == 1 else None
            if not m:
                bad("text", "printed as %r" % lines, r)
            else:
                if list(m.groups()[1:]) != names:
                    bad("label", "labels %s printed as %s" % (names, list(m.groups()[1:])), r)
                if not nodes and F.DATA_KW[fam].get(m.group(1)) != size:
                    bad("size", "a %d-byte item printed as `.%s`" % (size, m.group(1)), r)
            if not nodes:
                want_b = bytes(size)
                if what == "edelta" and c["b1"] and c["b2"]:
                    want_b = (8).to_bytes(size, "little")
                if raw != want_b:
                    bad("bytes", "appended %s, expected %s" % (raw.hex(), want_b.hex()), r)
        elif what == "section":
            nm = ("%s_%d_%d" % (c["name"], c["id"], rec["res"].index(r)))[:30]
            m = re.match(r"^\s*\.section\s+(\S+)(?:\s+\{#(\d+)\})?\s*$", lines[0]) if len(lines) == 1 else None
            if not m or m.group(1) != nm or (m.group(2) is not None and int(m.group(2)) != r["lab"][0]) or (not nodes and m.group(2) is None):
                bad("text", "section %s (#%s) printed as %r" % (nm, r["lab"][:1], lines), r)
        elif what == "comment":
            want = c["text"] if not nodes else "; " + c["text"]
            if len(lines) != 1 or lines[0].strip() != want:
                bad("text", "comment %r printed as %r" % (want[:60], [l[:80] for l in lines]), r)
        if len(st.viol) == before:
            st.c["dir_lines_judged"] += 1
            st.c["dir_lines_judged:" + what] += 1
            st.distinct.add((c["kind"], c["arch"], what, ff & 1, c.get("lk"), c.get("type"), c.get("size"), len(c.get("name", "")) > 100))
            if len(st.samples) < 2 and what == "data" and not nodes:
                st.samples.append({"directive": line, "log": r["log"], "bytes": r["bytes"]})


def dir_worker(arg):
    exe, tier, seed, scale, only = arg
    st = Stats()
    rng = common.Rng(seed).fork("c20-dir")
    cases = gen_dir_cases(rng, max(40, int((2400 if tier == "quick" else 20000) * scale)), tier)
    if only is not None:
        cases = [c for c in cases if c["id"] in only]
    lines = [dir_line(c) for c in cases]
    rc, out, err = _run_driver(exe, lines)
    if rc != 0 or common.sanitizer_report(err):
        st.viol.append(_sanitizer_violation(exe, lines, rc, err, "directives"))
        return st.export()
    recs = [json.loads(l) for l in out.decode().splitlines()]
    if len(recs) != len(cases):
        raise common.HarnessError("drv_format returned %d records for %d directive lines" % (len(recs), len(cases)))
    for c, rec in zip(cases, recs):
        if rec["parse"]:
            raise common.HarnessError("drv_format could not parse: " + dir_line(c))
        st.c["emissions"] += len(rec["res"])
        judge_dir(c, rec, st)
    return st.export()


def _dir_entry(a):
    return ("dir", dir_worker(a))


# ---------------------------------------------------------------------------------------------------------------------

def _x86_entry(a):
    return ("x86", x86_worker(a))


def _a64_entry(a):
    return ("a64", a64_worker(a))


def _api_entry(a):
    return ("api", api_worker(a))


def _dispatch(job):
    return job[0](job[1])


def run(tier, args):
    chk = common.Check("C20", tier)
    exe = build.build_driver("drv_format", "asan")
    isadb.x86_forms()
    recs = isadb.a64_forms()
    alias_groups()
    scale = args.scale

    rp = None
    if args.replay:
        rp = json.load(open(args.replay))["case"]
        tier = json.load(open(args.replay)).get("tier", tier)      # the flag sets of a case depend on the tier
    jobs = []
    if tier == "quick":
        budget, deep, nshards = max(2, int(12 * scale)), False, 16
    else:
        budget, deep, nshards = max(2, int(12 * scale)), True, 64
    if rp is None or rp.get("part") == "x86":
        if rp:
            jobs.append((_x86_entry, (rp["shard"], rp["nshards"], chk.seed, rp["budget"], rp["deep"], exe, tier, set(rp["ids"]))))
        else:
            for s in range(nshards):
                jobs.append((_x86_entry, (s, nshards, chk.seed, budget, deep, exe, tier, None)))
    if rp is None or rp.get("part") == "a64":
        rc, out, err = common.run_child([exe, "--names", "1"], timeout=300)
        known = set()
        for ln in out.decode().splitlines():
            p = ln.split()
            if p and int(p[-1].split("=")[1]) in [int(x) for x in p[1:-1]]:
                known.add(p[0])
        if len(known) < 100:
            raise common.HarnessError("driver lists only %d AArch64 instruction names" % len(known))
        nrandom = max(1, int((8 if tier == "quick" else 20) * scale))
        acases, gstats = a64gen.generate(recs, chk.seed, "quick", known, nrandom=nrandom)
        idx = list(enumerate(acases))
        if scale < 1.0:
            keep = max(1, int(len(idx) * scale))
            step = len(idx) / float(keep)
            idx = [idx[int(i * step)] for i in range(keep)]
        if rp:
            want = set(rp["indices"])
            idx = [x for x in idx if x[0] in want]
        slim = [(i, {"line": c["line"], "rec": c["rec"], "status": c["status"]}) for i, c in idx]
        na = 16 if tier == "quick" else 48
        for s in range(na):
            part = slim[s::na]
            if part:
                jobs.append((_a64_entry, (s, exe, tier, chk.seed, part)))
    if rp is None or rp.get("part") == "api":
        napi = 1 if rp else 4 if tier == "quick" else 16
        for s_ in range(napi):
            jobs.insert(0, (_api_entry, (exe, tier, chk.seed, scale, set(rp["ids"]) if rp else None, s_, napi)))
    if rp is None:
        jobs.insert(0, (_dir_entry, (exe, tier, chk.seed, scale, None)))
    if rp and rp.get("part") == "lines":
        rc, out, err = _run_driver(exe, rp["lines"])
        print(out.decode(), err.decode()[-3000:])
        chk.coverage.update({"evaluations": len(rp["lines"]), "distinct_nontrivial": 0, "rule": "replay of raw driver lines"})
        return 0 if rc == 0 and not common.sanitizer_report(err) else 1

    with multiprocessing.Pool(16) as pool:
        outs = pool.map(_dispatch, jobs, chunksize=1)

    tot = {"x86": collections.Counter(), "a64": collections.Counter(), "api": collections.Counter(), "dir": collections.Counter()}
    on, off = collections.Counter(), collections.Counter()
    distinct = 0
    samples = []
    byk = collections.OrderedDict()
    for part, o in outs:
        tot[part].update(o["c"])
        for k, v in o["on"].items():
            on[int(k)] += v
        for k, v in o["off"].items():
            off[int(k)] += v
        distinct += o["distinct"]
        if len([s for s in samples if s.get("_p") == part]) < 2:
            for s in o["samples"][:1]:
                s["_p"] = part
                samples.append(s)
        for key, what, replay in o["viol"]:
            byk.setdefault(key, []).append((what, replay))
    for key, lst in byk.items():
        rep = dict(lst[0][1]) if isinstance(lst[0][1], dict) else {"part": "unknown"}
        chk.violation(key, lst[0][0] + (" [+%d more lines of this class]" % (len(lst) - 1) if len(lst) > 1 else ""), rep)
    for s in samples:
        s.pop("_p", None)
    evaluations = sum(t["emissions"] for t in tot.values())
    judged = sum(t["lines_judged_faithful"] for t in tot.values())
    chk.coverage.update({
        "evaluations": evaluations,
        "distinct_nontrivial": distinct,
        "rule": "one evaluation = one emit with the logger attached (or one Formatter call) under one FormatFlags set; distinct = "
                "(database form / AArch64 record, mode, flag set) triples whose line was tokenised and found to contain exactly the "
                "tokens of the case; non-trivial = accepted by the assembler and judged (cases without an architectural name for an "
                "operand are not counted)",
        "samples": samples[:6],
        "lines_judged_faithful": judged,
        "x86_logger": dict(tot["x86"]),
        "a64_logger": dict(tot["a64"]),
        "formatter_api": dict(tot["api"]),
        "directives": dict(tot["dir"]),
        "per_flag_lines_judged": {FLAG_NAMES[b]: {"on": on[b], "off": off[b]} for b in ALL_FLAGS},
        "flag_sets_per_case": 256 if tier == "thorough" else "two complementary pairs (each flag on and off for every case)",
        "objdump_cross_checks": tot["x86"]["objdump_operands_agree"] + tot["x86"]["objdump_operands_differ"],
    })
    chk.assumptions += [
        "vlib/fmttok.py (tokenizer + expected tokens) and the name tables of vlib/x86text.py / vlib/a64text.py are trusted harness code",
        "notation AsmJit documents as its own (st3, repnz, {modrm}, abs/rel, `jz|je`, `cmov.z|e`, %N virtual registers, @type annotations, "
        "omitted default lsl, v1.4s[1], FP immediates as bit patterns, hex immediates as unsigned two's complement) is accepted",
        "the text after an immediate under kExplainImms (`{..|..}`) is judged for the instructions listed in fmttok.explain_expected (meaning of the bits from the SDM, "
        "confirmed on the host CPU for vfpclass/vfixupimm/vrndscale/vreduce/mpsadbw); other explanations give no verdict; spellings such as GE/NLT, SAE/SPE are accepted alike",
        "logger layout (indentation, padding) is exercised but only the CONTENT of the columns is judged: text tokens, machine code, inline comment (exact, cut at Globals::kMaxCommentSize by the logger)",
        "directive notation (.db/.dw/.dd/.dq, .byte/.half/.word/.xword, `.repeat N`, `align N`, `.section name {#id}`, `.label`, {Count= Repeat= TotalSize=}) is AsmJit's; judged is what it denotes: "
        "the bytes appended, sizes, counts, alignment, label and section names",
        "objdump 2.40 as second opinion only where vlib/xdec.py confirms that the bytes encode the case; other operand shapes "
        "(implicit operands, pseudo-ops) and mnemonic spellings of the decoder give no verdict",
        "rel8/rel32 operands reference a label bound immediately before the instruction or a fresh unbound label",
    ]
    if evaluations and judged == 0 and not chk.violations:
        raise common.HarnessError("no line was judged")
    if rp is None and not chk.violations:
        need = {
            "imm8 explanations judged (logger)": tot["x86"]["imm_explanations_judged"],
            "imm8 explanations judged (Formatter sweep)": tot["api"]["imm_explanations_judged"],
            "logger lines with an inline comment (x86)": tot["x86"]["inline_comments_exact"],
            "logger lines with an inline comment (a64)": tot["a64"]["inline_comments_exact"],
            "logger lines with indentation / padding": tot["x86"]["lines_with_indentation_or_padding"] + tot["a64"]["lines_with_indentation_or_padding"],
            "directive lines judged (logger)": tot["dir"]["dir_calls_dir"],
            "directive nodes judged (format_node)": tot["dir"]["dir_calls_dirn"],
            "data bytes transcribed": tot["dir"]["data_bytes_transcribed"],
            "register-home operands": tot["api"]["api_reg_home_operands"],
            "label base with index operands": tot["api"]["api_label_base_with_index_operands"],
            "REP count register cases": tot["api"]["api_rep_count_register_cases"],
            "long label / register names": tot["api"]["api_long_name_operands"] + tot["dir"]["label_name_chars_judged"],
        }
        chk.coverage["round12_dimensions"] = need
        missing = [k for k, v in need.items() if not v]
        if missing:
            raise common.HarnessError("dimensions that observed nothing: " + "; ".join(missing))
    return chk.finish()
