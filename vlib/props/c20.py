"""C20 - formatter and logger text faithfully denotes the instruction and operands.

Runtime monitor: drv_format (ASan+UBSan build) emits the C01 x86 case stream and the C02 AArch64 case stream with a
StringLogger attached under several FormatFlags sets per case (quick: two complementary pairs per case, thorough: all
256), and calls Formatter::format_instruction / format_operand / format_node directly with physical and virtual
registers and anonymous / named / local labels. Oracles (vlib/fmttok.py):
  (1) our tokenizer of the produced line vs. the tokens a faithful line must contain, generated from the *case* with
      register-name tables written from the manuals (mnemonic, options, registers, memory size/segment/base/index/
      scale/displacement/broadcast, immediates, masks, {er/sae}, labels; order and multiplicity),
  (2) machine-code column == bytes appended (wildcards only over a pending label displacement),
  (3) x86: tokenised objdump line of the same bytes vs. the tokenised AsmJit line, for cases whose bytes satisfy the
      database encoding rule of the case (vlib/xdec.py) - an opinion that does not depend on our name tables.
"""
import collections
import json
import multiprocessing
import os
import re
import tempfile

from vlib import a64gen, build, common, fmttok as F, isadb, x86gen, x86tools, xdec
from vlib.props import c01, c02

G = x86gen
ALL_FLAGS = [0x1, 0x8, 0x10, 0x20, 0x40, 0x100, 0x200, 0x400]
FLAG_NAMES = {0x1: "machine_code", 0x8: "show_aliases", 0x10: "explain_imms", 0x20: "hex_imms", 0x40: "hex_offsets",
              0x100: "reg_casts", 0x200: "positions", 0x400: "reg_type"}
FULL = 0x7FF & sum(ALL_FLAGS)
ALL256 = []
for _i in range(256):
    ALL256.append(sum(b for k, b in enumerate(ALL_FLAGS) if (_i >> k) & 1))

# manual mnemonic synonyms (decoder spellings) on top of the database alias groups
MANUAL_ALIASES = [("sal", "shl"), ("wait", "fwait"), ("repnz", "repne"), ("xlatb", "xlat")]


def flag_sets_for(rng, tier):
    if tier == "thorough":
        return ALL256
    a = ALL256[rng.below(256)]
    b = ALL256[rng.below(256)]
    return sorted(set([a, FULL ^ a, b, FULL ^ b]))


_alias_cache = {}


def alias_groups():
    """name -> set of names of its alias group, read from the ISA database (db/isa_x86.json `aliases`)"""
    if "g" in _alias_cache:
        return _alias_cache["g"]
    groups = {}
    try:
        txt = open(os.path.join(build.REPO, "db", "isa_x86.json")).read()
        for m in re.finditer(r'"(\w+)"\s*:\s*\{"aliases":\s*\[([^\]]*)\]', txt):
            names = [m.group(1)] + re.findall(r'"(\w+)"', m.group(2))
            s = set(names)
            for n in names:
                groups.setdefault(n, set()).update(s)
    except OSError:
        pass
    for a, b in MANUAL_ALIASES:
        s = groups.get(a, {a}) | groups.get(b, {b})
        for n in s:
            groups[n] = s
    _alias_cache["g"] = groups
    return groups


def alias_group(name):
    return alias_groups().get(name, {name})


def _run_driver(exe, lines):
    d = os.path.join(build.CACHE, "tmp")
    os.makedirs(d, exist_ok=True)
    fd, path = tempfile.mkstemp(dir=d, suffix=".c20")
    try:
        with os.fdopen(fd, "w") as fh:
            fh.write("\n".join(lines) + "\n")
        rc, out, err = common.run_child([exe, "--cases", path], timeout=3000)
    finally:
        os.unlink(path)
    return rc, out, err


def _sanitizer_violation(exe, lines, rc, err, tag):
    rep = common.sanitizer_report(err)
    heads = [l for l in lines if l.startswith("!")]
    body = [l for l in lines if not l.startswith("!")]
    lo, hi = 0, len(body)
    while hi - lo > 1:
        mid = (lo + hi) // 2
        rc2, out2, err2 = _run_driver(exe, heads + body[lo:mid])
        if rc2 != 0 or common.sanitizer_report(err2):
            hi = mid
        else:
            lo = mid
    top = "?"
    if rep:
        top = next((fr for fr in rep["frames"] if "asmjit" in fr), rep["frames"][0] if rep["frames"] else "?").split("(")[0][:80]
    kind = (rep or {"kind": "crash rc=%d" % rc})["kind"].split(" on ")[0][:50]
    return ("sanitizer:%s:%s" % (kind, top), "sanitizer/crash in drv_format (%s): %s ; case: %s" % (tag, rep, body[lo] if body else "-"),
            {"lines": heads + body[lo:lo + 1]})


def has_label_ref(c):
    for op in c["ops"]:
        if op[0] == "L":
            return True
        if op[0] == "M" and op[1]["base"] and op[1]["base"][0] == "label":
            return True
    return False


def op_token(op):
    """x86gen.op_token extended with virtual register ids (`v<k>`) and label keys"""
    if op[0] == "R":
        return "R:%s:%s" % (op[1], op[2])
    if op[0] == "I":
        return "I:%d" % op[1]
    if op[0] == "L":
        return "L:%s" % op[1]
    m = op[1]
    b = m["base"] or ("none", 0)
    i = m["index"] or ("none", 0)
    return "M:%d:%s:%s:%s:%s:%d:%d:%d:%d:%s" % (m["size"], b[0], b[1], i[0], i[1], m["shift"], m["disp"], m["seg"], m["bcst"], m["addr"])


def driver_line(c, kind, flags):
    ex = "-" if not c["extra"] else "%s:%s" % tuple(c["extra"])
    return "%d %s %s %s %s %x %s %d %s" % (c["id"], kind, ",".join("%x" % f for f in flags), c["arch"], c["name"], c["opts"], ex,
                                           len(c["ops"]), " ".join(op_token(o) for o in c["ops"]))


class Stats:
    def __init__(self):
        self.c = collections.Counter()
        self.flag_on = collections.Counter()
        self.flag_off = collections.Counter()
        self.distinct = set()
        self.samples = []
        self.viol = []      # (key, what, replay)

    def flags(self, ffs):
        for ff in ffs:
            for b in ALL_FLAGS:
                if ff & b:
                    self.flag_on[b] += 1
                else:
                    self.flag_off[b] += 1

    def export(self):
        return {"c": dict(self.c), "on": dict(self.flag_on), "off": dict(self.flag_off), "distinct": len(self.distinct),
                "samples": self.samples[:3], "viol": self.viol[:3000]}


# ---------------------------------------------------------------------------------------------------------------------
# x86: logger transcript of the C01 stream
# ---------------------------------------------------------------------------------------------------------------------

def judge_x86_case(c, rec, st, mode, replay, names_factory, kind="asm"):
    """primary oracle + machine-code column for one case (all flag sets). Returns the parsed AsmJit line of the first
    flag set without aliases (for the objdump cross-check) or None."""
    first_parsed = None
    line = driver_line(c, kind, [0])
    for r in rec["res"]:
        if r["err"] != 0:
            st.c["refused_emissions"] += len(r["ff"])
            continue
        raw = r["bytes"]
        if kind == "asm" and not raw:
            continue
        st.c["emissions_accepted"] += len(r["ff"])
        log = r["log"]
        lines = [l for l in log.split("\n") if l.strip()]
        if len(lines) != 1:
            st.viol.append(("x86:log-line-count", "emit produced %d log lines (%r) for: %s" % (len(lines), log[:200], line), replay))
            continue
        pos, text, mc, comment = F.split_line(lines[0])
        parsed = F.parse_x86_text(text)
        st.c["lines_tokenised"] += 1
        groups = {}
        for ff in r["ff"]:
            groups.setdefault(ff & 0x509 if kind != "asm" else ff & 0x9, []).append(ff)
        for gk, ffs in groups.items():
            ff = ffs[0]
            names = names_factory(r)
            diffs = F.compare_x86_line(c, alias_group, parsed, names, ff, mode, raw_hex=raw if kind == "asm" else None)
            nov = [d for d in diffs if d[0] == "noverdict"]
            diffs = [d for d in diffs if d[0] != "noverdict"]
            if nov:
                st.c["no_expected_name"] += len(ffs)
            for field, msg in diffs:
                key = "x86:text:%s" % field
                if field == "mnemonic":
                    key += ":" + c["name"]
                st.viol.append((key, "%s; line `%s` (flags 0x%x) for case: %s" % (msg, text, ff, line), replay))
            if not diffs and not nov:
                st.c["lines_judged_faithful"] += len(ffs)
                st.flags(ffs)
                for f2 in ffs:
                    st.distinct.add((c["form"], mode, f2))
            # positions are a node property: the logger must not print one
            if kind == "asm" and pos is not None:
                st.viol.append(("x86:text:position", "logger line carries a node position: `%s`" % lines[0], replay))
            # machine-code column
            if kind == "asm":
                if ff & 1:
                    if mc is None:
                        st.viol.append(("x86:machine-code:missing", "kMachineCode set, no column in `%s`; case: %s" % (lines[0], line), replay))
                    else:
                        st.c["machine_code_columns_checked"] += len(ffs)
                        msg = F.check_machine_code(mc, raw, bool(r["ln"]))
                        if "." in mc:
                            st.c["machine_code_wildcard_columns"] += len(ffs)
                        if msg:
                            st.viol.append(("x86:machine-code:mismatch", "%s: column `%s`, bytes %s; case: %s" % (msg, mc, raw, line), replay))
                elif mc is not None and mc:
                    msg = F.check_machine_code(mc, raw, bool(r["ln"]))
                    if msg:
                        st.viol.append(("x86:machine-code:mismatch", "%s: column `%s`, bytes %s; case: %s" % (msg, mc, raw, line), replay))
            if first_parsed is None and not (ff & 0x8):
                first_parsed = (parsed, text)
        if len(st.samples) < 3 and (r["ff"][0] & 1) and any(op[0] == "M" and op[1]["index"] and op[1]["disp"] < 0 for op in c["ops"]):
            st.samples.append({"case": line, "flags": ["0x%x" % f for f in r["ff"]], "line": lines[0], "bytes": raw})
    return first_parsed


def x86_worker(arg):
    shard, nshards, seed, budget, deep, exe, tier, only_ids = arg
    forms = isadb.x86_forms()
    byname = collections.defaultdict(list)
    for f in forms:
        byname[f["name"]].append(f)
    rng = common.Rng(seed).fork("c01-%d" % shard)       # the C01 stream itself
    gen = G.Gen(rng, deep)
    cases = []
    for fi, f in enumerate(forms):
        if fi % nshards != shard:
            continue
        for mode in G.modes_of(f):
            cases += gen.cases_for_form(f, mode, budget)
    # C20 additions: every relative-branch base case once more against a label that is not bound yet (wildcard column)
    extra = []
    for c in cases:
        if c["variant"] in ("base", "long") and any(op[0] == "L" for op in c["ops"]):
            ops = [("L", 1) if op[0] == "L" else op for op in c["ops"]]
            extra.append(dict(c, id=gen.next_id, ops=ops, variant=c["variant"] + "-unbound"))
            gen.next_id += 1
    # ... and every base case with a memory operand once more with `[unbound label + disp]` as the address: the machine-code
    # column then carries the `........` placeholder between the opcode bytes and a trailing immediate
    for c in cases:
        if c["variant"] not in ("base", "base-mem", "mem-b", "mem-bd8", "mem-bd32") or any(op[0] == "L" for op in c["ops"]):
            continue
        mi = [i for i, op in enumerate(c["ops"]) if op[0] == "M"]
        if len(mi) != 1:
            continue
        m = c["ops"][mi[0]][1]
        if not m["base"] or m["base"][0] not in ("gp32", "gp64") or m["index"] or m["seg"] or m["addr"] != "default":
            continue
        if m["base"][0] != ("gp64" if c["arch"] == "x64" else "gp32"):
            continue   # an address-size override has no label form
        ops = list(c["ops"])
        ops[mi[0]] = ("M", dict(m, base=("label", 1), disp=m["disp"] if -2**31 <= m["disp"] < 2**31 else 8))
        extra.append(dict(c, id=gen.next_id, ops=ops, variant=c["variant"] + "-label-unbound"))
        gen.next_id += 1
    cases += extra
    if only_ids is not None:
        cases = [c for c in cases if c["id"] in only_ids]
    frng = common.Rng(seed).fork("c20-flags-%d" % shard)
    st = Stats()
    lines = []
    for c in cases:
        c["_ff"] = flag_sets_for(frng, tier)
        lines.append(driver_line(c, "asm", c["_ff"]))
    if not lines:
        return st.export()
    rc, out, err = _run_driver(exe, lines)
    if rc != 0 or common.sanitizer_report(err):
        st.viol.append(_sanitizer_violation(exe, lines, rc, err, "x86 logger"))
        return st.export()
    recs = [json.loads(l) for l in out.decode().splitlines()]
    if len(recs) != len(cases):
        raise common.HarnessError("drv_format returned %d records for %d cases" % (len(recs), len(cases)))
    by_mode = {64: [], 32: []}
    for c, rec in zip(cases, recs):
        mode = 64 if c["arch"] == "x64" else 32
        st.c["cases"] += 1
        st.c["emissions"] += len(c["_ff"])
        if rec["parse"]:
            raise common.HarnessError("drv_format could not parse: " + driver_line(c, "asm", c["_ff"]))
        ok = [r for r in rec["res"] if r["err"] == 0 and r["bytes"]]
        if not ok:
            st.c["cases_refused"] += 1
            continue
        st.c["cases_accepted"] += 1
        replay = {"part": "x86", "shard": shard, "nshards": nshards, "budget": budget, "deep": deep, "ids": [c["id"]]}
        if len(set(r["bytes"] for r in ok)) > 1 and not has_label_ref(c):
            st.c["bytes_depend_on_format_flags"] += 1
        fp = judge_x86_case(c, rec, st, mode, replay, lambda r: F.Names(l0=r["l0"], ln=r["ln"]))
        if fp is not None:
            by_mode[mode].append((c, ok[0]["bytes"], fp, replay))
    # (3) objdump cross-check
    for mode, sel in by_mode.items():
        if not sel:
            continue
        raws = [bytes.fromhex(b) for _, b, _, _ in sel]
        slots = x86tools.objdump(x86tools.layout(raws), mode)
        for (c, hexb, (parsed, text), replay), raw, slot in zip(sel, raws, slots):
            ok_len, otext = x86tools.decode_slot(slot, len(raw))
            if not ok_len or not otext or "bad" in otext:
                st.c["objdump_no_verdict"] += 1
                continue
            if c["variant"].endswith(("wrong", "illegal", "oob")):
                # input the generator itself marks as unencodable; that the assembler took it is C01's finding, what the
                # bytes then mean says nothing about the text (the primary oracle still judged the line as a transcript)
                st.c["objdump_skipped_invalid_input_accepted"] += 1
                continue
            v, d = xdec.check(c, byname, raw, mode)
            if v != "ok" or c01.gap_class(c, byname, mode):
                st.c["objdump_skipped_encoding_not_confirmed"] += 1
                continue
            od = F.parse_x86_text(otext.split("#")[0].strip().lower())
            verdict, msgs = F.cross_compare(parsed, od, forms[c["form"]].get("implicit") or 0, mode)
            om = od["mnemonic"] or ""
            am = F.mnemonic_names(parsed["mnemonic"] or "")[0]
            if om == am or om in alias_group(am) or (om.startswith(am) and len(om) - len(am) <= 2):
                st.c["objdump_mnemonic_agrees"] += 1
            else:
                st.c["objdump_mnemonic_other_spelling"] += 1
            if verdict == "shape":
                st.c["objdump_other_operand_shape"] += 1
            elif verdict == "width":
                st.c["objdump_other_width_notation"] += 1
            elif verdict == "ok":
                st.c["objdump_operands_agree"] += 1
            else:
                st.c["objdump_operands_differ"] += 1
                st.viol.append(("x86:objdump:%s:%s" % (re.sub(r"`[^`]*`|vs objdump|\(.*", "", msgs[0]).strip().replace(" ", "-")[:30], c["name"]),
                                "AsmJit line `%s` vs objdump `%s` of the same bytes %s (encoding confirmed by the database rule): %s; case: %s"
                                % (text, otext, hexb, "; ".join(msgs), driver_line(c, "asm", [0])), replay))
    return st.export()


# ---------------------------------------------------------------------------------------------------------------------
# AArch64: logger transcript of the C02 stream
# ---------------------------------------------------------------------------------------------------------------------

def judge_a64(c, line, rec, st, replay, vnames=None, labels=None, kind="asm"):
    for r in rec["res"]:
        if r["err"] != 0 or (kind == "asm" and not r["bytes"]):
            st.c["refused_emissions"] += len(r["ff"])
            continue
        st.c["emissions_accepted"] += len(r["ff"])
        lines = [l for l in r["log"].split("\n") if l.strip()]
        if len(lines) != 1:
            st.viol.append(("a64:log-line-count", "emit produced %d log lines (%r) for: %s" % (len(lines), r["log"][:200], line), replay))
            continue
        pos, text, mc, comment = F.split_line(lines[0])
        atoms = F.a64_atoms(text)
        st.c["lines_tokenised"] += 1
        mn, exp = F.a64_expected(line, r["pc"], r["l0"], vnames, labels)
        if exp is None or not atoms:
            st.c["no_expected_name"] += len(r["ff"])
            continue
        got_mn = str(atoms[0])
        bad = False
        base_mn = mn.split(".")[0]
        if got_mn.lower() != mn.lower() and not (c02.UNSCALED.get(base_mn) == got_mn.lower() and " M:" in line):
            bad = True
            st.viol.append(("a64:text:mnemonic:%s" % mn.split(".")[0], "instruction %s printed as `%s` in `%s`; case: %s" % (mn, got_mn, text, line), replay))
        msg = F.a64_match(exp, atoms[1:])
        if msg:
            bad = True
            cls = "operands"
            if re.search(r"`[su]xt[bhwx]` printed", msg):
                cls = "mem-extend-dropped" if "MX:" in line else "extend"
            else:
                m3 = re.search(r"`([^`.]+)\.\w+(\[\d+\])?` printed as `([^`.]+)\.", msg)
                if m3 and m3.group(1) == m3.group(3):
                    cls = "vec-arrangement"
            st.viol.append(("a64:text:%s" % cls, "%s in `%s`; case: %s" % (msg, text, line), replay))
        if kind == "fb":
            want = int(r["ops"][0]) if r.get("ops") else None
            for ff in r["ff"]:
                if bool(ff & 0x200) != (pos is not None) or (pos is not None and pos != want):
                    bad = True
                    st.viol.append(("a64:text:position", "node position %s printed as `%s` (flags 0x%x)" % (want, lines[0], ff), replay))
                    break
        if not bad:
            st.c["lines_judged_faithful"] += len(r["ff"])
            st.flags(r["ff"])
            for ff in r["ff"]:
                st.distinct.add((c["rec"], "a64", ff))
        if kind == "asm":
            for ff in r["ff"]:
                if ff & 1:
                    if mc is None:
                        st.viol.append(("a64:machine-code:missing", "kMachineCode set, no column in `%s`" % lines[0], replay))
                    else:
                        st.c["machine_code_columns_checked"] += sum(1 for f2 in r["ff"] if f2 & 1)
                        m2 = F.check_machine_code(mc, r["bytes"], False)
                        if m2:
                            st.viol.append(("a64:machine-code:mismatch", "%s: column `%s`, bytes %s; case: %s" % (m2, mc, r["bytes"], line), replay))
                    break
        if len(st.samples) < 2 and (r["ff"][0] & 1) and "[" in text:
            st.samples.append({"case": line, "flags": ["0x%x" % f for f in r["ff"]], "line": lines[0], "bytes": r["bytes"]})


def a64_worker(arg):
    shard, exe, tier, seed, cases = arg
    st = Stats()
    frng = common.Rng(seed).fork("c20-a64-flags-%d" % shard)
    lines = []
    for i, c in cases:
        c["_ff"] = flag_sets_for(frng, tier)
        lines.append("%d asm %s a64 %s" % (i, ",".join("%x" % f for f in c["_ff"]), c["line"]))
    if not lines:
        return st.export()
    rc, out, err = _run_driver(exe, lines)
    if rc != 0 or common.sanitizer_report(err):
        st.viol.append(_sanitizer_violation(exe, lines, rc, err, "a64 logger"))
        return st.export()
    recs = [json.loads(l) for l in out.decode().splitlines()]
    if len(recs) != len(cases):
        raise common.HarnessError("drv_format returned %d records for %d a64 cases" % (len(recs), len(cases)))
    for (i, c), rec in zip(cases, recs):
        st.c["cases"] += 1
        st.c["emissions"] += len(c["_ff"])
        if rec["parse"]:
            raise common.HarnessError("drv_format could not parse a64 case: " + c["line"])
        if not any(r["err"] == 0 and r["bytes"] for r in rec["res"]):
            st.c["cases_refused"] += 1
            continue
        st.c["cases_accepted"] += 1
        judge_a64(c, c["line"], rec, st, {"part": "a64", "indices": [i]})
    return st.export()


# ---------------------------------------------------------------------------------------------------------------------
# direct Formatter API: physical / virtual registers, anonymous / named / local labels, node positions
# ---------------------------------------------------------------------------------------------------------------------

X86_VREGS = []     # (k, rtype, name|None)
for _k, (_t, _n) in enumerate([("gp8lo", "byte_v"), ("gp8lo", None), ("gp16", "word_v"), ("gp16", None), ("gp32", "counter"), ("gp32", None),
                               ("gp64", "ptr"), ("gp64", None), ("xmm", "vec_a"), ("xmm", None), ("ymm", "acc"), ("ymm", None),
                               ("zmm", "wide"), ("zmm", None), ("k", "msk"), ("k", None), ("mm", "m64"), ("mm", None)]):
    X86_VREGS.append((_k, _t, _n))
X86_GROUP = {"gp8lo": "gp", "gp8hi": "gp", "gp16": "gp", "gp32": "gp", "gp64": "gp", "xmm": "vec", "ymm": "vec", "zmm": "vec", "k": "k", "mm": "mm"}
# (key kind, k, name, parent key)
LABELS = [("a", 0, None, None), ("a", 1, None, None), ("g", 2, "main", None), ("g", 3, "other_1", None), ("l", 4, "loop", "g2"),
          ("l", 5, "inner", "a0"), ("n", 6, "dbg", None), ("x", 7, "ext_fn", None), ("l", 8, "exit", "g3")]
A64_VREGS = [(0, "x", "xptr"), (1, "x", None), (2, "w", "wcnt"), (3, "w", None), (4, "q", "qv"), (5, "q", None), (6, "d", "dv"), (7, "s", None)]


def label_texts(ids, emitter_known=True):
    """documented notation: anonymous `L<id>`; anonymous with name `L<id>@name`; global/external `name`; local
    `<parent>.name` with the parent's own text. Without an emitter every label is `L<id>`."""
    out = {}
    for kind, k, name, parent in LABELS:
        key = "%s%d" % (kind, k)
        lid = ids[key]
        if not emitter_known or kind == "a":
            out[key] = "L%d" % lid
        elif kind == "n":
            out[key] = "L%d@%s" % (lid, name)
        elif kind == "l":
            pk = parent
            pkind = pk[0]
            pname = next(n for kd, kk, n, _ in LABELS if "%s%d" % (kd, kk) == pk)
            ptxt = pname if pkind != "a" else "L%d" % ids[pk]
            out[key] = "%s.%s" % (ptxt, name)
        else:
            out[key] = name
    return out


def virtualise_x86(c, rng, with_vregs):
    """operands of an accepted case with registers replaced by pool virtual registers and labels by pool labels"""
    def vreg(rtype):
        grp = X86_GROUP.get(rtype)
        if not with_vregs or grp is None or rng.chance(1, 4):
            return None
        cands = [k for k, t, n in X86_VREGS if X86_GROUP[t] == grp]
        return "v%d" % rng.choice(cands)
    ops = []
    for op in c["ops"]:
        if op[0] == "R":
            v = vreg(op[1])
            ops.append(("R", op[1], v if v is not None else op[2]))
        elif op[0] == "L":
            kind, k, _, _ = rng.choice(LABELS)
            ops.append(("L", "%s%d" % (kind, k)))
        elif op[0] == "M":
            m = dict(op[1])
            for f in ("base", "index"):
                if m[f] and m[f][0] in X86_GROUP:
                    v = vreg(m[f][0])
                    if v is not None:
                        m[f] = (m[f][0], v)
            if m["base"] is None and m["index"] is None and rng.chance(1, 3):
                kind, k, _, _ = rng.choice(LABELS)
                m["base"] = ("label", "%s%d" % (kind, k))
                m["disp"] = rng.choice([0, 8, -8, 4096])
                m["addr"] = "default"
            ops.append(("M", m))
        else:
            ops.append(op)
    extra = c["extra"]
    if extra and with_vregs and rng.chance(1, 2):
        extra = ("k", "v%d" % rng.choice([k for k, t, n in X86_VREGS if t == "k"]))
    return dict(c, ops=ops, extra=extra)


def virtualise_a64(line, rng, with_vregs):
    parts = line.split()
    toks = []
    pool = {"x": [0, 1], "w": [2, 3], "q": [4, 5], "d": [6], "s": [7]}

    def v(kind, cur):
        if not with_vregs or rng.chance(1, 4):
            return cur
        ks = pool.get(kind) or []
        if kind in ("x", "w"):
            ks = pool["x"] + pool["w"]
        if kind in ("b", "h"):
            ks = pool["q"]
        return "v%d" % rng.choice(ks) if ks else cur
    for t in parts[2:]:
        p = t.split(":")
        if p[0] == "G":
            p[2] = v(p[1], p[2])
        elif p[0] == "V":
            p[2] = v(p[1], p[2])
        elif p[0] == "M":
            p[1] = v("x", p[1])
        elif p[0] == "MX":
            p[1] = v("x", p[1])
            p[3] = v(p[2], p[3])
        elif p[0] == "L":
            kind, k, _, _ = rng.choice(LABELS)
            p = ["L", "%s%d" % (kind, k)]
        elif p[0] == "ML":
            kind, k, _, _ = rng.choice(LABELS)
            p = ["ML", p[1], "%s%d" % (kind, k)]
        elif p[0] in ("A", "AP", "MA"):
            return None
        toks.append(":".join(p))
    return " ".join(parts[:2] + toks)


def api_worker(arg):
    exe, tier, seed, scale, only_ids, shard, nshards = arg
    st = Stats()
    rng = common.Rng(seed).fork("c20-api")
    forms = isadb.x86_forms()
    n_x86 = int((1500 if tier == "quick" else 6000) * scale) or 20
    n_a64 = int((600 if tier == "quick" else 2400) * scale) or 20
    # source cases: a stride sample of the C01 stream (instantiated here; no emission needed for Formatter calls)
    gen = G.Gen(rng.fork("gen"), False)
    pool_cases = []
    stride = max(1, len(forms) * 2 // n_x86)
    for fi in range(rng.below(stride), len(forms), stride):
        f = forms[fi]
        for mode in G.modes_of(f):
            pool_cases += gen.cases_for_form(f, mode, 6)
    pool_cases = [c for c in pool_cases if not c["variant"].endswith(("oob", "illegal", "wrong"))]
    lines = []
    for k, t, n in X86_VREGS:
        lines.append("!vreg x64 %d %s %s" % (k, t, n or "-"))
    for k, t, n in A64_VREGS:
        lines.append("!vreg a64 %d %s %s" % (k, t, n or "-"))
    for arch in ("x86", "x64", "a64"):
        for grp in ("a", "c"):
            if grp == "c" and arch == "x86":
                continue
            for kind, k, name, parent in LABELS:
                lines.append("!label %s %s %d %s %s %s" % (arch, grp, k, kind, name or "-", parent or "-"))
    ndef = len(lines)
    jobs = []     # (id, kind, arch, case|line, flags)
    nid = 0
    rng.shuffle(pool_cases)
    for c in pool_cases[:n_x86]:
        for kind in ("fc", "fb", "fa", "fn"):
            if kind in ("fc", "fb") and c["arch"] != "x64":
                continue
            c2 = virtualise_x86(c, rng, kind in ("fc", "fb"))
            c2["id"] = nid
            ffs = flag_sets_for(rng, tier)
            jobs.append((nid, kind, c2["arch"], c2, ffs))
            lines.append(driver_line(c2, kind, ffs))
            nid += 1
    # every pool label as branch target and as memory base, under every emitter kind
    first_form = {}
    for f in forms:
        first_form.setdefault(f["name"], f["_idx"])
    for arch in ("x64", "x86"):
        areg = "gp64" if arch == "x64" else "gp32"
        for lkind, lk, _, _ in LABELS:
            key = "%s%d" % (lkind, lk)
            mem = dict(size=4, base=("label", key), index=None, shift=0, disp=8, seg=0, bcst=0, addr="default")
            tmpl = [("jmp", [("L", key)]), ("call", [("L", key)]), ("jz", [("L", key)]),
                    ("lea", [("R", areg, 3), ("M", dict(mem, size=0))]), ("mov", [("R", "gp32", 1), ("M", dict(mem, disp=-16))])]
            for name, ops in tmpl:
                for kind in ("fc", "fb", "fa", "fn"):
                    if kind in ("fc", "fb") and arch != "x64":
                        continue
                    c2 = dict(id=nid, arch=arch, form=first_form.get(name, 0), name=name, opts=0, extra=None, ops=ops, variant="label")
                    ffs = flag_sets_for(rng, tier)
                    jobs.append((nid, kind, arch, c2, ffs))
                    lines.append(driver_line(c2, kind, ffs))
                    nid += 1
    recs64 = isadb.a64_forms()
    first_rec = {}
    for r64 in recs64:
        first_rec.setdefault(r64["name"], r64["_idx"])
    for lkind, lk, _, _ in LABELS:
        key = "%s%d" % (lkind, lk)
        for l2 in ("b 1 L:%s" % key, "bl 1 L:%s" % key, "adr 2 G:x:3 L:%s" % key, "cbz 2 G:w:5 L:%s" % key, "b.2 1 L:%s" % key,
                   "ldr 2 G:x:7 ML:16:%s" % key, "ldr 2 G:w:v2 ML:0:%s" % key):
            for kind in ("fc", "fb", "fa", "fn"):
                if ":v" in l2 and kind not in ("fc", "fb"):
                    continue
                ffs = flag_sets_for(rng, tier)
                jobs.append((nid, kind, "a64", {"line": l2, "rec": first_rec.get(l2.split()[0].split(".")[0], 0)}, ffs))
                lines.append("%d %s %s a64 %s" % (nid, kind, ",".join("%x" % f for f in ffs), l2))
                nid += 1
    acases, _ = a64gen.generate(recs64, seed, "quick", None, nrandom=1)
    acases = [c for c in acases if c["status"] == "ok"]
    rng.shuffle(acases)
    for c in acases[:n_a64]:
        for kind in ("fc", "fb", "fa"):
            l2 = virtualise_a64(c["line"], rng, kind in ("fc", "fb"))
            if l2 is None:
                continue
            ffs = flag_sets_for(rng, tier)
            jobs.append((nid, kind, "a64", {"line": l2, "rec": c["rec"]}, ffs))
            lines.append("%d %s %s a64 %s" % (nid, kind, ",".join("%x" % f for f in ffs), l2))
            nid += 1
    if only_ids is not None:
        keep = set(only_ids)
    else:
        keep = set(j[0] for j in jobs if j[0] % nshards == shard)
    lines = lines[:ndef] + [l for l, j in zip(lines[ndef:], jobs) if j[0] in keep]
    jobs = [j for j in jobs if j[0] in keep]
    rc, out, err = _run_driver(exe, lines)
    if rc != 0 or common.sanitizer_report(err):
        st.viol.append(_sanitizer_violation(exe, lines, rc, err, "formatter api"))
        return st.export()
    recs = [json.loads(l) for l in out.decode().splitlines()]
    defs = [r for r in recs if "def" in r]
    recs = [r for r in recs if "def" not in r]
    if len(recs) != len(jobs) or len(defs) != ndef:
        raise common.HarnessError("drv_format (api) returned %d/%d records for %d/%d lines" % (len(recs), len(defs), len(jobs), ndef))
    vmap = {"x64": {}, "a64": {}}
    lab_ids = {}
    for d in defs:
        if d["def"] == "vreg":
            if d["err"] != 0:
                raise common.HarnessError("virtual register creation failed: %s" % d)
            src = X86_VREGS if d["arch"] == "x64" else A64_VREGS
            k, t, n = src[d["k"]]
            vmap[d["arch"]][k] = (t, n, d["index"])
        elif d["def"] == "label":
            if not d["valid"]:
                raise common.HarnessError("label creation failed: %s" % d)
            lab_ids.setdefault((d["arch"], d["grp"]), {})[d["key"]] = d["id"]
        else:
            raise common.HarnessError("bad directive record: %s" % d)
    for (nid, kind, arch, c, ffs), rec in zip(jobs, recs):
        st.c["api_calls"] += len(ffs)
        st.c["api_calls_" + kind] += len(ffs)
        st.c["emissions"] += len(ffs)
        replay = {"part": "api", "ids": [nid]}
        if rec["parse"]:
            raise common.HarnessError("drv_format could not parse api case %s %s" % (kind, c if arch == "a64" else driver_line(c, kind, ffs)))
        grp = "c" if kind in ("fc", "fb") else "a"
        labels = label_texts(lab_ids[(arch, grp)], emitter_known=(kind != "fn"))
        st.c["api_calls_" + ("a64" if arch == "a64" else "x86")] += len(ffs)
        txt = c["line"] if arch == "a64" else driver_line(c, kind, [0])
        st.c["api_virtual_register_operands"] += len(re.findall(r":v\d+", txt)) * len(ffs)
        for lk, what in (("a", "anonymous"), ("g", "named_global"), ("l", "local_with_parent"), ("n", "anonymous_with_name"), ("x", "external")):
            st.c["api_label_operands_" + what] += len(re.findall(r"[L:]%s\d+\b" % lk, txt if arch == "a64" else txt.split(" ", 4)[-1])) * len(ffs)
        if arch == "a64":
            before = len(st.viol)
            judge_a64(c, c["line"], rec, st, replay, vnames=vmap["a64"], labels=labels, kind=kind)
            if len(st.viol) == before:
                st.c["api_calls_judged"] += sum(len(r["ff"]) for r in rec["res"] if r["err"] == 0)
            continue
        mode = 64 if arch == "x64" else 32
        vregs = vmap["x64"] if grp == "c" else {}
        before = len(st.viol)
        for r in rec["res"]:
            if r["err"] != 0:
                st.c["api_calls_refused_" + kind] += len(r["ff"])
        ok = [r for r in rec["res"] if r["err"] == 0]
        if not ok:
            continue
        judge_x86_case(c, {"res": ok}, st, mode, replay, lambda r: F.Names(vregs=vregs, labels=labels), kind=kind)
        for r in ok:
            ff = r["ff"][0]
            pos, text, mc, comment = F.split_line(r["log"])
            if kind == "fb":
                want = int(r["ops"][0])
                for f2 in r["ff"]:
                    if bool(f2 & 0x200) != (pos is not None) or (pos is not None and pos != want):
                        st.viol.append(("x86:text:position", "node position %d printed as `%s` (flags 0x%x)" % (want, r["log"], f2), replay))
                        break
                continue
            # format_operand on every operand
            names = F.Names(vregs=vregs, labels=labels)
            for exp, txt in zip(c["ops"], r.get("ops") or []):
                got = F.parse_x86_operand(txt)
                st.c["format_operand_calls"] += len(r["ff"])
                for gk in sorted(set(f2 & 0x500 for f2 in r["ff"])):
                    for field, msg in F.compare_x86_operand(exp, got, names, gk, mode, in_instruction=False):
                        if field != "noverdict":
                            st.viol.append(("x86:format_operand:%s" % field, "%s; format_operand -> `%s` (flags 0x%x)" % (msg, txt, gk), replay))
        if len(st.viol) == before:
            st.c["api_calls_judged"] += sum(len(r["ff"]) for r in ok)
            if len(st.samples) < 3 and kind in ("fc", "fb") and any(isinstance(op[2], str) for op in c["ops"] if op[0] == "R"):
                st.samples.append({"api": kind, "case": driver_line(c, kind, ok[0]["ff"]), "text": ok[0]["log"]})
    return st.export()


# ---------------------------------------------------------------------------------------------------------------------

def _x86_entry(a):
    return ("x86", x86_worker(a))


def _a64_entry(a):
    return ("a64", a64_worker(a))


def _api_entry(a):
    return ("api", api_worker(a))


def _dispatch(job):
    return job[0](job[1])


def run(tier, args):
    chk = common.Check("C20", tier)
    exe = build.build_driver("drv_format", "asan")
    isadb.x86_forms()
    recs = isadb.a64_forms()
    alias_groups()
    scale = args.scale

    rp = None
    if args.replay:
        rp = json.load(open(args.replay))["case"]
        tier = json.load(open(args.replay)).get("tier", tier)      # the flag sets of a case depend on the tier
    jobs = []
    if tier == "quick":
        budget, deep, nshards = max(2, int(12 * scale)), False, 16
    else:
        budget, deep, nshards = max(2, int(12 * scale)), True, 64
    if rp is None or rp.get("part") == "x86":
        if rp:
            jobs.append((_x86_entry, (rp["shard"], rp["nshards"], chk.seed, rp["budget"], rp["deep"], exe, tier, set(rp["ids"]))))
        else:
            for s in range(nshards):
                jobs.append((_x86_entry, (s, nshards, chk.seed, budget, deep, exe, tier, None)))
    if rp is None or rp.get("part") == "a64":
        rc, out, err = common.run_child([exe, "--names", "1"], timeout=300)
        known = set()
        for ln in out.decode().splitlines():
            p = ln.split()
            if p and int(p[-1].split("=")[1]) in [int(x) for x in p[1:-1]]:
                known.add(p[0])
        if len(known) < 100:
            raise common.HarnessError("driver lists only %d AArch64 instruction names" % len(known))
        nrandom = max(1, int((8 if tier == "quick" else 20) * scale))
        acases, gstats = a64gen.generate(recs, chk.seed, "quick", known, nrandom=nrandom)
        idx = list(enumerate(acases))
        if scale < 1.0:
            keep = max(1, int(len(idx) * scale))
            step = len(idx) / float(keep)
            idx = [idx[int(i * step)] for i in range(keep)]
        if rp:
            want = set(rp["indices"])
            idx = [x for x in idx if x[0] in want]
        slim = [(i, {"line": c["line"], "rec": c["rec"], "status": c["status"]}) for i, c in idx]
        na = 16 if tier == "quick" else 48
        for s in range(na):
            part = slim[s::na]
            if part:
                jobs.append((_a64_entry, (s, exe, tier, chk.seed, part)))
    if rp is None or rp.get("part") == "api":
        napi = 1 if (rp or tier == "quick") else 16
        for s_ in range(napi):
            jobs.insert(0, (_api_entry, (exe, tier, chk.seed, scale, set(rp["ids"]) if rp else None, s_, napi)))
    if rp and rp.get("part") == "lines":
        rc, out, err = _run_driver(exe, rp["lines"])
        print(out.decode(), err.decode()[-3000:])
        chk.coverage.update({"evaluations": len(rp["lines"]), "distinct_nontrivial": 0, "rule": "replay of raw driver lines"})
        return 0 if rc == 0 and not common.sanitizer_report(err) else 1

    with multiprocessing.Pool(16) as pool:
        outs = pool.map(_dispatch, jobs, chunksize=1)

    tot = {"x86": collections.Counter(), "a64": collections.Counter(), "api": collections.Counter()}
    on, off = collections.Counter(), collections.Counter()
    distinct = 0
    samples = []
    byk = collections.OrderedDict()
    for part, o in outs:
        tot[part].update(o["c"])
        for k, v in o["on"].items():
            on[int(k)] += v
        for k, v in o["off"].items():
            off[int(k)] += v
        distinct += o["distinct"]
        if len([s for s in samples if s.get("_p") == part]) < 2:
            for s in o["samples"][:1]:
                s["_p"] = part
                samples.append(s)
        for key, what, replay in o["viol"]:
            byk.setdefault(key, []).append((what, replay))
    for key, lst in byk.items():
        rep = dict(lst[0][1]) if isinstance(lst[0][1], dict) else {"part": "unknown"}
        chk.violation(key, lst[0][0] + (" [+%d more lines of this class]" % (len(lst) - 1) if len(lst) > 1 else ""), rep)
    for s in samples:
        s.pop("_p", None)
    evaluations = sum(t["emissions"] for t in tot.values())
    judged = sum(t["lines_judged_faithful"] for t in tot.values())
    chk.coverage.update({
        "evaluations": evaluations,
        "distinct_nontrivial": distinct,
        "rule": "one evaluation = one emit with the logger attached (or one Formatter call) under one FormatFlags set; distinct = "
                "(database form / AArch64 record, mode, flag set) triples whose line was tokenised and found to contain exactly the "
                "tokens of the case; non-trivial = accepted by the assembler and judged (cases without an architectural name for an "
                "operand are not counted)",
        "samples": samples[:6],
        "lines_judged_faithful": judged,
        "x86_logger": dict(tot["x86"]),
        "a64_logger": dict(tot["a64"]),
        "formatter_api": dict(tot["api"]),
        "per_flag_lines_judged": {FLAG_NAMES[b]: {"on": on[b], "off": off[b]} for b in ALL_FLAGS},
        "flag_sets_per_case": 256 if tier == "thorough" else "two complementary pairs (each flag on and off for every case)",
        "objdump_cross_checks": tot["x86"]["objdump_operands_agree"] + tot["x86"]["objdump_operands_differ"],
    })
    chk.assumptions += [
        "vlib/fmttok.py (tokenizer + expected tokens) and the name tables of vlib/x86text.py / vlib/a64text.py are trusted harness code",
        "notation AsmJit documents as its own (st3, repnz, {modrm}, abs/rel, `jz|je`, `cmov.z|e`, %N virtual registers, @type annotations, "
        "omitted default lsl, v1.4s[1], FP immediates as bit patterns, hex immediates as unsigned two's complement) is accepted",
        "the text after an immediate under kExplainImms (`{..|..}`) is not judged",
        "objdump 2.40 as second opinion only where vlib/xdec.py confirms that the bytes encode the case; other operand shapes "
        "(implicit operands, pseudo-ops) and mnemonic spellings of the decoder give no verdict",
        "rel8/rel32 operands reference a label bound immediately before the instruction or a fresh unbound label",
    ]
    if evaluations and judged == 0 and not chk.violations:
        raise common.HarnessError("no line was judged")
    return chk.finish()
