"""C07 - prolog/epilog preserve callee-saved state and keep frame areas disjoint.

Runtime monitor: drv_frame builds random and boundary FuncFrames for x86-64, x86-32 and AArch64, assembles
emit_prolog + monitor body + emit_epilog with the real assembler and
  * executes x86-64 functions natively through a register-image trampoline,
  * executes x86-32 functions natively through a 64->32 far-call gate (selector 0x23),
  * prints AArch64 prolog/epilog bytes which vlib/a64sym.py interprets symbolically over llvm-mc's disassembly,
and checks the areas reported by the FuncFrame accessors arithmetically. A second, non-executing build of the
driver runs FuncFrame::finalize + emit_prolog/emit_epilog under ASan/UBSan."""
import json

from vlib import a64sym, build, common

PLAIN_FLAGS = dict(extra_cflags=["-fno-pie"], extra_ldflags=["-no-pie"])


def make_jobs(tier, seed, scale):
    rng = common.Rng(seed).fork("c07")
    jobs = []  # (flavour, argv)

    def sd():
        return str(rng.next() % (1 << 40))

    if tier == "quick":
        for arch, nb, nr, cnt in (("x64", 2, 10, 12000), ("x86", 2, 10, 12000), ("a64", 4, 8, 2500)):
            for sh in range(nb):
                jobs.append(("plain", ["--arch", arch, "--mode", "boundary", "--shards", str(nb), "--shard", str(sh)]))
            for sh in range(nr):
                jobs.append(("plain", ["--arch", arch, "--mode", "random", "--count", str(max(1, int(cnt * scale))), "--seed", sd(), "--shard", str(sh)]))
        for arch in ("x64", "x86", "a64"):
            jobs.append(("asan", ["--arch", arch, "--mode", "boundary", "--stride", "5"]))
            jobs.append(("asan", ["--arch", arch, "--mode", "random", "--count", str(max(1, int(6000 * scale))), "--seed", sd()]))
    else:
        for arch, nb, nr, cnt in (("x64", 4, 32, 60000), ("x86", 4, 32, 60000), ("a64", 8, 32, 8000)):
            for sh in range(nb):
                jobs.append(("plain", ["--arch", arch, "--mode", "boundary", "--shards", str(nb), "--shard", str(sh)]))
            for sh in range(nr):
                jobs.append(("plain", ["--arch", arch, "--mode", "random", "--count", str(max(1, int(cnt * scale))), "--seed", sd(), "--shard", str(sh)]))
        for arch in ("x64", "x86", "a64"):
            jobs.append(("asan", ["--arch", arch, "--mode", "boundary"]))
            for sh in range(2):
                jobs.append(("asan", ["--arch", arch, "--mode", "random", "--count", str(max(1, int(20000 * scale))), "--seed", sd(), "--shard", str(sh)]))
    # Compiler-derived frames: functions with several call sites of different stack-argument sizes (drv_framecc)
    ncc, ccnt = (2, 1500) if tier == "quick" else (8, 12000)
    for arch in ("x64", "x86", "a64"):
        for _ in range(ncc):
            jobs.append(("cc", ["--arch", arch, "--seed", sd(), "--count", str(max(1, int(ccnt * scale)))]))
    # ... and, executed on the host, functions with 16-20 parameters (stack-passed ones may be relocated into the frame)
    # that call a 10-argument helper (so the frame has a call area): every parameter must arrive
    for _ in range(ncc * 2):
        jobs.append(("cc", ["--arch", "x64exec", "--seed", sd(), "--count", str(max(1, int(ccnt * scale // 2)))]))
    # ... and callee-saved registers of Compiler-generated functions (drv_framecc --mode pres): every convention incl. light-call,
    # register pressure at the boundary of the caller-saved set, loops/diamonds/fixed-register instructions, invokes of callees of
    # other conventions; scanned on all architectures, executed through a register-image trampoline on the host
    nsc, scnt, nex, ecnt = (2, 6000, 4, 2500) if tier == "quick" else (8, 40000, 16, 15000)
    for arch in ("x64", "x86", "a64"):
        for _ in range(nsc):
            jobs.append(("cc", ["--mode", "pres", "--arch", arch, "--seed", sd(), "--count", str(max(1, int(scnt * scale)))]))
    for _ in range(nex):
        jobs.append(("cc", ["--mode", "pres", "--arch", "x64exec", "--seed", sd(), "--count", str(max(1, int(ecnt * scale)))]))
    return jobs


def judge_a64(records):
    """records: list of JSON dicts printed by the driver. Returns list of (rec, violations, inconclusive)."""
    if not records:
        return []
    blobs = []
    for r in records:
        blobs.append(r["prolog"] or "1f2003d5")  # an empty prolog is legal: feed a nop so the split stays aligned
        blobs.append(r["epilog"])
    dis = a64sym.disassemble(blobs)
    out = []
    for i, r in enumerate(records):
        p, e = dis[2 * i], dis[2 * i + 1]
        if p is None or e is None:
            out.append((r, [], "llvm-mc could not decode every word"))
            continue
        v, inc = a64sym.run_case(r, p, e)
        out.append((r, v, inc))
    return out


def run(tier, args):
    chk = common.Check("C07", tier)
    exe = {"plain": build.build_driver("drv_frame", "plain", **PLAIN_FLAGS),
           "asan": build.build_driver("drv_frame", "asan", extra_cflags=["-DVF_NOEXEC"]),
           "cc": build.build_driver("drv_framecc", "asan")}
    if args.replay:
        rp = json.load(open(args.replay))
        jobs = [(rp["case"].get("flavour", "plain"), rp["case"]["argv"])]
    else:
        jobs = make_jobs(tier, chk.seed, args.scale)

    def one(job):
        fl, argv = job
        rc, out, err = common.run_child([exe[fl]] + argv, timeout=1800)
        recs, summary = [], None
        for line in out.decode("utf-8", "replace").splitlines():
            if not line.startswith("{"):
                continue
            try:
                d = json.loads(line)
            except ValueError:
                raise common.HarnessError("driver %s %s printed an undecodable record: %s..." % (fl, argv, line[:200]))
            if d.get("t") == "a64":
                recs.append(d)
            elif "violations" in d or "harness_error" in d:
                summary = d
        if fl == "plain" and summary and "a64_emitted" in summary and len(recs) != summary["a64_emitted"]:
            raise common.HarnessError("driver emitted %d AArch64 frames but %d records reached the interpreter" % (summary["a64_emitted"], len(recs)))
        a64res = judge_a64(recs) if fl == "plain" else []
        return fl, argv, rc, summary, err, a64res

    tot = {k: 0 for k in ("frames", "executed", "rejected", "signals", "timeouts", "arith_only", "a64_emitted", "stack_args_read",
                          "regs_compared", "caller_canary_bytes")}
    by_engine, by_conv, rejects = {}, {}, {}
    classes = set()
    class_examples = []
    samples = []
    a64_conclusive = a64_inconclusive = 0
    a64_inc_reasons = {}
    asan_frames = 0
    vio_convs = {}

    cc_tot = {}
    pres = {}          # arch -> summed counters of the callee-saved workload
    pres_conv, pres_refusals, pres_samples = {}, {}, []
    entry_align = {}
    a64_sp16 = a64_sp_moved = 0

    def add(dst, src):
        for k, v in src.items():
            dst[k] = dst.get(k, 0) + v

    for fl, argv, rc, res, err, a64res in common.parallel_map(one, jobs):
        rep = common.sanitizer_report(err)
        if rep:
            top = next((f for f in rep["frames"] if "asmjit" in f), rep["frames"][0] if rep["frames"] else "?")
            chk.violation("sanitizer:%s:%s" % (rep["kind"].split(" on ")[0][:60], top.split("(")[0][:80]),
                          "sanitizer report under %s %s: %s %s" % (fl, argv, rep["kind"], rep["frames"][:5]), {"argv": argv, "flavour": fl})
            continue
        if res is None or "harness_error" in res:
            raise common.HarnessError("driver %s %s rc=%s: %s %s" % (fl, argv, rc, res, err[-400:]))
        if fl == "cc" and res.get("pres"):
            for v in res["violations"]:
                chk.violation(v["key"], "%s [%d programs]" % (v["what"], v["count"]), {"argv": v["spec"].split(), "flavour": "cc"})
            for k, n in res["refusals"].items():
                # a legal program that finalize() refuses has no frame at all (and silently drops out of everything judged here)
                chk.violation("cc-refused:" + k, "Compiler refuses a legal function (%s) [%d programs]; first: %s" % (k, n, res["refusal_specs"].get(k, "?")),
                              {"argv": res["refusal_specs"].get(k, "").split(), "flavour": "cc"})
            add(pres_refusals, res["refusals"])
            pa = pres.setdefault(res["arch"], {})
            for k, v in res.items():
                if isinstance(v, int) and k != "pres":
                    pa[k] = pa.get(k, 0) + v
            add(pres_conv, res["by_conv"])
            classes.update(res["classes"])
            for sm in res["samples"]:
                if len(pres_samples) < 4:
                    pres_samples.append(sm)
            continue
        if fl == "cc":
            for v in res["violations"]:
                chk.violation(v["key"], "%s [%d programs]" % (v["what"], v["count"]), {"argv": v["spec"].split(), "flavour": "cc"})
            for k in ("stack_addr_checked", "slot_align_checked"):
                cc_tot[k] = cc_tot.get(k, 0) + res.get(k, 0)
            for k in ("programs", "invokes", "finalize_errors", "with_locals", "big_before_small", "executed"):
                cc_tot[k] = cc_tot.get(k, 0) + res[k]
            cc_tot["max_arg_stack_" + res["arch"]] = max(cc_tot.get("max_arg_stack_" + res["arch"], 0), res["max_arg_stack"])
            continue
        for v in res["violations"]:
            what = "%s [%d frames; conventions: %s]" % (v["what"], v["count"], ", ".join(v["convs"][:12]))
            chk.violation(v["key"], what, {"argv": ["--case", v["spec"]], "flavour": fl})
        if fl == "asan":
            asan_frames += res["frames"]
            add(rejects, {"asan:" + k: v for k, v in res["rejects"].items()})
            continue
        for k in tot:
            tot[k] += res[k]
        add(by_engine, res["by_engine"])
        add(by_conv, res["by_conv"])
        add(rejects, res["rejects"])
        add(entry_align, res.get("by_entry_align", {}))
        classes.update(res["classes"])   # 64-bit hashes of the class tuples
        for s in res.get("class_examples", []):
            if len(class_examples) < 8:
                class_examples.append(s)
        for s in res["samples"]:
            if len(samples) < 4:
                samples.append(s)
        for rec, viol, inc in a64res:
            if inc:
                a64_inconclusive += 1
                key = inc.split(":")[0] + ":" + inc.split(":", 1)[1].strip().split(" ")[0]
                a64_inc_reasons[key] = a64_inc_reasons.get(key, 0) + 1
                if not viol:
                    continue
            else:
                a64_conclusive += 1
                a64_sp16 += bool(rec.get("_sp16_checked"))
                a64_sp_moved += bool(rec.get("_sp_moved"))
                classes.add(rec["cls"])
                if len(samples) < 6 and a64_conclusive % 401 == 7:
                    samples.append(rec["spec"] + " => " + rec["frame"])
            for kind, text in viol:
                key = "a64:%s:%s" % (kind, "custom" if rec["custom"] else "light" if rec["light"] else "abi")
                vio_convs.setdefault(key, set()).add(rec["conv"] + ("/fp" if rec["fp"] else ""))
                chk.violation(key, "%s | %s | case %s" % (text, rec["frame"], rec["spec"]), {"argv": ["--case", rec["spec"]], "flavour": "plain"})
    by_engine["a64-symbolic"] = a64_conclusive
    pres_programs = sum(v.get("programs", 0) - v.get("finalize_errors", 0) for v in pres.values())
    by_engine["compiler-callee-saved-scan"] = pres_programs
    by_engine["compiler-callee-saved-x64-native"] = pres.get("x64exec", {}).get("executed", 0)
    executed = tot["executed"] + a64_conclusive + pres_programs

    # every new dimension must have observed something, else the run says nothing about it (skipped for replays of one case)
    # (a run that already witnessed a counterexample reports that: floors only qualify a silent run)
    if not args.replay and not chk.violations:
        def need(cond, what):
            if not cond:
                raise common.HarnessError("C07: dimension observed nothing: " + what)
        for arch in ("x64", "x86", "a64", "x64exec"):
            pa = pres.get(arch, {})
            need(pa.get("programs", 0) - pa.get("finalize_errors", 0) > 0, "callee-saved workload, no finalized program on " + arch)
            for k in ("insts_scanned", "funcs_writing_preserved", "preserved_regs_written", "preserved_written_only_by_copies", "preserved_clobbered_only_by_callee",
                      "invokes", "cross_conv_invokes", "weaker_callee_invokes", "loops", "diamonds", "at_pressure_boundary", "slot_align_checked"):
                need(pa.get(k, 0) > 0, "%s = 0 on %s" % (k, arch))
            if arch != "a64":
                for k in ("fixed_reg_ops", "wide_vec_funcs", "slot_align_over_natural"):
                    need(pa.get(k, 0) > 0, "%s = 0 on %s" % (k, arch))
            need(pa.get("rw_unknown", 0) * 50 <= pa.get("insts_scanned", 0), "InstAPI::query_rw_info refused more than 2%% of the instructions on %s" % arch)
        pe = pres["x64exec"]
        for k in ("executed", "regs_compared", "stack_addr_checked", "stack_addr_over_natural", "helper_calls"):
            need(pe.get(k, 0) > 0, "%s = 0 (x64exec)" % k)
        need(pe.get("timeouts", 0) == pe.get("timeouts_dup_kept", 0) and (pe.get("timeouts", 0) + pe.get("signals", 0)) * 4 <= pe["executed"],
             "executed functions timed out / crashed too often to say anything (timeouts=%s signals=%s of %s)" % (pe.get("timeouts"), pe.get("signals"), pe.get("executed")))
        for cvn in ("x64:sysv", "x64:win64", "x64:vectorcall", "x64:light2", "x64:light3", "x64:light4", "x64exec:sysv", "x64exec:win64", "x64exec:vectorcall", "x64exec:light2",
                    "x64exec:light3", "x64exec:light4", "x86:cdecl", "x86:stdcall", "x86:fastcall", "x86:regparm3", "x86:light2", "x86:light3", "x86:light4",
                    "a64:aapcs64", "a64:aapcs64/apple", "a64:light2", "a64:light3", "a64:light4"):
            need(pres_conv.get(cvn, 0) > 0, "no callee-saved program for convention " + cvn)
        need(cc_tot.get("stack_addr_checked", 0) > 0 and cc_tot.get("slot_align_checked", 0) > 0, "requested stack-slot alignment of multi-invoke / many-parameter programs")
        need(a64_sp16 > 0 and a64_sp_moved > 0, "AArch64 16-byte SP rule (no frame moved SP)")
        need(any(k.startswith("x64:abi:16") for k in entry_align) and any(k.startswith("x86:abi:4") for k in entry_align), "entry SP alignment taken from the ABI table")
    for k, cv in vio_convs.items():
        chk.note("%s seen under conventions: %s" % (k, ", ".join(sorted(cv))))

    chk.coverage.update({
        "evaluations": executed,
        "distinct_nontrivial": len(classes),
        "rule": "one evaluation = one finalized FuncFrame whose prolog + monitor body + epilog was executed (x86-64 native, x86-32 through the far-call "
                "gate) or symbolically interpreted to completion (AArch64), or one Compiler-generated function whose finalized instruction stream was scanned "
                "for writes of callee-saved registers (and, on the host, executed through a register-image trampoline); distinct = distinct tuple (callee-saved "
                "workload: arch, convention, preserved FP, vector mode, live GP/vector counts, loops, diamonds, fixed-register ops, invokes, weaker callee, "
                "requested stack alignment) resp. distinct tuple (arch, effective convention incl. custom preserved "
                "sets, preserved FP, dynamic alignment, explicit sa register kind, SSE/AVX/AVX-512 x aligned/unaligned vector saves, which non-GP groups are "
                "saved, dirty-mask class per group {0,1,2,many,all}, local size class/alignment, call size class/alignment, has-calls); every frame has "
                "a prolog, body and epilog, so every executed tuple is non-trivial",
        "samples": samples,
        "class_tuple_examples": class_examples,
        "frames_generated": tot["frames"],
        "frames_per_engine": by_engine,
        "frames_per_convention": by_conv,
        "frames_rejected_by_asmjit": tot["rejected"],
        "reject_reasons": rejects,
        "signals_caught": tot["signals"],
        "timeouts": tot["timeouts"],
        "a64_inconclusive": a64_inconclusive,
        "a64_inconclusive_reasons": a64_inc_reasons,
        "stack_argument_reads_compared": tot["stack_args_read"],
        "callee_saved_registers_compared": tot["regs_compared"],
        "caller_canary_bytes_compared": tot["caller_canary_bytes"],
        "asan_ubsan_nonexecuting_frames": asan_frames,
        "exhaustive": False,
        "compiler_derived_frames": cc_tot,
        "compiler_callee_saved": pres,
        "compiler_callee_saved_programs_per_convention": pres_conv,
        "compiler_callee_saved_refusals": pres_refusals,
        "compiler_callee_saved_samples": pres_samples,
        "entry_sp_alignment_source": entry_align,
        "a64_frames_checked_for_16_byte_sp": a64_sp16,
        "a64_frames_that_move_sp": a64_sp_moved,
        "jobs": len(jobs),
    })
    chk.assumptions += [
        "x86-64 preserved sets are taken from the ABI documents (SysV: rbx rbp r12-r15; Win64/vectorcall: rbx rbp rdi rsi r12-r15 xmm6-15), x86-32: ebx esi edi ebp; "
        "callee-pops = stdcall/fastcall/vectorcall/thiscall(Windows) pop FuncDetail::arg_stack_size() bytes",
        "light-call conventions have no ABI document: the preserved set is CallConv's own mask; '+custom' conventions are user-defined CallConvs "
        "(built-in convention plus additional preserved vector/mask/MM/GP registers via CallConv::set_preserved_regs) - the only way to reach mask/MM saves",
        "thiscall on a non-Windows environment is documented to be replaced by cdecl and is judged as cdecl",
        "the monitor body clobbers exactly frame.dirty_regs() (never SP; not FP while it is the preserved frame pointer) and writes only the declared local, "
        "call, red-zone and spill-zone areas; vector junk is as wide as the enabled ISA (xmm/ymm/zmm)",
        "stack arguments are placed by the trampoline at FuncDetail's stack offsets; whether those offsets follow the ABI is C06's business",
        "AArch64 frames are judged symbolically on llvm-mc 14 disassembly (no CPU/emulator): entry SP assumed 16-byte aligned only; unknown "
        "mnemonics make a case inconclusive",
        "SP alignment is demanded only when the frame declares a local/call area, calls or non-GP saves (finalize() aligns only then)",
        "every generated frame / program is legal: a finalize/emit_prolog/emit_epilog/Compiler::finalize error is reported as <arch>:refused:<stage>:<error>:<family> resp. "
        "cc-refused:<arch>:finalize:<error>:<family>",
        "entry SP alignment of executed x86 frames comes from the ABI documents (x86-64: 16 at the call, i386: 4), not from FuncFrame::natural_stack_alignment(); "
        "light-call conventions have no document and use CallConv's own value",
        "AArch64: SP must be a multiple of 16 inside the body of every frame that stores through SP or moves it (AAPCS64 6.4.5.1), promised or not",
        "callee-saved workload, scan oracle: register writes are taken from InstAPI::query_rw_info on the finalized nodes (its correctness is C12's business) plus the "
        "clobber set of each invoked callee's CallConv; the epilog (behind the exit label) is not scanned, its loads are the restores; preserved sets are the ABI "
        "documents' for ABI conventions and CallConv's own for light-call; functions that use AVX call FuncFrame::set_avx_enabled() as documented",
        "callee-saved workload, exec oracle: XMM registers are compared in their low 128 bits (all the Microsoft ABI preserves); callees are C functions "
        "(SysV / ms_abi) that write junk to every register their convention lets them clobber, and a 3-instruction stub for the light-call conventions",
    ]
    return chk.finish()
