"""C17 - displacement and immediate field codecs are exact for every value.

Runtime monitor: drv_codec (ASan+UBSan build) drives CodeWriterUtils::write_offset/encode_offset32/64 for every
OffsetFormat the x86/a64 back ends construct (collected at run time from fixups/relocation entries of small label
programs) plus a generic (bit count, shift, discarded LSBs, value size) grid, and drives a64::Assembler immediates
(bitmask, add/sub, move-wide, FP8, bitfield positions). Oracles are independent decoders inside the driver
(two's complement / Arm ARM pseudo code); llvm-mc is a sampled second oracle here."""
import json
import math
import re
import shutil
import subprocess
import time

from vlib import build, common

SIGNED, UNSIGNED, ADR, ADRP = 0, 1, 2, 3
BAND = 4096
DISPIMM_KINDS = 14     # b bl b.ne cbz cbnz tbz tbnz adr adrp + literal loads through a bound label
NEW_MODES = ("modimm", "simdshift", "dispimm", "ldstoff")


def spec_of(f):
    return (f["type"], f["value_size"], f["value_offset"], f["region_size"], f["bits"], f["shift"], f["discard"])


def desc_of(spec):
    names = {0: "signed", 1: "unsigned", 2: "a64adr", 3: "a64adrp"}
    return "%s/s%d/o%d/r%d/b%d/sh%d/d%d" % ((names.get(spec[0], "t%d" % spec[0]),) + tuple(spec[1:]))


def evals_per_unit(d):
    return 1 if d == 0 else 2 if d == 1 else 4


def grid_formats(tier, scale=1.0):
    """Generic signed/unsigned formatter: (value size, bit count, shift, discarded LSBs) combinations."""
    exh_limit = 21 if tier == "quick" else 26
    if scale < 1:
        exh_limit = 16   # debugging runs only
    out = []
    for size in (1, 2, 4, 8):
        for typ in (SIGNED, UNSIGNED):
            for n in range(1, 8 * size + 1):
                maxsh = 8 * size - n
                if n <= 12:
                    shifts, discards = {0, maxsh // 2, maxsh}, [0, 1, 2, 3, 12]
                elif n <= exh_limit:
                    if tier == "quick":
                        shifts, discards = {0, maxsh}, [0, 2]
                    elif n <= 21:
                        shifts, discards = {0, maxsh // 2, maxsh}, [0, 1, 2, 12]
                    else:
                        shifts, discards = {0, maxsh}, [0, 2]
                else:
                    if not (n <= 32 or n in (33, 40, 48, 56, 62, 63, 64)):
                        continue
                    shifts, discards = {0, maxsh}, [0, 2]
                for sh in sorted(shifts):
                    for d in discards:
                        out.append((typ, size, 0, size, n, sh, d))
    # a few with leading/trailing bytes around the patched word
    for typ in (SIGNED, UNSIGNED):
        out += [(typ, 1, 1, 2, 8, 0, 0), (typ, 4, 2, 10, 32, 0, 0), (typ, 8, 3, 15, 64, 0, 0), (typ, 4, 1, 6, 19, 5, 2),
                (typ, 2, 3, 5, 11, 3, 1)]
    return out, exh_limit


def format_jobs(tier, seed, scale, in_use):
    grid, exh_limit = grid_formats(tier, scale)
    wide_in_use = int(1000000 * scale) or 1000
    wide_grid = int((200000 if tier == "quick" else 1000000) * scale) or 1000
    small_random = int(20000 * scale) or 100
    entries = {}  # spec -> (exh, wide_random, in_use)
    for spec in grid:
        exh = spec[4] <= exh_limit
        entries[spec] = (exh, small_random if exh else wide_grid, False)
    for spec in in_use:
        exh = spec[4] <= exh_limit
        entries[spec] = (exh, small_random if exh else wide_in_use, True)
    chunk = (6e6 if tier == "quick" else 5e7)
    pieces = []
    for spec, (exh, wr, used) in entries.items():
        n, d = spec[4], spec[6]
        cost_exh = (2 ** n + 2 * BAND) * evals_per_unit(d) if exh else 0
        parts = max(1, int(math.ceil(cost_exh / chunk))) if exh else 1
        for p in range(parts):
            cost = cost_exh / parts + (wr * 0.9 + 5000 if p == 0 else 0)
            pieces.append((cost, spec, p, parts, exh, wr))
    pieces.sort(key=lambda x: -x[0])
    bins = []  # [cost, [specstr]]
    import heapq
    nbins = max(16, int(sum(p[0] for p in pieces) / chunk) + 1)
    heap = [(0.0, i) for i in range(nbins)]
    bins = [[] for _ in range(nbins)]
    for cost, spec, p, parts, exh, wr in pieces:
        c, i = heapq.heappop(heap)
        bins[i].append(",".join(str(x) for x in spec) + ",%d,%d,%d,%d" % (p, parts, 1 if exh else 0, wr))
        heapq.heappush(heap, (c + cost, i))
    rng = common.Rng(seed).fork("fmt")
    jobs = []
    for b in bins:
        if b:
            jobs.append(["--mode", "fmt", "--seed", str(rng.next() % (1 << 40)), "--formats", ";".join(b)])
    return jobs, entries, exh_limit


def immediate_jobs(tier, seed, scale):
    rng = common.Rng(seed).fork("imm")
    s = lambda: str(rng.next() % (1 << 40))
    jobs = []
    q = tier == "quick"
    nsh = 8 if q else 16
    for sh in range(nsh):
        jobs.append(["--mode", "logical", "--seed", s(), "--shards", str(nsh), "--shard", str(sh),
                     "--random", str(int((20000 if q else 200000) * scale) or 100), "--xsamples", "60"])
        # NB: every shard must draw the same candidate list: same seed
        jobs[-1][3] = str(common.Rng(seed).fork("logical").next() % (1 << 40))
    fsh = 4 if q else 16
    fseed = str(common.Rng(seed).fork("fp8").next() % (1 << 40))
    for sh in range(fsh):
        j = ["--mode", "fp8", "--seed", fseed, "--shards", str(fsh), "--shard", str(sh),
             "--random", str(int((100000 if q else 1000000) * scale) or 100), "--xsamples", "80"]
        if not q:
            j.append("--all-f32")
        jobs.append(j)
    top = 1 << 24
    if scale < 1:
        top = max(1 << 14, int(top * scale))
    nr = 32 if q else 96
    for i in range(nr):
        lo, hi = top * i // nr, top * (i + 1) // nr
        j = ["--mode", "addsub", "--seed", s(), "--lo", str(lo), "--hi", str(hi),
             "--kinds-per-value", "1" if q else "12", "--xsamples", "25"]
        if i == 0:
            j.append("--extras")
        jobs.append(j)
    for i in range(4 if q else 16):
        jobs.append(["--mode", "movwide", "--seed", s(), "--random", str(int((100000 if q else 600000) * scale) or 100),
                     "--reps", str(int((100 if q else 600) * scale) or 2)])
    jobs.append(["--mode", "bitfield", "--seed", s(), "--xsamples", "500"])
    # AdvSIMD modified immediates (movi / mvni / orr / bic), one job per instruction
    for kind in range(4):
        jobs.append(["--mode", "modimm", "--seed", s(), "--kind", str(kind), "--xsamples", "120"])
    # SIMD shift-by-immediate / fixed-point #fbits, load/store offsets
    jobs.append(["--mode", "simdshift", "--seed", s(), "--xsamples", "300"])
    jobs.append(["--mode", "ldstoff", "--seed", s(), "--xsamples", "300"])
    # the assembler's own displacement path (bound label / known base address): 14/19/21-bit fields exhaustively; the 26-bit
    # ones at their limits + random (quick), exhaustively in parts (thorough)
    for kind in range(DISPIMM_KINDS):
        if kind < 2 and not q and scale >= 1:
            for part in range(8):
                jobs.append(["--mode", "dispimm", "--seed", s(), "--kind", str(kind), "--exh26", "1", "--part", str(part), "--parts", "8"])
        else:
            jobs.append(["--mode", "dispimm", "--seed", s(), "--kind", str(kind)])
    jobs.append(["--mode", "split", "--seed", s(), "--count", str(int((20000 if q else 500000) * scale) or 100)])
    return jobs


# -- llvm-mc as a sampled second oracle --------------------------------------------------------------------

def llvm_mc():
    for name in ("llvm-mc", "llvm-mc-14"):
        p = shutil.which(name)
        if p:
            return p
    return None


def llvm_assemble_check(mc, samples):
    """samples: [{'asm': text, 'word': int|None}] -> list of disagreement strings."""
    if not samples:
        return [], 0
    text = "\n".join(s["asm"] for s in samples) + "\n"
    p = subprocess.run([mc, "-triple=aarch64", "-mattr=+v8.2a,+fullfp16", "-show-encoding"], input=text.encode(),
                       stdout=subprocess.PIPE, stderr=subprocess.PIPE, timeout=300)
    errs = set(int(m.group(1)) for m in re.finditer(r"<stdin>:(\d+):\d+: error", p.stderr.decode("utf-8", "replace")))
    encs = []
    for line in p.stdout.decode("utf-8", "replace").splitlines():
        m = re.search(r"encoding: \[([^\]]*)\]", line)
        if m:
            b = [int(x, 16) for x in m.group(1).split(",")]
            encs.append(b[0] | b[1] << 8 | b[2] << 16 | b[3] << 24 if len(b) == 4 else None)
    dis = []
    it = iter(encs)
    ok_lines = [i for i in range(1, len(samples) + 1) if i not in errs]
    if len(ok_lines) != len(encs):
        return ["llvm-mc output could not be aligned (%d encodings for %d accepted lines)" % (len(encs), len(ok_lines))], 0
    for i, smp in enumerate(samples, 1):
        theirs = None if i in errs else next(it)
        ours = smp["word"]
        if (ours is None) != (theirs is None):
            dis.append("%s: asmjit %s, llvm-mc %s" % (smp["asm"], "refused" if ours is None else "0x%08x" % ours,
                                                      "refused" if theirs is None else "0x%08x" % theirs))
        elif ours is not None and ours != theirs:
            dis.append("%s: asmjit 0x%08x, llvm-mc 0x%08x" % (smp["asm"], ours, theirs))
    return dis, len(samples)


def llvm_disassemble_check(mc, samples):
    """samples from collect: patched AArch64 instruction words; the printed immediate must equal the displacement."""
    if not samples:
        return [], 0
    text = ""
    for s in samples:
        w = s["word"]
        text += "0x%02x 0x%02x 0x%02x 0x%02x\n" % (w & 255, (w >> 8) & 255, (w >> 16) & 255, (w >> 24) & 255)
    p = subprocess.run([mc, "-triple=aarch64", "-mattr=+v8.2a", "--disassemble"], input=text.encode(),
                       stdout=subprocess.PIPE, stderr=subprocess.PIPE, timeout=300)
    lines = [l for l in p.stdout.decode("utf-8", "replace").splitlines() if l.strip() and not l.strip().startswith(".")]
    if len(lines) != len(samples):
        return ["llvm-mc --disassemble printed %d lines for %d words: %s" % (len(lines), len(samples), p.stderr.decode()[:300])], 0
    dis = []
    for s, l in zip(samples, lines):
        m = re.findall(r"#(-?(?:0x[0-9a-fA-F]+|\d+))", l)
        if not m:
            dis.append("%s value %d: no immediate in '%s'" % (s["inst"], s["value"], l.strip()))
            continue
        got = int(m[-1], 0)
        if got != s["value"]:
            dis.append("%s (format %s) displacement %d patched into 0x%08x disassembles as '%s'" %
                       (s["inst"], s["format"], s["value"], s["word"], " ".join(l.split())))
    return dis, len(samples)


# -- the check -----------------------------------------------------------------------------------------------

def run(tier, args):
    chk = common.Check("C17", tier)
    exe = build.build_driver("drv_codec", "asan")

    timings = []
    class_count = {}
    suppressed = {}

    def one(argv):
        t0 = time.time()
        rc, out, err = common.run_child([exe] + argv, timeout=3000)
        timings.append((round(time.time() - t0, 2), " ".join(argv)[:90]))
        return argv, rc, out, err

    def digest(argv, rc, out, err):
        rep = common.sanitizer_report(err)
        if rep:
            top = next((f for f in rep["frames"] if "asmjit" in f), rep["frames"][0] if rep["frames"] else "?")
            chk.violation("sanitizer:%s:%s:%s" % (argv[1], rep["kind"].split(" on ")[0][:60], top.split("(")[0][:80]),
                          "sanitizer report under %s: %s %s" % (argv[:6], rep["kind"], rep["frames"][:5]), {"argv": argv})
            return None
        try:
            res = json.loads(out.decode().strip().splitlines()[-1])
        except Exception:
            raise common.HarnessError("driver %s rc=%s produced no summary: %s" % (argv[:6], rc, err[-500:]))
        for v in res["violations"]:
            if v["key"].startswith("harness:"):
                raise common.HarnessError("driver self-check failed: %s %s" % (v["key"], v["what"]))
            # (known findings never use up the per-class budget below: a new key must not hide behind them)
            if any(f.get("status") == "known" and common.key_matches(f["key"], v["key"]) for f in chk._findings):
                chk.violation(v["key"], "%s [%d cases in this shard]" % (v["what"], v.get("count", 1)), {"argv": argv})
                continue
            # one defect in a shared predicate shows up under hundreds of per-format keys: report the first few of a class
            cls = ":".join(v["key"].split(":")[:2])
            class_count[cls] = class_count.get(cls, 0) + 1
            if class_count[cls] <= 8:
                chk.violation(v["key"], "%s [%d cases in this shard]" % (v["what"], v.get("count", 1)), {"argv": argv})
            else:
                suppressed[cls] = suppressed.get(cls, 0) + 1
        return res

    if args.replay:
        rp = json.load(open(args.replay))
        argv = rp["case"]["argv"]
        res = digest(*one(argv))
        n = 0
        if res:
            n = res.get("evaluations", 0) or sum(f["evaluations"] for f in res.get("formats", []) if "evaluations" in f) or len(res.get("sites", []))
        chk.coverage.update({"evaluations": n, "distinct_nontrivial": n, "rule": "replay of one driver shard", "samples": [argv[:8]]})
        return chk.finish()

    # 1. which formats do the back ends construct?
    cres = digest(*one(["--mode", "collect", "--seed", str(chk.seed)]))
    if cres is None or not cres.get("formats"):
        raise common.HarnessError("no OffsetFormat collected from the back ends (collect mode returned nothing)")
    in_use = [spec_of(f) for f in cres["formats"]]
    in_use_desc = {f["desc"]: f["used_by"] for f in cres["formats"]}

    fjobs, entries, exh_limit = format_jobs(tier, chk.seed, args.scale, in_use)
    ijobs = immediate_jobs(tier, chk.seed, args.scale)
    jobs = fjobs + ijobs
    # longest first
    order = {"addsub": 0, "fmt": 1, "logical": 2, "fp8": 3}
    jobs.sort(key=lambda j: order.get(j[1], 9))

    evals = 0
    nontrivial = 0
    by_mode = {}
    fmt_stats = {}   # desc -> dict
    xs_asm = []
    samples = []
    split_obs = []
    extra = {}
    for argv, rc, out, err in common.parallel_map(one, jobs):
        res = digest(argv, rc, out, err)
        if res is None:
            continue
        mode = res["mode"]
        if mode == "fmt":
            for f in res["formats"]:
                st = fmt_stats.setdefault(f["desc"], {"evaluations": 0, "accepted": 0, "refused": 0, "nontrivial": 0, "parts_done": 0,
                                                      "parts": f["parts"], "exhaustive": f["exhaustive"], "direct": 0})
                for k in ("evaluations", "accepted", "refused", "nontrivial"):
                    st[k] += f[k]
                st["direct"] += f["direct_encode_calls"]
                st["parts_done"] += 1
                evals += f["evaluations"]
                nontrivial += f["nontrivial"]
                by_mode["displacement formats"] = by_mode.get("displacement formats", 0) + f["evaluations"]
                if f["samples"] and len(samples) < 6 and f["desc"] in in_use_desc:
                    samples.append(f["samples"][0])
        elif mode == "split":
            split_obs = res["formats"]
            extra["split_format_calls_no_verdict"] = res["calls"]
        else:
            evals += res["evaluations"]
            nontrivial += res["nontrivial"]
            by_mode[mode] = by_mode.get(mode, 0) + res["evaluations"]
            xs_asm += res.get("xsamples", [])
            for k in ("valid_64", "valid_32", "constants", "sequence_length_histogram_sampled", "candidates"):
                if k in res:
                    extra.setdefault(mode, {})[k] = res[k]
            for k in ("accepted", "refused", "encodable_by_another_class_refused_no_verdict"):
                if k in res:
                    extra.setdefault(mode, {})[k] = extra.get(mode, {}).get(k, 0) + res[k]
            if "movable_lane_values" in res:
                extra.setdefault(mode, {})["movable_lane_values"] = res["movable_lane_values"]

    # every planned format must have been fully processed
    missing = [desc_of(s) for s in entries if desc_of(s) not in fmt_stats or fmt_stats[desc_of(s)]["parts_done"] != fmt_stats[desc_of(s)]["parts"]]
    if missing and not chk.violations:
        raise common.HarnessError("formats not fully processed: %s" % missing[:5])

    # the modes added in round 11 must each have judged accepted AND refused requests
    if not chk.violations:
        for m in NEW_MODES:
            st = extra.get(m, {})
            if not by_mode.get(m) or not st.get("accepted") or not st.get("refused"):
                raise common.HarnessError("mode %s observed nothing (evaluations %s, accepted %s, refused %s)" % (m, by_mode.get(m), st.get("accepted"), st.get("refused")))

    # 2. sampled second oracle
    mc = llvm_mc()
    xinfo = {"tool": mc, "assembled_samples": 0, "disassembled_samples": 0, "disagreements": []}
    if mc:
        try:
            d1, n1 = llvm_assemble_check(mc, xs_asm)
            d2, n2 = llvm_disassemble_check(mc, cres.get("xsamples", []))
            xinfo.update({"assembled_samples": n1, "disassembled_samples": n2, "disagreements": (d1 + d2)[:20]})
            for d in (d1 + d2)[:10]:
                chk.note("llvm-mc disagrees with asmjit AND the primary decoder: " + d)
        except Exception as ex:   # the second oracle is optional
            chk.note("llvm-mc cross-check skipped: %r" % (ex,))
    else:
        chk.note("llvm-mc not found: second oracle skipped")

    for cls, n in sorted(suppressed.items()):
        chk.note("%d further violation keys of class %s* not listed individually" % (n, cls))
    for o in split_obs:
        if o["bits_changed_outside_documented_layout"]:
            chk.note("no-verdict observation: split format %s changed bits %s outside the layout documented in fixup.h in %d of %d calls"
                     % (o["format"], o["those_bits"], o["bits_changed_outside_documented_layout"], o["calls"]))
    if cres["sites_with_nonzero_field_before_patch"]:
        chk.note("%d fixup/relocation sites had non-zero field bits before patching" % cres["sites_with_nonzero_field_before_patch"])

    exh_in_use = sorted(d for d in in_use_desc if fmt_stats.get(d, {}).get("exhaustive"))
    exh_grid = sorted(d for d, st in fmt_stats.items() if st["exhaustive"] and d not in in_use_desc)
    subspaces = ["format %s (used by %s): every offset in range, a 4096-unit band outside each end, misaligned neighbours" %
                 (d, ", ".join(in_use_desc[d][:3])) for d in exh_in_use]
    subspaces.append("generic signed/unsigned formatter: %d (value size, bit count <= %d, shift, discarded LSBs) combinations, each over its full "
                     "range + bands + misaligned neighbours" % (len(exh_grid), exh_limit))
    subspaces += [
        "all (N,immr,imms): 5334 64-bit and 1302 32-bit bitmask immediates and every value one bit away, through is_logical_imm/"
        "encode_logical_imm/and/ands/orr/eor/tst/bic/bics/orn/eon/mov (mov with x7|w7, sp|wsp and xzr|wzr as destination)",
        "all 256 FP8 immediates x {h,s,d,4h,8h,2s,4s,2d} fmov plus all single-bit neighbours; is_fp16_imm8 over all 2^16 patterns"
        + ("; is_fp32_imm8 over all 2^32 patterns" if tier != "quick" else ""),
        "is_add_sub_imm over 0..2^24" + (" and add/sub/adds/subs/cmp/cmn (w,x) over every value 0..2^24" if tier != "quick" and args.scale >= 1
                                         else "; every instruction kind over 0..0x2100 and all multiples of 0x1000 +-1"),
        "bfi/sbfiz/ubfiz/bfxil/sbfx/ubfx/bfc: all lsb x width in 0..size+2; lsl/lsr/asr/ror: all shifts 0..size+2 (32 and 64 bit)",
        "movi/mvni/orr/bic (vector, immediate): all imm8 x lsl/msl amounts {0,1,4,7,8,9,12,16,17,24,25,31,32,33,40,56,63,64,255} per arrangement; as element "
        "values every lane value some MOVI/MVNI encoding writes (own AdvSIMDExpandImm, all op:cmode:imm8) and every value one bit away",
        "SIMD shift by immediate (38 mnemonics incl. narrowing / long / fixed-point #fbits, every vector and scalar size) and scvtf/ucvtf/fcvtzs/fcvtzu "
        "with a general purpose register: every amount 0..66",
        "b.cond/cbz/cbnz/tbz/tbnz/adr/adrp/ldr-literal through a64::Assembler with a known base address or a bound label (EmitOp_DispImm): every "
        "displacement of the 14/19/21-bit fields plus a 4096-unit band outside each end and misaligned neighbours"
        + ("; b/bl: every 26-bit displacement" if tier != "quick" and args.scale >= 1 else ""),
        "ldr/str (b,h,w,x,sw and SIMD b..q) offsets -600..33000 in offset / pre / post mode (scaled, unscaled fallback, refusals); ldp/stp/ldpsw/"
        "ldnp/stnp offsets -1300..1300 in all modes; ldraa/ldrab -4200..4200",
    ]
    chk.coverage.update({
        "evaluations": evals,
        "distinct_nontrivial": nontrivial,
        "rule": "one evaluation = one (format, offset) pair patched by write_offset/encode_offset32/64, or one (immediate kind, value) pair "
                "pushed through the arm::Utils predicate or a64::Assembler and decoded back; pairs are distinct by construction (enumeration "
                "without repetition, sampled values de-duplicated per format/kind); non-trivial = value non-zero and either accepted or within "
                "one 4096-unit band (one bit for bitmask/FP immediates) of a representability limit. exhaustive=true refers to the sub-spaces "
                "listed in exhaustive_subspaces only; wider fields and move-wide constants are sampled",
        "samples": samples,
        "exhaustive": True,
        "exhaustive_subspaces": subspaces,
        "exhaustive_bit_limit": exh_limit,
        "formats_in_use_by_backends": [{"format": d, "used_by": u, "evaluations": fmt_stats.get(d, {}).get("evaluations", 0),
                                        "exhaustive": bool(fmt_stats.get(d, {}).get("exhaustive"))} for d, u in sorted(in_use_desc.items())],
        "label_reference_sites_collected": len(cres["sites"]),
        "sites_with_zero_field_before_patch": len(cres["sites"]) - cres["sites_with_nonzero_field_before_patch"],
        "label_program_emit_failures": cres["emit_failed"],
        "formats_judged": len(fmt_stats),
        "formats_exhaustive": len(exh_in_use) + len(exh_grid),
        "evaluations_by_kind": by_mode,
        "write_offset_accepted": sum(s["accepted"] for s in fmt_stats.values()),
        "write_offset_refused": sum(s["refused"] for s in fmt_stats.values()),
        "direct_encode_offset_calls": sum(s["direct"] for s in fmt_stats.values()),
        "immediates": extra,
        "split_formats_no_verdict": split_obs,
        "llvm_mc_second_oracle": xinfo,
        "jobs": len(jobs) + 1,
        "slowest_jobs": sorted(timings, reverse=True)[:5],
    })
    chk.assumptions += [
        "ASan/UBSan instrumented static build of /repo's working tree; CodeWriterUtils reached through the private header codewriter_p.h",
        "the target word is pre-filled with random bits outside the field and zeros inside (write_offset ORs the field in); the label "
        "programs confirm the assemblers leave the field zero at every collected site",
        "unsigned formats take the int64_t carrier as a 64-bit pattern (an unsigned 64-bit field holds every pattern)",
        "the Thumb/A32 split formats of codewriter.cpp are not constructed by any back end in this tree: they are exercised for memory "
        "safety only (in-range and arbitrary values) and carry no codec verdict; deviations from the documented layout are notes",
        "FP immediates are requested as doubles (the API takes a double); a value is encodable iff it equals VFPExpandImm(imm8) of the "
        "destination precision widened exactly to double",
        "add/sub: negative immediates count as unencodable (ADD has no encoding for them; turning them into SUB is an assembler convenience)",
        "32-bit bitmask immediates are passed zero-extended; mov w, #imm documents masking of the upper half",
        "fields wider than %d bits: limits +-64, powers of two +-1 and 10^6 random offsets (2*10^5 for grid formats in quick)" % exh_limit,
    ]
    rc = chk.finish()
    if rc == 0 and xinfo["disagreements"]:
        print("[C17] INCONCLUSIVE: llvm-mc disagrees on %d sampled encodings although the primary decoder agrees with asmjit: %s" %
              (len(xinfo["disagreements"]), xinfo["disagreements"][:3]), flush=True)
        return 2
    return rc
