"""C16 - Reset, reinit and reuse of holders and emitters leave no residue.

Runtime monitor: drv_reuse (ASan+UBSan build) runs random histories over ONE CodeHolder plus Assembler / Builder /
Compiler objects (init, attach, generate, finalize or not, post-process, detach, pending one-shot state, reset soft /
hard, reinit, destroy + recreate an emitter, logger / error-handler / diagnostic changes, heap noise) and compares a
probe program generated on the recycled objects - error code of every call, sections, labels, relocations, fixups,
relocated image - with the same program generated on fresh objects in the canonical configuration. This module shards
the histories, perturbs the allocator per shard, attributes sanitizer aborts / hangs / leaks to single histories,
has every alarm delta-debugged by the driver (`--shrink`) so that the key is the MINIMAL history, cross-checks the
canonical outputs between processes (different heap layouts, ASLR, allocator fill bytes) and merges the evidence.

Dimensions added in round 11 (each with measured counters; a run in which one of them observed nothing is inconclusive): CPU
features passed to init() and fields of the built-in .text section set by the user as junk state; per-function calling convention /
AVX / AVX-512 / preserved-FP / unavailable-register settings of Compiler functions; the arena watch of the ASan shards (memory that an
arena retains over a soft reset is poisoned until handed out again, in half of the histories quarantined until the history ends);
calls on detached emitters compared with emitters that were never attached; emitters that move to a second live holder and back.

Address independence: ASan's allocator puts every section buffer on a 64-byte boundary, which hides any dependence of the
output on the buffer address. So (a) ASan shards run with max_redzone 16 / 32 / default (buffers at 16 / 32 / 0 mod 64; seen by
the cross-process comparison) and (b) the same driver is also built PLAIN (glibc malloc, 16-byte granules) and runs as many
further histories: there the driver perturbs the heap from the case RNG before every history / fresh control / twin and steers
each control onto another residue than the run it is compared with. The residues observed are part of the evidence; a run in
which no variation at all was achieved is inconclusive (exit 2)."""
import json
import os
import re

from vlib import build, common

JOB_HISTORIES = {"quick": 125, "thorough": 2500}
TOTAL = {"quick": 24000, "thorough": 1200000}
MAX_SHRINKS = {"quick": 72, "thorough": 200}
MAX_CROSS_REPORTS = 24
CHUNK = 125


def asan_env(fill, rz=0):
    """Allocator perturbation of one shard: fresh heap memory is filled with `fill`, freed memory with ~fill.
    (MALLOC_PERTURB_ is what glibc honours - the plain build; under ASan the allocator is ASan's, so its own knobs are set too.)
    rz = 16 / 32: ASan's redzone is capped at that size, which puts every large block (section buffers) at rz mod 64."""
    base = common.SAN_ENV["ASAN_OPTIONS"]
    return {
        "ASAN_OPTIONS": "%s:malloc_fill_byte=%d:max_malloc_fill_size=262144:free_fill_byte=%d:max_free_fill_size=262144%s"
                        % (base, fill, (~fill) & 0xFF, ":max_redzone=%d" % rz if rz else ""),
        "MALLOC_PERTURB_": str(fill or 1),
    }


REDZONES = [0, 16, 0, 32, 0, 0]


def make_jobs(tier, seed, scale):
    per = JOB_HISTORIES[tier]
    total = max(per, int(TOTAL[tier] * scale))
    rng = common.Rng(seed * 1000003 + 16)
    dseed = rng.next() % (1 << 40)
    jobs = []
    first = 0
    while first < total:
        n = min(per, total - first)
        fill = [0x00, 0xFF, 0xA5, 0x5A, 0x01, 0x80, 0xCC, 0x7F][len(jobs) % 8] if len(jobs) % 3 else rng.below(256)
        jobs.append({"argv": ["--seed", str(dseed), "--first", str(first), "--histories", str(n)], "fill": fill,
                     "flavour": "asan", "rz": REDZONES[len(jobs) % len(REDZONES)]})
        first += n
    # the plain (glibc malloc) build runs as many FURTHER histories (it is several times faster)
    per_plain = per * 4 if tier == "quick" else per
    while first < 2 * total:
        n = min(per_plain, 2 * total - first)
        jobs.append({"argv": ["--seed", str(dseed), "--first", str(first), "--histories", str(n)], "fill": rng.below(256),
                     "flavour": "plain", "rz": 0})
        first += n
    return jobs


def canon_key(res):
    """Key of a shrunk alarm. Residue seen in the public state: field | architecture family | operation that should have
    cleaned it (stable over seeds; the minimal history goes to `what`). Output-level alarm whose minimal history also shows
    such residue: keyed as its consequence (the minimal history of those depends on the memory layout)."""
    key, note = res["key"], ""
    states = sorted(x for x in res.get("also", "").split() if x.startswith("state:"))
    if res["cls"].startswith("state:"):
        m = re.match(r"after (\w+),", res["what"] or "")
        fam = "a64" if "init(a64" in res["minimal"] else "x86"
        key = "%s|%s|after-%s" % (res["cls"], fam, m.group(1) if m else "?")
    elif states:
        key = "%s|consequence:%s" % (states[0], res["cls"])
        note = " | the same minimal history shows %s" % " ".join(states)
    return key, note


def last_history(err):
    m = re.findall(rb"@h (\d+)", err)
    return int(m[-1]) if m else None


def run(tier, args):
    chk = common.Check("C16", tier)
    exes = {"asan": build.build_driver("drv_reuse", "asan"), "plain": build.build_driver("drv_reuse", "plain")}

    def drv(argv, cfg, timeout=3000):
        """cfg: fill byte, flavour (asan / plain), rz (ASan redzone cap) of the shard the history belongs to."""
        return common.run_child([exes[cfg.get("flavour", "asan")]] + argv, timeout=timeout, env=asan_env(cfg.get("fill", 0), cfg.get("rz", 0)))

    def shrink(seed_arg, idx, cfg, target=None):
        rc, out, err = drv(["--seed", seed_arg, "--only", str(idx), "--shrink"] + (["--target", target] if target else []), cfg, timeout=3000)
        try:
            return json.loads(out.decode().strip().splitlines()[-1])
        except Exception:
            return None

    if args.replay:
        rp = json.load(open(args.replay))
        case = rp["case"]
        res = shrink(case["seed"], case["idx"], case, case.get("target"))
        if res is None:
            raise common.HarnessError("replay: driver produced no shrink result")
        if res["cls"] != "none":
            key, note = canon_key(res)
            chk.violation(key, "%s | minimal history: %s%s" % (res["what"], res["minimal"], note), case)
        chk.coverage.update({"evaluations": 1, "distinct_nontrivial": 2, "rule": "replay of one recorded history"})
        return chk.finish()

    jobs = make_jobs(tier, chk.seed, args.scale)

    def one(job):
        """Runs one shard; a sanitizer abort / hang kills the process at history N: record it and go on behind it."""
        argv = list(job["argv"])
        seed_arg = argv[1]
        first, count = int(argv[3]), int(argv[5])
        end = first + count
        summaries, crashes = [], []
        cur = first
        budget = 64          # sanitizer aborts tolerated per shard before the rest of it is given up (reported as a note)
        while cur < end:
            stop = min(end, cur + CHUNK)
            rc, out, err = drv(["--seed", seed_arg, "--first", str(cur), "--histories", str(stop - cur)], job)
            res = None
            try:
                res = json.loads(out.decode().strip().splitlines()[-1])
            except Exception:
                pass
            if res is not None and rc == 0:
                summaries.append(res)
                cur = stop
                continue
            idx = last_history(err)
            if rc == 0:
                raise common.HarnessError("driver %s exited 0 without a parsable summary: %s" % (argv, out[-300:]))
            if idx is None:
                raise common.HarnessError("driver %s rc=%s: no summary and no history marker: %s" % (argv, rc, err[-400:]))
            rep = common.sanitizer_report(err)
            crashes.append({"idx": idx, "rc": rc, "report": rep, "tail": re.sub(r"@h \d+\n", "", err[-3000:].decode("utf-8", "replace"))})
            # the histories before the dead one were executed but their summary is lost: rerun them alone (cheap)
            if idx > cur:
                rc2, out2, err2 = drv(["--seed", seed_arg, "--first", str(cur), "--histories", str(idx - cur)], job)
                try:
                    summaries.append(json.loads(out2.decode().strip().splitlines()[-1]))
                except Exception:
                    pass
            cur = idx + 1
            budget -= 1
            if budget <= 0:
                crashes.append({"idx": -1, "rc": 0, "report": None, "tail": "gave up shard after 64 aborts; histories %d..%d not run" % (cur, end)})
                break
        return job, seed_arg, summaries, crashes

    results = common.parallel_map(one, jobs)

    # ---- merge -------------------------------------------------------------------------------------------
    tot = {"histories": 0, "probes": 0, "nontrivial": 0, "fresh_runs": 0, "leak_checks": 0, "cleans": 0, "cleans_with_leftover": 0,
           "probe_programs_with_errors": 0, "expected_api_errors": 0, "nondet_checks": 0, "state_checks": 0,
           "probes_after_tweak": 0, "feat_checks": 0, "feat_sensitive": 0, "append_behind_funcs": 0, "append_behind_other_variant": 0,
           "pokes": 0, "poke_calls": 0, "pokes_own_eh": 0, "pokes_own_logger": 0, "away_runs": 0, "away_compared": 0, "away_spanning_clean": 0}
    dicts = {"steps": {}, "probes_by": {}, "progs_probed": {}, "progs_err": {}, "leftover_at_clean": {}, "perturb": {}, "static_sizes": {},
             "addr": {}, "aligns": {}, "pools": {}, "new_const": {}, "init_by": {}, "tweaks": {}, "fn_variants": {}, "fn_cc": {}, "invoke_cc": {},
             "arena_watch": {}, "poke_by_clean": {}, "away_by": {}}
    residues = {}        # allocator -> which run (recycled / fresh / twin) -> residue mod 64 -> compared runs
    by_alloc = {}        # allocator -> histories, pairs with different residue
    sigs = set()
    samples = []
    canon = {}
    canon_compared = 0
    canon_compared_other_alloc = 0
    cross_diff = 0
    alarms = []          # (prelim key, seed_arg, idx, fill, what, target id for the shrinker)
    leak_ranges = []
    for job, seed_arg, summaries, crashes in results:
        cfg = {"fill": job["fill"], "flavour": job["flavour"], "rz": job["rz"]}
        for res in summaries:
            for k in tot:
                tot[k] += res.get(k, 0)
            alloc = res.get("allocator", "?") + ("/max_redzone=%d" % job["rz"] if job["rz"] else "")
            for which in ("res_recycled", "res_fresh", "res_twin"):
                for r64, n in res.get(which, {}).items():
                    d = residues.setdefault(alloc, {}).setdefault(which[4:], {})
                    d[int(r64)] = d.get(int(r64), 0) + n
            ba = by_alloc.setdefault(alloc, {"histories": 0, "probes": 0, "pairs_different_residue": 0, "twins_different_residue": 0})
            ba["histories"] += res.get("histories", 0)
            ba["probes"] += res.get("probes", 0)
            ba["pairs_different_residue"] += res.get("addr", {}).get("pairs_different_residue", 0)
            ba["twins_different_residue"] += res.get("addr", {}).get("twins_different_residue", 0)
            for name in dicts:
                for k, v in res.get(name, {}).items():
                    if isinstance(v, list):
                        cur = dicts[name].setdefault(k, [0, 0])
                        cur[0] += v[0]
                        cur[1] += v[1]
                    else:
                        dicts[name][k] = dicts[name].get(k, 0) + v
            sigs.update(res.get("sigs", []))
            if len(samples) < 5:
                samples += res.get("samples", [])[:1]
            for k, h in res.get("canon", {}).items():
                if k in canon:
                    canon_compared += 1
                    if canon[k][1] != alloc:
                        canon_compared_other_alloc += 1
                    if canon[k][0] != h:
                        cross_diff += 1
                    if canon[k][0] != h and cross_diff <= MAX_CROSS_REPORTS:
                        chk.violation("cross-process:" + "/".join(p for p in k.split("/") if not re.match(r"s\d+$", p)),
                                      "fresh generation of %s gives different output in two processes (heap layout / ASLR / "
                                      "allocator fill byte / allocator: %s vs %s): %s vs %s" % (k, canon[k][1], alloc, canon[k][0], h),
                                      dict(cfg, seed=seed_arg, idx=0, note="cross-process " + k))
                else:
                    canon[k] = (h, alloc)
            for v in res["violations"]:
                if v["cls"] == "leak":
                    leak_ranges.append((seed_arg, v["range"], cfg))
                else:
                    alarms.append((v["key"], seed_arg, v["idx"], cfg, v["what"] + " | history: " + v["history"], v["id"]))
        for c in crashes:
            if c["idx"] < 0:
                chk.note(c["tail"])
                continue
            rep = c["report"]
            if rep:
                top = next((f for f in rep["frames"] if "asmjit" in f and "drv_reuse" not in f), rep["frames"][0] if rep["frames"] else "?")
                key = "sanitizer:%s:%s" % (re.sub(r"0x[0-9a-fA-F]+", "0x?", rep["kind"].split(" on ")[0])[:60], top.split("(")[0][:80])
                what = "%s %s" % (rep["kind"], rep["frames"][:6])
            elif c["rc"] in (-14, 142):
                key, what = "hang", "history did not finish (SIGALRM watchdog inside the driver)"
            else:
                key, what = "crash:rc=%s" % c["rc"], c["tail"][-300:]
            alarms.append((key, seed_arg, c["idx"], cfg, what, "hang" if key == "hang" else "sanitizer"))

    if cross_diff > MAX_CROSS_REPORTS:
        chk.note("%d canonical outputs differ between processes; the first %d are reported" % (cross_diff, MAX_CROSS_REPORTS))

    # leaks: the driver names a window of 32 histories; every history of the window is examined alone
    for seed_arg, (lo, hi), cfg in leak_ranges[:4]:
        for idx in range(lo, hi + 1):
            alarms.append(("leak", seed_arg, idx, cfg, "LeakSanitizer report within histories %d..%d" % (lo, hi), "leak"))

    # ---- every alarm class is reduced to its minimal history by the driver; that is the key ------------------
    by_key = {}
    for a in alarms:
        by_key.setdefault(a[0], []).append(a)
    # one representative per coarse key first (residue seen in the public state first: deterministic and cheap to shrink),
    # a second one while the budget lasts; every history of a leak window
    order = sorted(by_key, key=lambda k: (not k.startswith("state:"), k))
    todo = []
    if "leak" in by_key:
        todo += by_key["leak"][:64]
    for key in order:
        if key.startswith("state:"):
            todo += by_key[key][:2]
    for rnd in range(2):
        for key in order:
            if key.startswith("state:"):
                continue
            if key != "leak" and len(by_key[key]) > rnd and len(todo) < MAX_SHRINKS[tier] + (64 if "leak" in by_key else 0):
                todo.append(by_key[key][rnd])
    not_examined = sorted(k for k in by_key if not any(a[0] == k for a in todo))
    if not_examined:
        chk.note("shrink budget exhausted; coarse alarm keys not examined: %s" % ", ".join(not_examined)[:1500])

    def do_shrink(a):
        return a, shrink(a[1], a[2], a[3], a[5])

    shrunk_keys = {}
    for a, res in common.parallel_map(do_shrink, todo):
        prelim, seed_arg, idx, cfg, what, target = a
        case = dict(cfg, seed=seed_arg, idx=idx, target=target, argv=["--seed", seed_arg, "--only", str(idx), "--shrink", "--target", target])
        if res is None or res["cls"] == "none":
            if prelim == "leak":
                continue            # a history of the window that does not leak
            states0 = [x for x in (res or {}).get("also", "").split() if x.startswith("state:")]
            if states0:
                # memory-layout dependent consequence of residue that the same history shows in the emitter's public state
                chk.violation("%s|consequence:%s" % (sorted(states0)[0], target), what + " [flaky when run alone; the history shows %s]" % " ".join(sorted(states0)), case)
                continue
            if prelim == "hang":
                chk.note("watchdog fired in history %s of seed %s but the history finishes when run alone: not a verdict" % (idx, seed_arg))
                continue
            # not reproducible in isolation (depends on the heap state earlier histories left): keep the coarse key
            chk.violation("unshrunk:" + prelim, what + " [did not reproduce when the history ran alone]", case)
            continue
        key, note = canon_key(res)
        shrunk_keys.setdefault(key, 0)
        shrunk_keys[key] += 1
        chk.violation(key, "%s | %s | minimal history: %s%s | %d histories with coarse key '%s'" %
                      (res["what"] or what, what[:300], res["minimal"], note, len(by_key[prelim]), prelim), case)

    probes_by = dicts["probes_by"]
    distinct_res = sorted(set(r for v in residues.values() for d in v.values() for r in d))
    alignments_used, alignments_all = {}, {}
    for k, (unal, allc) in dicts["aligns"].items():
        fam, mode, al = k.split("/")
        alignments_all.setdefault(fam + "/" + mode, []).append(int(al))
        if unal:
            alignments_used.setdefault(fam + "/" + mode, []).append(int(al))
    for v in list(alignments_used.values()) + list(alignments_all.values()):
        v.sort()
    addr = dicts["addr"]
    in_process_pairs = addr.get("wide_align_pairs_different_residue", 0) + addr.get("wide_align_twins_different_residue", 0)
    if in_process_pairs == 0:
        chk.note("address independence: no pair of compared runs of a program that pads to 32 / 64 bytes had its .text buffers on "
                 "different residues mod 64 inside one process - this clause rests on the cross-process comparison only "
                 "(residues seen: %s)" % distinct_res)
    chk.coverage.update({
        "evaluations": tot["histories"],
        "distinct_nontrivial": len(sigs),
        "rule": "one evaluation = one history over one CodeHolder + emitters with at least one probe compared against fresh objects; "
                "distinct = distinct sequence of executed step kinds (operation, emitter kind, program, options - seeds ignored); non-trivial = a "
                "reset / reinit / detach / emitter destruction happened while state was left over (an earlier error, unbound labels or pending "
                "fixups, extra sections, relocations / address table, unfinalized builder nodes, pending one-shot state, an open function, a "
                "relocated image, fields of .text set by the user) AND a probe was compared afterwards",
        "samples": samples[:5],
        "histories_nontrivial": tot["nontrivial"],
        "probes_compared": tot["probes"],
        "probes_by_mode_kind_arch": probes_by,
        "probe_programs": dicts["progs_probed"],
        "probe_programs_ending_in_errors": tot["probe_programs_with_errors"],
        "probe_programs_ending_in_errors_by_program": dicts["progs_err"],
        # -- state the user sets directly: CPU features passed to init() (both overloads), fields of the built-in .text section
        "holder_initialisations_and_probes_by_cpu_feature_set": dicts["init_by"],
        "text_section_fields_set_by_user": dicts["tweaks"],
        "probes_after_a_clean_of_a_holder_with_user_set_text_section_fields": tot["probes_after_tweak"],
        "compiler_probes_regenerated_under_another_feature_set": tot["feat_checks"],
        "compiler_probes_whose_output_depends_on_the_feature_set": tot["feat_sensitive"],
        # -- per-function settings of Compiler functions (calling convention, AVX / AVX-512, preserved FP, unavailable registers)
        "compiler_functions_by_family_cc_slot_and_frame_attributes": dicts["fn_variants"],
        "compiler_functions_by_arch_and_calling_convention": dicts["fn_cc"],
        "invoked_signatures_by_arch_and_calling_convention": dicts["invoke_cc"],
        "append_probes_behind_unfinalized_functions_of_the_same_compiler": tot["append_behind_funcs"],
        "append_probes_behind_functions_with_other_settings": tot["append_behind_other_variant"],
        # -- arena watch (ASan shards): memory retained over a soft reset is poisoned / quarantined
        "arena_watch": dicts["arena_watch"],
        # -- detached emitters are called; emitters move to a second live holder and back
        "detached_emitter_pokes": tot["pokes"],
        "detached_emitter_calls": tot["poke_calls"],
        "detached_emitter_pokes_with_own_error_handler": tot["pokes_own_eh"],
        "detached_emitter_pokes_with_own_logger": tot["pokes_own_logger"],
        "detached_emitter_pokes_by_operation_that_detached": dicts["poke_by_clean"],
        "programs_generated_in_a_second_holder": tot["away_runs"],
        "programs_of_the_second_holder_compared": tot["away_compared"],
        "programs_of_the_second_holder_spanning_a_clean_of_the_first": tot["away_spanning_clean"],
        "programs_of_the_second_holder_by_kind_arch": dicts["away_by"],
        "steps_executed_skipped": dicts["steps"],
        "clean_operations": tot["cleans"],
        "clean_operations_with_leftover_state": tot["cleans_with_leftover"],
        "leftover_state_kinds_at_clean": dicts["leftover_at_clean"],
        "perturbations": dicts["perturb"],
        "static_arena_sizes": dicts["static_sizes"],
        "allocator_fill_bytes": sorted(set(j["fill"] for j in jobs)),
        "public_state_snapshots_compared": tot["state_checks"],
        "fresh_vs_fresh_rechecks_in_process": tot["nondet_checks"],
        "canonical_outputs_compared_across_processes": canon_compared,
        "canonical_outputs_compared_across_allocator_configurations": canon_compared_other_alloc,
        "align_calls_unaligned_offset_vs_all_by_family_mode_alignment": dicts["aligns"],
        "embed_const_pool_unaligned_offset_vs_all_by_family_emitter_pool_alignment": dicts["pools"],
        "compiler_new_const_by_family_scope_size": dicts["new_const"],
        "alignments_used_at_unaligned_offsets": alignments_used,
        "alignments_used": alignments_all,
        "canonical_outputs_differing_across_processes": cross_diff,
        "text_buffer_address_mod_64_of_compared_runs": {a: {w: {str(r): n for r, n in sorted(d.items())} for w, d in v.items()} for a, v in sorted(residues.items())},
        "distinct_residues_mod_64": distinct_res,
        "address_variation": dicts["addr"],
        "by_allocator": by_alloc,
        "api_calls_failing_as_expected": tot["expected_api_errors"],
        "leak_checks": tot["leak_checks"],
        "alarms_raw": len(alarms),
        "alarm_keys_after_shrinking": shrunk_keys,
        "exhaustive": False,
        "jobs": len(jobs),
    })
    chk.assumptions += [
        "ASan/UBSan instrumented build of /repo's working tree. Arena watch (harness side, ASan shards): the arenas of the recycled "
        "holder / builders / compilers are registered; at every arena request (fault-point hook H1 used as a notification) and after "
        "every API call an arena found reset has its retained memory poisoned (ASAN_POISON_MEMORY_REGION) until it is handed out again; "
        "in half of the histories the retained blocks are taken away and quarantined poisoned until the history ends, so a stale "
        "pointer is reported even after the arena would have reused the memory. A stale use BEFORE the next arena request / API call "
        "that follows the reset, or (non-quarantine histories) of memory already handed out again, is only seen through the output",
        "the fresh control uses the canonical configuration (dynamic arena, no logger, no error handler, no RA diagnostics) but the SAME "
        "validation options and base address as the recycled holder: validation legitimately changes which error an invalid program "
        "reports, and reinit() documents that it keeps the base address",
        "append probes (program generated behind earlier programs, many functions per Compiler) compare only position independent programs "
        "(no global constant pool, no absolute label addresses) from a 64-byte aligned marker on",
        "logger output itself is not compared (the property is about sections, labels and relocations)",
        "glibc's MALLOC_PERTURB_ has no effect under ASan; the ASan allocator's fill bytes and the in-process heap noise take its place "
        "(the plain build runs under glibc malloc with MALLOC_PERTURB_ set)",
        "ASan places blocks of more than ~200 bytes on 64-byte boundaries, so under ASan the address of a section buffer only varies "
        "between shards (max_redzone=16 / 32); in-process address variation (recycled vs fresh, fresh twins) comes from the plain "
        "build of the same driver, which has no memory-error detection - its verdicts are output comparisons only",
        "the driver steers a fresh control / twin onto another residue mod 64 than the run it is compared with by allocating and "
        "keeping blocks (up to 3 regenerations); steering changes heap layout only, never the script",
    ]
    rc = chk.finish()
    if rc == 0 and not args.replay:
        aw = dicts["arena_watch"]
        nothing = [name for name, n in (
            ("holders initialised with a CPU feature set", sum(v for k, v in dicts["init_by"].items() if "features" in k and not k.startswith("probes/"))),
            ("probes on holders initialised with a CPU feature set", sum(v for k, v in dicts["init_by"].items() if k.startswith("probes/") and "init(env,base)" not in k)),
            ("compiler probes whose output depends on the holder's CPU features", tot["feat_sensitive"]),
            ("probes behind a clean of user-set .text section fields", tot["probes_after_tweak"]),
            ("compiler functions with a non-default calling convention", sum(v for k, v in dicts["fn_cc"].items() if not k.endswith("/cdecl"))),
            ("compiler functions with AVX / AVX-512 / preserved FP", sum(v for k, v in dicts["fn_variants"].items() if "/avx" in k or "/fp" in k)),
            ("append probes behind functions compiled under other settings", tot["append_behind_other_variant"]),
            ("arena resets seen by the arena watch", aw.get("resets_with_retained_memory", 0)),
            ("arena blocks quarantined", aw.get("blocks_quarantined", 0)),
            ("pokes of detached emitters", tot["pokes"]),
            ("pokes of detached emitters with an own error handler", tot["pokes_own_eh"]),
            ("programs generated in a second holder and compared", tot["away_compared"]),
            ("programs of the second holder spanning a clean of the first", tot["away_spanning_clean"]),
        ) if n == 0]
        if nothing:
            raise common.HarnessError("dimension(s) observed nothing: " + "; ".join(nothing))
    if rc == 0 and len(distinct_res) < 2:
        raise common.HarnessError("address independence not examined: every compared run had its .text buffer on the same residue "
                                  "mod 64 (%s) - no variation of the buffer address was achieved" % distinct_res)
    return rc
