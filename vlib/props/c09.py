"""C09 - JitAllocator never hands out overlapping, misaligned or corrupted memory.

Runtime monitor: drv_jitalloc (ASan+UBSan build, hook H2) drives bounded-exhaustive and random
histories against a sequential model; this module shards the work, merges what the monitors saw
and turns it into a verdict.

Round 11 additions: the fill pattern is compared with the REQUESTED one; requests of 2^31..SIZE_MAX bytes; queries of the
granules next to a live span; shrink() through stale spans; fill pattern read back right after release/shrink;
overhead_size()/unused_size()/ratios; invalid CreateParams; dense histories (up to 1500 live spans); what the OS maps
(/proc/self/maps) against reserved_size() after reset/release-all/destructor; WriteScope and cache policies; mode
`misuse`: pointers that are not live span starts handed to release() (one probe per short history)."""
import json
import os

from vlib import build, common

DUAL, MULTI, FILL, IMM, NOPAD, LARGE, ALIGNLP, CUSTOM = 1, 2, 4, 8, 0x10, 0x20, 0x40, 0x10000000


def option_sets():
    sets = []
    singles = [0, DUAL, MULTI, FILL, IMM, NOPAD, LARGE, FILL | CUSTOM, LARGE | ALIGNLP, ALIGNLP,
               FILL | CUSTOM | DUAL, FILL | CUSTOM | MULTI | IMM]
    for s in singles:
        sets.append(s)
    base = [DUAL, MULTI, FILL, IMM, NOPAD, LARGE]
    for i in range(len(base)):
        for j in range(i + 1, len(base)):
            sets.append(base[i] | base[j])
    sets.append(DUAL | MULTI | FILL | IMM | NOPAD)
    sets.append(MULTI | FILL | IMM)
    return sets


PATTERNS = ["0x5AA5C33C", "0x01020304", "0xF4F4F4F4", "0x00000000", "0xFFFFFF00"]

# CreateParams that are documented as invalid: the allocator must fall back to the defaults and then behave like any other
INVALID_PARAMS = [("--granularity", "32"), ("--granularity", "96"), ("--granularity", "512"), ("--granularity", "1024"),
                  ("--granularity", "16384"), ("--block-size", "4096"), ("--block-size", "32768"), ("--block-size", "100000"),
                  ("--block-size", "196608"), ("--block-size", "0x20000000"), ("--block-size", "0xFFFFFFFF")]


def pattern_for(o, i):
    """custom pattern when kCustomFillPattern is set; otherwise every other job passes a pattern that must be ignored"""
    if o & CUSTOM:
        return PATTERNS[i % len(PATTERNS)]
    return "0xA5A5A5A5" if i % 2 else "0"


def extra_jobs(tier, rng, scale):
    """dimensions added in round 11: invalid CreateParams, pointers that are not span starts handed to release()"""
    jobs = []
    nh = max(1, int((4 if tier == "quick" else 16) * scale))
    nops = 1500 if tier == "quick" else 6000
    for i, (k, v) in enumerate(INVALID_PARAMS):
        o = [0, MULTI, FILL, DUAL | IMM][i % 4]
        jobs.append(["--mode", "random", "--histories", str(nh), "--ops", str(nops), "--options", str(o), k, v,
                     "--seed", str(rng.next() % (1 << 40))])
    nm = max(6, int((45 if tier == "quick" else 600) * scale))
    for i, o in enumerate([0, DUAL, MULTI, FILL, IMM, MULTI | FILL | IMM, DUAL | MULTI, FILL | CUSTOM]):
        jobs.append(["--mode", "misuse", "--histories", str(nm), "--options", str(o), "--granularity", str([0, 128, 256][i % 3]),
                     "--fill-pattern", pattern_for(o, i), "--seed", str(rng.next() % (1 << 40))])
    return jobs


def make_jobs(tier, seed, scale):
    jobs = []
    sets = option_sets()
    rng = common.Rng(seed)
    if tier == "quick":
        # bounded-exhaustive: depth 5 on the default configuration (full size alphabet), sharded
        for sh in range(16):
            jobs.append(["--mode", "exh", "--depth", "5", "--few-sizes", "--shards", "16", "--shard", str(sh)])
        jobs.append(["--mode", "exh", "--depth", "4"])
        for o in (FILL, IMM, DUAL | FILL, MULTI | NOPAD, MULTI | FILL | IMM):
            jobs.append(["--mode", "exh", "--depth", "4", "--few-sizes", "--options", str(o),
                         "--fill-pattern", "0x5AA5C33C" if o & CUSTOM else "0"])
        # bounded-exhaustive over sizes computed from the allocator's geometry (exact fit of a first / second block, -+ 1 granule)
        for o in (0, NOPAD, FILL, MULTI, DUAL | IMM):
            jobs.append(["--mode", "exh", "--depth", "4", "--geom-sizes", "--options", str(o), "--fill-pattern", "0"])
        nh, nops = int(12 * scale) or 1, 2000
        for i, o in enumerate(sets):
            gran = [0, 128, 256][i % 3]
            bs = [0, 65536, 131072, 262144][(i // 3) % 4]
            jobs.append(["--mode", "random", "--histories", str(nh), "--ops", str(nops), "--options", str(o),
                         "--granularity", str(gran), "--block-size", str(bs),
                         "--fill-pattern", pattern_for(o, i),
                         "--seed", str(rng.next() % (1 << 40))])
        jobs += extra_jobs(tier, common.Rng(seed ^ 0xC09E), scale)
    else:
        for sh in range(32):
            jobs.append(["--mode", "exh", "--depth", "6", "--few-sizes", "--shards", "32", "--shard", str(sh)])
        for sh in range(16):
            jobs.append(["--mode", "exh", "--depth", "5", "--shards", "16", "--shard", str(sh)])
        for o in sets:
            jobs.append(["--mode", "exh", "--depth", "5", "--few-sizes", "--options", str(o),
                         "--fill-pattern", "0x5AA5C33C" if o & CUSTOM else "0"])
        for o in (0, NOPAD, FILL):
            for sh in range(8):
                jobs.append(["--mode", "exh", "--depth", "5", "--geom-sizes", "--options", str(o), "--shards", "8", "--shard", str(sh)])
        for o in (MULTI, DUAL | IMM, MULTI | FILL | IMM, NOPAD | MULTI, IMM, DUAL | FILL):
            jobs.append(["--mode", "exh", "--depth", "4", "--geom-sizes", "--options", str(o), "--block-size", "131072" if o & IMM else "0"])
        nh, nops = int(40 * scale) or 1, 10000
        for rep in range(5):       # (29 option sets x 5 repetitions; it was 26 x 6 before the sets of round 11 were added)
            for i, o in enumerate(sets):
                gran = [0, 128, 256][(i + rep) % 3]
                bs = [0, 65536, 131072, 262144][(i // 3 + rep) % 4]
                jobs.append(["--mode", "random", "--histories", str(nh), "--ops", str(nops), "--options", str(o),
                             "--granularity", str(gran), "--block-size", str(bs),
                             "--fill-pattern", pattern_for(o, i + rep),
                             "--seed", str(rng.next() % (1 << 40))])
        jobs += extra_jobs(tier, common.Rng(seed ^ 0xC09E), scale)
        # long dense histories: up to 1500 live spans of 1..3 granules
        for o in (0, MULTI | FILL, DUAL):
            jobs.append(["--mode", "random", "--style", "3", "--histories", "2", "--ops", "40000", "--options", str(o),
                         "--seed", str(rng.next() % (1 << 40))])
        # a few very long histories
        for o in (0, MULTI, FILL | DUAL, IMM):
            jobs.append(["--mode", "random", "--histories", "2", "--ops", "100000", "--options", str(o),
                         "--seed", str(rng.next() % (1 << 40))])
    return jobs


def run(tier, args):
    chk = common.Check("C09", tier)
    exe = build.build_driver("drv_jitalloc", "asan")
    if args.replay:
        rp = json.load(open(args.replay))
        jobs = [rp["case"]["argv"]]
    else:
        jobs = make_jobs(tier, chk.seed, args.scale)

    os_every = ["--os-every", "1" if tier == "quick" else "3"]

    def one(argv):
        rc, out, err = common.run_child([exe] + argv + ([] if args.replay else os_every), timeout=3000)
        return argv, rc, out, err

    tot = {"histories": 0, "h2_walks": 0, "bytes_verified": 0, "fill_checked": 0, "reuse_observed": 0,
           "max_live": 0, "max_blocks": 0}
    ops = {}
    dims = {}
    distinct = set()
    distinct_all = 0
    exh_depth = 0
    samples = []
    for argv, rc, out, err in common.parallel_map(one, jobs):
        rep = common.sanitizer_report(err)
        if rep:
            top = next((f for f in rep["frames"] if "asmjit" in f), rep["frames"][0] if rep["frames"] else "?")
            chk.violation("sanitizer:%s:%s" % (rep["kind"].split(" on ")[0][:60], top.split("(")[0][:80]),
                          "sanitizer report under %s: %s %s" % (argv, rep["kind"], rep["frames"][:5]), {"argv": argv})
            continue
        try:
            res = json.loads(out.decode().strip().splitlines()[-1])
        except Exception:
            raise common.HarnessError("driver %s rc=%s produced no summary: %s" % (argv, rc, err[-500:]))
        for v in res["violations"]:
            chk.violation(v["key"], v["what"], {"argv": argv})
        for k in ("histories", "h2_walks", "bytes_verified", "fill_checked", "reuse_observed"):
            tot[k] += res[k]
        tot["max_live"] = max(tot["max_live"], res["max_live"])
        tot["max_blocks"] = max(tot["max_blocks"], res["max_blocks"])
        for k, v in res["ops"].items():
            ops[k] = ops.get(k, 0) + v
        for k, v in res.get("dims", {}).items():
            dims[k] = (dims.get(k, 0) + v) if k != "overhead_calibrated" else min(dims.get(k, 1), v)
        distinct.update(res["distinct"])
        distinct_all += res["distinct_all"]
        if argv[1] == "exh" and "--shard" not in argv or "--shard" in argv and argv[argv.index("--shard") + 1] == "0":
            if argv[1] == "exh":
                exh_depth = max(exh_depth, int(argv[3]))
        if len(samples) < 4:
            samples.append({"driver_args": argv, "histories": res["histories"], "ops": res["ops"]})

    chk.coverage.update({
        "evaluations": tot["histories"],
        "distinct_nontrivial": len(distinct),
        "rule": "one evaluation = one history of allocator operations replayed against the sequential model; distinct = distinct "
                "hash of the full operation sequence; non-trivial = the history reached >= 2 blocks or contained a shrink",
        "samples": samples,
        "operations_by_kind": ops,
        "h2_invariant_walks": tot["h2_walks"],
        "bytes_compared_with_shadow": tot["bytes_verified"],
        "fill_pattern_checks": tot["fill_checked"],
        "reuse_of_released_memory_observed": tot["reuse_observed"],
        "max_live_spans": tot["max_live"],
        "max_blocks": tot["max_blocks"],
        "option_sets": len(option_sets()),
        "added_dimensions": dims,
        "exhaustive_depth_reached": exh_depth,
        "exhaustive": False,
        "jobs": len(jobs),
    })
    chk.assumptions += [
        "ASan/UBSan instrumented build of /repo's working tree with -DASMJIT_VERIF (hook H2 reads allocator state under its own lock)",
        "bounded-exhaustive part enumerates every op sequence up to the stated depth over {alloc x sizes, release, shrink-to-1, shrink-half, soft reset} on 64 KiB blocks; it is exhaustive for that alphabet only",
        "large pages are not available in this sandbox: kUseLargePages exercises the fallback path only",
        "the expected fill pattern is the REQUESTED one (CreateParams::fill_pattern with kCustomFillPattern, otherwise what a default-constructed "
        "allocator reports); invalid CreateParams are expected to select the documented defaults (taken from a default-constructed allocator)",
        "overhead_size() is compared with a linear function of (blocks, granules) calibrated from two fresh one-block allocators in the same process "
        "(exact with one pool, an interval with several pools)",
        "mapped memory is read from /proc/self/maps (anonymous private rwx = single mapping, memfd 'vmem' / shm-id = both views of a dual mapping) and "
        "compared with statistics().reserved_size(); sampled in 1 of 64 bounded-exhaustive histories",
        "requests above 2^31-1 bytes may be refused or honoured; if honoured the span must be real and accounted (the memory is never touched); "
        "sizes just below the limit are not generated (they would reserve 2 GiB)",
        "geometry sizes: requests are computed from block_size(), granularity(), the padding option and the size of the block each pool mapped "
        "last (observed through statistics()); 'exact fit into a fresh block' is MEASURED (block_count grew and the growth of used_size equals the "
        "growth of reserved_size), not assumed",
        "release() probes with pointers that are not live span starts run one per short history (mode misuse), because an accepted probe "
        "leaves the bookkeeping undefined",
    ]
    if not args.replay and not chk.violations:
        need = ["custom_pattern_allocators", "ignored_pattern_allocators", "huge_requests", "nonlive_queries", "stale_shrinks",
                "release_fill_checked", "overhead_exact_checks", "invalid_param_allocators", "valid_block_size_allocators",
                "os_map_checks_after_hard_reset", "os_map_checks_after_destroy", "scoped_writes", "policy_writes", "misuse_probes",
                "dense_histories", "overhead_calibrated", "geom_requests", "exact_fit_fresh_block", "exact_fit_later_block",
                "geom_spill_into_bigger_block", "exact_fit_then_soft_reset", "exact_fit_then_shrink_and_tail_alloc", "exact_fit_then_release_all",
                "reset_dead_queries", "reset_retained_block_allocs"]
        empty = [k for k in need if not dims.get(k)]
        if empty or tot["max_live"] < 400:
            chk.finish()
            raise common.HarnessError("dimension(s) without a single observation: %s (max_live_spans=%d)" % (empty, tot["max_live"]))
    return chk.finish()
