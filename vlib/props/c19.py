"""C19 - Constant pool returns aligned, stable, deduplicated offsets with exact contents.

Runtime monitor: drv_constpool (ASan+UBSan build) drives ConstPool::add/fill histories - bounded-exhaustive over
small alphabets, random/adversarial, and pools written out by x86::Assembler / x86::Builder / x86::Compiler /
a64::Compiler - against an independent model (byte map + interval ownership). Allocation-failure histories (fexh /
frandom): the pool's Arena refuses the j-th request made inside a chosen add() (hook H1), for every add of every enumerated
sequence and every j reachable in it; the refused constant is requested again, earlier constants are re-added, halves /
quarters / new constants follow, the pool is written out by fill() and by embed_const_pool() of x86/a64 Assembler/Builder
(now and then right after the refusal, with a logger, and with an arena request of the embed itself refused: the pool is
then embedded again under a new label). Compiler cases: constants go through _new_const() and the typed wrappers
(new_byte_const .. new_double_const) of x86::Compiler (64- and 32-bit target) and a64::Compiler; in half of them arena
requests fail anywhere inside _new_const() (pool node, label registration, add()); scopes that do not exist are refused.
Embeds of pools larger than the first CodeBuffer and into a second section. Every dimension has a floor: a run in which
one of them observed nothing is inconclusive (exit 2).
This module shards the work, merges what the monitors saw and turns it into a verdict."""
import json
import platform
import re

from vlib import build, common

ALPHABETS = 9  # drv_constpool.cpp: alphabet(k), 6 items each


def make_jobs(tier, seed, scale):
    jobs = []
    rng = common.Rng(seed)

    def s():
        return str(rng.next() % (1 << 40))

    if tier == "quick":
        # every sequence of length 7 (=> every length <= 7) over each 6-item alphabet, fill() re-checked after every add
        for a in range(ALPHABETS):
            for sh in range(8):
                jobs.append(["--mode", "exh", "--alpha", str(a), "--len", "7", "--shards", "8", "--shard", str(sh)])
        # same with a fresh pool for every sequence (no reset()/reuse in the picture), one level shallower
        for a in range(ALPHABETS):
            jobs.append(["--mode", "exh", "--alpha", str(a), "--len", "6", "--fresh"])
        n = max(1, int(5000 * scale))
        for i in range(32):
            jobs.append(["--mode", "random", "--seqs", str(n), "--maxlen", "1500", "--seed", s()] + (["--fresh"] if i % 8 == 7 else []))
        for i in range(4):
            jobs.append(["--mode", "random", "--seqs", str(max(1, int(4 * scale))), "--minlen", "2500", "--maxlen", "5000", "--seed", s()])
        for i in range(16):
            jobs.append(["--mode", "emit", "--cases", str(max(1, int(1500 * scale))), "--seed", s()])
        # allocation-failure histories: every sequence of length 3 over each alphabet x every add x every arena request of it
        for a in range(ALPHABETS):
            sh_n = 4 if a in (3, 7) else 2
            for sh in range(sh_n):
                jobs.append(["--mode", "fexh", "--alpha", str(a), "--len", "3", "--shards", str(sh_n), "--shard", str(sh)])
        for i in range(16):
            jobs.append(["--mode", "frandom", "--seqs", str(max(1, int(6000 * scale))), "--seed", s()])
    else:
        for a in range(ALPHABETS):
            for sh in range(32):
                jobs.append(["--mode", "exh", "--alpha", str(a), "--len", "9", "--shards", "32", "--shard", str(sh)])
        for a in range(ALPHABETS):
            for sh in range(2):
                jobs.append(["--mode", "exh", "--alpha", str(a), "--len", "7", "--fresh", "--shards", "2", "--shard", str(sh)])
        n = max(1, int(16000 * scale))
        for i in range(64):
            jobs.append(["--mode", "random", "--seqs", str(n), "--maxlen", "2500", "--seed", s()] + (["--fresh"] if i % 8 == 7 else []))
        for i in range(16):
            jobs.append(["--mode", "random", "--seqs", str(max(1, int(12 * scale))), "--minlen", "5000", "--maxlen", "20000", "--seed", s()])
        for i in range(48):
            jobs.append(["--mode", "emit", "--cases", str(max(1, int(3000 * scale))), "--seed", s()])
        for a in range(ALPHABETS):
            for sh in range(16):
                jobs.append(["--mode", "fexh", "--alpha", str(a), "--len", "4", "--shards", "16", "--shard", str(sh)])
        for i in range(48):
            jobs.append(["--mode", "frandom", "--seqs", str(max(1, int(30000 * scale))), "--seed", s()])
    return jobs


def stable(text):
    """violation keys must not contain addresses or line numbers"""
    text = re.sub(r"0x[0-9a-fA-F]+", "ADDR", text)
    return re.sub(r"@?\S*\.(cpp|h):\d+(:\d+)?", "", text).strip()


SUM_KEYS = ("sequences", "adds", "valid_adds", "invalid_rejected", "sharing", "gap_reuse", "dedup", "append", "fills",
            "bytes_compared", "resets", "pool_reuse", "readd_checks", "nontrivial", "emit_cases", "emit_pools",
            "emit_exec", "emit_exec_bytes",
            "fault_histories", "fault_armed", "fault_fired", "fault_swallowed", "refused", "refused_left_bytes", "retries",
            "retries_dedup", "retries_over_later", "consts_after_refusal", "readd_after_refusal", "derived_after_refusal",
            "embeds_after_refusal", "reuse_after_refusal")


def run(tier, args):
    chk = common.Check("C19", tier)
    exe = build.build_driver("drv_constpool", "asan")
    if args.replay:
        rp = json.load(open(args.replay))
        jobs = [rp["case"]["argv"]]
    else:
        jobs = make_jobs(tier, chk.seed, args.scale)

    # a job takes 2-20 s of CPU; the watchdog only exists for a pool that loops forever (seen with a mutated reset())
    watchdog = 200 if tier == "quick" else 1500

    def one(argv):
        try:
            rc, out, err = common.run_child([exe] + argv, timeout=watchdog)
        except common.HarnessError as e:
            return argv, None, getattr(e, "partial_stdout", b""), str(e).encode()
        return argv, rc, out, err

    tot = {k: 0 for k in SUM_KEYS}
    tot["max_pool_size"] = 0
    tot["max_len"] = 0
    tot["max_requests_in_add"] = 0
    refused_by_index = [0] * 41
    refused_by_pos = {}
    fault_embed_paths = {}
    extra = {}
    fexh_nontrivial = 0
    fexh_sequences = 0
    fexh_done = {}
    fault_samples = []
    by_size = [0] * 7
    emit_paths = {}
    distinct = set()
    exh_nontrivial = 0
    exh_len = 0
    exh_done = {}
    exh_sequences = 0
    exh_fresh_sequences = 0
    samples = []
    dead = []
    for argv, rc, out, err in common.parallel_map(one, jobs):
        rep = common.sanitizer_report(err)
        if rep:
            top = next((f for f in rep["frames"] if "asmjit" in f), rep["frames"][0] if rep["frames"] else "?")
            chk.violation("sanitizer:%s:%s" % (stable(rep["kind"].split(" on ")[0])[:70], stable(top.split("(")[0].split(" /")[0])[:80]),
                          "sanitizer report under %s: %s %s" % (argv, rep["kind"], rep["frames"][:6]), {"argv": argv})
            continue
        try:
            res = json.loads(out.decode().strip().splitlines()[-1])
            if "violations" not in res:
                raise ValueError("no summary line")
        except Exception:
            # killed without a sanitizer report or a summary (e.g. RSS limit / OOM killer): the counterexamples the driver wrote
            # out before it died count; the run itself is inconclusive, not an alarm
            for l in out.decode(errors="replace").splitlines():
                if l.startswith('{"early_violation"'):
                    try:
                        v = json.loads(l)["early_violation"]
                        chk.violation(v["key"], v["what"] + " [driver died afterwards, rc=%s]" % rc, {"argv": argv})
                    except Exception:
                        pass
            dead.append("driver %s rc=%s produced no summary: %s" % (argv, rc, err[-300:]))
            continue
        fresh_alarm = False
        for v in res["violations"]:
            # violation() answers False for a key that known_findings.json lists as known
            if chk.violation(v["key"], v["what"], {"argv": argv}) is not False:
                fresh_alarm = True
        for k, v in res.get("extra", {}).items():
            if k.startswith("max:"):
                extra[k[4:]] = max(extra.get(k[4:], 0), v)
            elif k.startswith("host_"):
                extra[k] = max(extra.get(k, 0), v)
            else:
                extra[k] = extra.get(k, 0) + v
        for k in SUM_KEYS:
            tot[k] += res[k]
        tot["max_pool_size"] = max(tot["max_pool_size"], res["max_pool_size"])
        tot["max_len"] = max(tot["max_len"], res["max_len"])
        for i, v in enumerate(res["by_size"]):
            by_size[i] += v
        for k, v in res["emit_paths"].items():
            emit_paths[k] = emit_paths.get(k, 0) + v
        tot["max_requests_in_add"] = max(tot["max_requests_in_add"], res["max_requests_in_add"])
        for i, v in enumerate(res["refused_by_index"]):
            refused_by_index[i] += v
        for k, v in res["refused_by_pos"].items():
            refused_by_pos[k] = refused_by_pos.get(k, 0) + v
        for k, v in res["fault_embed_paths"].items():
            fault_embed_paths[k] = fault_embed_paths.get(k, 0) + v
        mode = argv[1]
        if mode == "exh":
            # enumerated sequences are pairwise distinct by construction (distinct indices, distinct alphabets); the
            # --fresh jobs re-run a sub-space of the same sequences and are not counted again
            if "--fresh" not in argv:
                exh_nontrivial += res["nontrivial"]
                exh_sequences += res["sequences"]
                a, ln = argv[argv.index("--alpha") + 1], int(argv[argv.index("--len") + 1])
                if not fresh_alarm:
                    exh_done.setdefault((a, ln), 0)
                    exh_done[(a, ln)] += 1
            else:
                exh_fresh_sequences += res["sequences"]
        elif mode == "fexh":
            # (sequence, failing add, failing request, sticky, follow-up variant) tuples are distinct by construction
            fexh_nontrivial += res["nontrivial"]
            fexh_sequences += res["sequences"]
            if not fresh_alarm:
                k = (argv[argv.index("--alpha") + 1], int(argv[argv.index("--len") + 1]))
                fexh_done[k] = fexh_done.get(k, 0) + 1
        else:
            distinct.update(res["distinct"])
        if mode in ("fexh", "frandom"):
            if res["samples"] and len(fault_samples) < 2:
                fault_samples.append({"driver_args": argv, "ops[size,bytes,offset,kind F=refused P=storage assigned by the refused call,"
                                      "n-th arena request of the add that failed (negative: and all later)]": res["samples"][0]})
        elif res["samples"] and len(samples) < 4:
            samples.append({"driver_args": argv, "ops[size,bytes,offset,kind N=append G=gap S=shared D=dedup I=refused]": res["samples"][0]})

    if dead:
        if not chk.violations:
            raise common.HarnessError(dead[0])
        chk.note("%d driver run(s) died without a summary (not counted): %s" % (len(dead), dead[0]))

    # the enumeration counts as complete only if every shard of every alphabet finished without an alarm
    expected = {}
    for j in jobs:
        if j[1] == "exh" and "--fresh" not in j:
            k = (j[j.index("--alpha") + 1], int(j[j.index("--len") + 1]))
            expected[k] = expected.get(k, 0) + 1
    if expected and all(exh_done.get(k, 0) == n for k, n in expected.items()) and \
            len(set(a for a, _ in expected)) == ALPHABETS:
        exh_len = min(ln for (_, ln) in expected)
    fexpected = {}
    for j in jobs:
        if j[1] == "fexh":
            k = (j[j.index("--alpha") + 1], int(j[j.index("--len") + 1]))
            fexpected[k] = fexpected.get(k, 0) + 1
    fexh_len = 0
    if fexpected and all(fexh_done.get(k, 0) == n for k, n in fexpected.items()) and \
            len(set(a for a, _ in fexpected)) == ALPHABETS:
        fexh_len = min(ln for (_, ln) in fexpected)
    if not args.replay and fexpected and tot["refused"] == 0:
        raise common.HarnessError("allocation-failure histories ran but no add() was refused: hook H1 not effective")
    # Floors: every dimension the verdict leans on must have been observed, otherwise the run is inconclusive. (Not applied
    # to a replay or to a run that already holds an alarm: a failed history ends early.)
    modes = set(j[1] for j in jobs)
    if not args.replay and not chk.violations:
        missing = []

        def need(name, value):
            if not value:
                missing.append(name)

        if "exh" in modes or "random" in modes:
            for k in ("sharing", "gap_reuse", "dedup", "append", "invalid_rejected", "fills", "readd_checks", "pool_reuse"):
                need(k, tot[k])
            need("is_empty_checked_after_successful_add", extra.get("is_empty_checked_after_successful_add"))
            for i, v in enumerate(by_size):
                need("valid adds of size %d" % (1 << i), v)
        if "emit" in modes:
            for k in ("x86::Compiler", "a64::Compiler", "x86::Builder", "x86::Assembler", "with-logger", "x86::Compiler:32-bit-target",
                      "x86::Compiler:with-refused-requests", "a64::Compiler:with-refused-requests", "load:32-bit-target"):
                need("emitter path " + k, emit_paths.get(k))
            need("emit_pools", tot["emit_pools"])
            if platform.machine() in ("x86_64", "AMD64"):
                need("host_can_execute", extra.get("host_can_execute"))
                need("emit_exec", tot["emit_exec"])
                need("emit_exec_bytes", tot["emit_exec_bytes"])
                need("jit_functions_executed_in_cases_with_refused_requests", extra.get("jit_functions_executed_in_cases_with_refused_requests"))
                for k in ("load:gp", "load:gp-chunks", "load:xmm"):
                    need("emitter path " + k, emit_paths.get(k))
                if extra.get("host_has_avx"):
                    need("emitter path load:ymm", emit_paths.get("load:ymm"))
                if extra.get("host_has_avx512"):
                    need("emitter path load:zmm", emit_paths.get("load:zmm"))
            for arch, sized in (("x86", ("byte", "word", "dword", "qword")), ("a64", ("byte", "half", "word", "dword"))):
                for w in ["new_%s_const" % x for x in sized + ("int16", "uint16", "int32", "uint32", "int64", "uint64", "float", "double")] + ["new_const"]:
                    need("typed wrapper %s:%s" % (arch, w), extra.get("typed_wrapper:%s:%s" % (arch, w)))
                need("newconst_refused:%s:inside-add" % arch, extra.get("newconst_refused:%s:inside-add" % arch))
                need("newconst_refused:%s:pool-creation" % arch,
                     sum(v for k, v in extra.items() if k.startswith("newconst_refused:%s:pool-creation" % arch)))
            for k in ("invalid_scope_refused:_new_const", "invalid_scope_refused:typed-new_const", "newconst_handed_out_after_refused_pool_creation",
                      "newconst_asked_again_at_once", "newconst_asked_again_before_scope_end", "compiler_pools_with_refused_add_checked_in_section",
                      "emitter_pools_larger_than_first_code_buffer_checked", "emitter_pools_in_a_second_section_checked"):
                need(k, extra.get(k))
        if "fexh" in modes or "frandom" in modes:
            for k in ("x86::Assembler", "x86::Builder", "a64::Assembler", "a64::Builder"):
                need("embed_const_pool in failure histories through " + k, fault_embed_paths.get(k))
            for k in ("x86::Builder", "a64::Builder"):
                need("embed_refused:" + k, sum(v for kk, v in extra.items() if kk.startswith("embed_refused:" + k)))
            for k in ("embed_again_after_refused_embed", "embeds_right_after_a_refused_add", "embeds_with_logger_after_a_refusal",
                      "embeds_with_logger_that_logged"):
                need(k, extra.get(k))
            for k in ("retries", "readd_after_refusal", "derived_after_refusal", "embeds_after_refusal",
                      "reuse_after_refusal", "consts_after_refusal"):
                need(k, tot[k])
        if missing:
            raise common.HarnessError("dimension(s) of the workload observed nothing: " + ", ".join(missing))

    chk.coverage.update({
        "evaluations": tot["sequences"],
        "distinct_nontrivial": exh_nontrivial + fexh_nontrivial + len(distinct),
        "rule": "one evaluation = one sequence of ConstPool::add calls on one pool, checked against the model after every add "
                "(short sequences) or at checkpoints (long ones) with a fresh fill() into a guard-banded buffer; distinct = "
                "distinct hash of the (size,bytes) sequence (enumerated sequences are distinct by construction); non-trivial = "
                "at least one add was placed into an alignment gap or shared a slot inside an earlier wider constant. "
                "Completely enumerated sub-space: all sequences of length <= exhaustive_length_reached over each of the "
                "%d six-item alphabets of drv_constpool.cpp; everything else is sampled. Allocation-failure histories: one "
                "evaluation = one sequence on one pool in which chosen arena requests made inside add() calls fail (hook H1); "
                "enumerated ones = every sequence of length failure_histories_exhaustive_length over each alphabet x every add "
                "of a valid size x every arena request reachable inside it x {only that request, that and all later ones of "
                "the call} x {retry at once, halves/quarters first, rest of the sequence first}" % ALPHABETS,
        "samples": samples + fault_samples,
        "exhaustive": False,
        "exhaustive_length_reached": exh_len,
        "exhaustive_alphabets": ALPHABETS,
        "exhaustive_sequences": exh_sequences,
        "exhaustive_sequences_repeated_on_fresh_pools": exh_fresh_sequences,
        "random_and_emitter_sequences": tot["sequences"] - exh_sequences - exh_fresh_sequences,
        "adds": tot["adds"],
        "valid_adds_by_size_1_2_4_8_16_32_64": by_size,
        "sharing_events": tot["sharing"],
        "gap_reuses": tot["gap_reuse"],
        "dedup_hits": tot["dedup"],
        "appends": tot["append"],
        "invalid_size_rejections": tot["invalid_rejected"],
        "fill_calls_checked": tot["fills"],
        "bytes_compared_after_fill": tot["bytes_compared"],
        "pool_resets": tot["resets"],
        "sequences_on_reused_pool": tot["pool_reuse"],
        "readd_same_offset_checks": tot["readd_checks"],
        "longest_sequence": tot["max_len"],
        "largest_pool_bytes": tot["max_pool_size"],
        "emitter_cases": tot["emit_cases"],
        "emitter_pools_checked_in_section": tot["emit_pools"],
        "emitter_paths": emit_paths,
        "jit_functions_executed": tot["emit_exec"],
        "jit_loaded_constant_bytes_compared": tot["emit_exec_bytes"],
        "failure_histories_exhaustive_length": fexh_len,
        "failure_histories_enumerated": fexh_sequences,
        "histories_with_a_refused_request": tot["fault_histories"],
        "adds_with_a_failure_armed": tot["fault_armed"],
        "adds_in_which_the_armed_request_was_reached": tot["fault_fired"],
        "failed_requests_not_reported_by_add_(gap_records_only)": tot["fault_swallowed"],
        "refused_requests": tot["refused"],
        "refused_requests_by_position_inside_add": refused_by_pos,
        "refused_requests_by_ordinal_of_the_failed_arena_request_1_to_40": refused_by_index[1:],
        "most_arena_requests_seen_in_one_add": tot["max_requests_in_add"],
        "refused_requests_that_left_the_constant_registered_(visible_in_fill)": tot["refused_left_bytes"],
        "retries_of_refused_constants_handed_out": tot["retries"],
        "retries_answered_without_arena_request_(constant_was_registered_by_the_refused_call)": tot["retries_dedup"],
        "constants_handed_out_over_storage_assigned_by_a_refused_call_and_shared_since": tot["retries_over_later"],
        "constants_checked_after_a_refusal_(offset_and_bytes_in_a_fresh_image)": tot["consts_after_refusal"],
        "earlier_constants_readded_after_a_refusal_same_offset": tot["readd_after_refusal"],
        "halves_quarters_new_constants_added_after_a_refusal": tot["derived_after_refusal"],
        "embed_const_pool_checked_after_a_refusal": tot["embeds_after_refusal"],
        "embed_const_pool_emitters_in_failure_histories": fault_embed_paths,
        "histories_on_a_pool_reset_after_it_refused_a_request": tot["reuse_after_refusal"],
        "is_empty_checked_after_successful_add": extra.get("is_empty_checked_after_successful_add", 0),
        "compiler_new_const_calls_with_an_arena_request_armed_to_fail": extra.get("newconst_faults_armed", 0),
        "compiler_new_const_calls_in_which_the_armed_request_was_reached": extra.get("newconst_faults_reached", 0),
        "compiler_new_const_refusals_by_emitter_and_place": {k[len("newconst_refused:"):]: v for k, v in sorted(extra.items()) if k.startswith("newconst_refused:")},
        "compiler_new_const_failed_requests_not_reported": {k[len("newconst_fault_not_reported:"):]: v for k, v in sorted(extra.items()) if k.startswith("newconst_fault_not_reported:")},
        "compiler_constants_handed_out_in_a_scope_whose_pool_creation_was_refused_before": extra.get("newconst_handed_out_after_refused_pool_creation", 0),
        "compiler_refused_constants_asked_again_at_once": extra.get("newconst_asked_again_at_once", 0),
        "compiler_refused_constants_asked_again_before_scope_end": extra.get("newconst_asked_again_before_scope_end", 0),
        "compiler_pools_with_refused_add_checked_in_section": extra.get("compiler_pools_with_refused_add_checked_in_section", 0),
        "jit_functions_executed_in_cases_with_refused_requests": extra.get("jit_functions_executed_in_cases_with_refused_requests", 0),
        "typed_wrapper_calls": extra.get("typed_wrapper_calls", 0),
        "typed_wrapper_calls_by_name": {k[len("typed_wrapper:"):]: v for k, v in sorted(extra.items()) if k.startswith("typed_wrapper:")},
        "invalid_scope_refused": {k[len("invalid_scope_refused:"):]: v for k, v in sorted(extra.items()) if k.startswith("invalid_scope_refused:")},
        "emitter_pools_larger_than_first_code_buffer_checked": extra.get("emitter_pools_larger_than_first_code_buffer_checked", 0),
        "emitter_pools_in_a_second_section_checked": extra.get("emitter_pools_in_a_second_section_checked", 0),
        "largest_embedded_pool_bytes": extra.get("largest_embedded_pool_bytes", 0),
        "embed_const_pool_calls_with_an_arena_request_armed_to_fail": extra.get("embed_faults_armed", 0),
        "most_arena_requests_seen_in_one_embed_const_pool": extra.get("most_arena_requests_seen_in_one_embed_const_pool", 0),
        "embed_const_pool_refusals_by_emitter_and_request": {k[len("embed_refused:"):]: v for k, v in sorted(extra.items()) if k.startswith("embed_refused:")},
        "embed_const_pool_failed_requests_not_reported": {k[len("embed_fault_not_reported:"):]: v for k, v in sorted(extra.items()) if k.startswith("embed_fault_not_reported:")},
        "pools_embedded_again_under_a_new_label_after_a_refused_embed": extra.get("embed_again_after_refused_embed", 0),
        "embeds_right_after_a_refused_add": extra.get("embeds_right_after_a_refused_add", 0),
        "embeds_with_logger_in_failure_histories": extra.get("embeds_with_logger_that_logged", 0) + extra.get("embeds_with_logger_that_logged_nothing", 0),
        "embeds_with_logger_after_a_refusal": extra.get("embeds_with_logger_after_a_refusal", 0),
        "embeds_without_logger_because_min_item_size_0": extra.get("embeds_without_logger_because_min_item_size_0", 0),
        "logged_embeds_of_pools_with_size_but_min_item_size_0_run_in_a_child_process": extra.get("logged_embeds_of_pools_with_size_but_min_item_size_0_(child_process)", 0),
        "jit_runtime_add_failed": extra.get("jit_runtime_add_failed", 0),
        "host": {k: v for k, v in sorted(extra.items()) if k.startswith("host_")},
        "jobs": len(jobs),
    })
    chk.assumptions += [
        "ASan/UBSan instrumented static build of the working tree; constants are handed to add() flush against a poisoned region or from odd addresses",
        "allocation faults (hook H1, -DASMJIT_VERIF build) are injected only (a) in the failure histories (fexh/frandom) into arena requests made inside ConstPool::add() and inside embed_const_pool() of the four emitters, (b) in one half of the Compiler cases into arena requests made anywhere inside BaseCompiler::_new_const() (pool node, its label, add()); everywhere else an add() of a valid size that fails is reported. CodeBuffer growth (realloc) cannot be made to fail through H1: Assembler::embed_const_pool() is never refused",
        "a refused _new_const()/embed_const_pool() owes nothing by itself (no demand that the label stays unbound or that the scope has no pool); what is handed out / written out afterwards is held to the statement: an operand returned with kOk must be [L + offset] with L the label registered to the scope's pool node, the pool embedded again under a new label must be complete",
        "_new_const() with a ConstPoolScope above kMaxValue must return an error, hand out no operand with a base and leave both pools of the Compiler unchanged; the typed wrappers (new_byte_const .. new_double_const, new_const) signal failure only through a reset operand ([0], no base)",
        "min_item_size() is not part of the statement and is not checked (a shared half handed out by lookup does not lower it); is_empty() must be false once an offset was handed out. A pool with size() > 0 and min_item_size() == 0 is written out with a logger only in a child process (at most 4 per shard)",
        "a refused add() may have registered nothing, the constant, or the constant and some of its shared sub-patterns; its bytes may show up in fill() in storage owned by no handed-out constant; not required: a particular error code, min_item_size(), that the refused call leaves size() unchanged",
        "after a refusal a constant may be handed out over narrower constants with equal bytes iff a refused, not yet handed out constant that contains it as an aligned slice (or is it) explains the placement and the narrower ones were handed out after that refusal",
        "embed_const_pool() must bind the pool label at a section offset that is a multiple of the largest constant handed out (not only of alignment())",
        "a new constant may lie inside an earlier wider constant only if the bytes there are equal (sharing); a wider constant laid over earlier narrower ones is reported as overlap even if bytes agree (asmjit documents that it never does that)",
        "alignment() is required to be a power of two >= the largest size added; size() >= every offset+size; neither is required to be minimal",
        "emitter paths: section bytes at label+offset are compared for x86 Assembler/Builder/Compiler (64-bit and 32-bit target) and a64 Compiler, in .text or in a second section; loads through the returned operand are executed for x86-64 only",
    ]
    return chk.finish()
