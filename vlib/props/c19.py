"""C19 - Constant pool returns aligned, stable, deduplicated offsets with exact contents.

Runtime monitor: drv_constpool (ASan+UBSan build) drives ConstPool::add/fill histories - bounded-exhaustive over
small alphabets, random/adversarial, and pools written out by x86::Assembler / x86::Builder / x86::Compiler /
a64::Compiler - against an independent model (byte map + interval ownership). This module shards the work,
merges what the monitors saw and turns it into a verdict."""
import json
import re

from vlib import build, common

ALPHABETS = 9  # drv_constpool.cpp: alphabet(k), 6 items each


def make_jobs(tier, seed, scale):
    jobs = []
    rng = common.Rng(seed)

    def s():
        return str(rng.next() % (1 << 40))

    if tier == "quick":
        # every sequence of length 7 (=> every length <= 7) over each 6-item alphabet, fill() re-checked after every add
        for a in range(ALPHABETS):
            for sh in range(8):
                jobs.append(["--mode", "exh", "--alpha", str(a), "--len", "7", "--shards", "8", "--shard", str(sh)])
        # same with a fresh pool for every sequence (no reset()/reuse in the picture), one level shallower
        for a in range(ALPHABETS):
            jobs.append(["--mode", "exh", "--alpha", str(a), "--len", "6", "--fresh"])
        n = max(1, int(5000 * scale))
        for i in range(32):
            jobs.append(["--mode", "random", "--seqs", str(n), "--maxlen", "1500", "--seed", s()] + (["--fresh"] if i % 8 == 7 else []))
        for i in range(4):
            jobs.append(["--mode", "random", "--seqs", str(max(1, int(4 * scale))), "--minlen", "2500", "--maxlen", "5000", "--seed", s()])
        for i in range(16):
            jobs.append(["--mode", "emit", "--cases", str(max(1, int(1500 * scale))), "--seed", s()])
    else:
        for a in range(ALPHABETS):
            for sh in range(32):
                jobs.append(["--mode", "exh", "--alpha", str(a), "--len", "9", "--shards", "32", "--shard", str(sh)])
        for a in range(ALPHABETS):
            for sh in range(2):
                jobs.append(["--mode", "exh", "--alpha", str(a), "--len", "7", "--fresh", "--shards", "2", "--shard", str(sh)])
        n = max(1, int(16000 * scale))
        for i in range(64):
            jobs.append(["--mode", "random", "--seqs", str(n), "--maxlen", "2500", "--seed", s()] + (["--fresh"] if i % 8 == 7 else []))
        for i in range(16):
            jobs.append(["--mode", "random", "--seqs", str(max(1, int(12 * scale))), "--minlen", "5000", "--maxlen", "20000", "--seed", s()])
        for i in range(48):
            jobs.append(["--mode", "emit", "--cases", str(max(1, int(3000 * scale))), "--seed", s()])
    return jobs


def stable(text):
    """violation keys must not contain addresses or line numbers"""
    text = re.sub(r"0x[0-9a-fA-F]+", "ADDR", text)
    return re.sub(r"@?\S*\.(cpp|h):\d+(:\d+)?", "", text).strip()


SUM_KEYS = ("sequences", "adds", "valid_adds", "invalid_rejected", "sharing", "gap_reuse", "dedup", "append", "fills",
            "bytes_compared", "resets", "pool_reuse", "readd_checks", "nontrivial", "emit_cases", "emit_pools",
            "emit_exec", "emit_exec_bytes")


def run(tier, args):
    chk = common.Check("C19", tier)
    exe = build.build_driver("drv_constpool", "asan")
    if args.replay:
        rp = json.load(open(args.replay))
        jobs = [rp["case"]["argv"]]
    else:
        jobs = make_jobs(tier, chk.seed, args.scale)

    # a job takes 2-20 s of CPU; the watchdog only exists for a pool that loops forever (seen with a mutated reset())
    watchdog = 200 if tier == "quick" else 1500

    def one(argv):
        try:
            rc, out, err = common.run_child([exe] + argv, timeout=watchdog)
        except common.HarnessError as e:
            return argv, None, b"", str(e).encode()
        return argv, rc, out, err

    tot = {k: 0 for k in SUM_KEYS}
    tot["max_pool_size"] = 0
    tot["max_len"] = 0
    by_size = [0] * 7
    emit_paths = {}
    distinct = set()
    exh_nontrivial = 0
    exh_len = 0
    exh_done = {}
    exh_sequences = 0
    exh_fresh_sequences = 0
    samples = []
    dead = []
    for argv, rc, out, err in common.parallel_map(one, jobs):
        rep = common.sanitizer_report(err)
        if rep:
            top = next((f for f in rep["frames"] if "asmjit" in f), rep["frames"][0] if rep["frames"] else "?")
            chk.violation("sanitizer:%s:%s" % (stable(rep["kind"].split(" on ")[0])[:70], stable(top.split("(")[0].split(" /")[0])[:80]),
                          "sanitizer report under %s: %s %s" % (argv, rep["kind"], rep["frames"][:6]), {"argv": argv})
            continue
        try:
            res = json.loads(out.decode().strip().splitlines()[-1])
        except Exception:
            # killed without a sanitizer report or a summary (e.g. by the kernel's OOM killer): inconclusive, not an alarm
            dead.append("driver %s rc=%s produced no summary: %s" % (argv, rc, err[-300:]))
            continue
        for v in res["violations"]:
            chk.violation(v["key"], v["what"], {"argv": argv})
        for k in SUM_KEYS:
            tot[k] += res[k]
        tot["max_pool_size"] = max(tot["max_pool_size"], res["max_pool_size"])
        tot["max_len"] = max(tot["max_len"], res["max_len"])
        for i, v in enumerate(res["by_size"]):
            by_size[i] += v
        for k, v in res["emit_paths"].items():
            emit_paths[k] = emit_paths.get(k, 0) + v
        mode = argv[1]
        if mode == "exh":
            # enumerated sequences are pairwise distinct by construction (distinct indices, distinct alphabets); the
            # --fresh jobs re-run a sub-space of the same sequences and are not counted again
            if "--fresh" not in argv:
                exh_nontrivial += res["nontrivial"]
                exh_sequences += res["sequences"]
                a, ln = argv[argv.index("--alpha") + 1], int(argv[argv.index("--len") + 1])
                if not res["violations"]:
                    exh_done.setdefault((a, ln), 0)
                    exh_done[(a, ln)] += 1
            else:
                exh_fresh_sequences += res["sequences"]
        else:
            distinct.update(res["distinct"])
        if res["samples"] and len(samples) < 4:
            samples.append({"driver_args": argv, "ops[size,bytes,offset,kind N=append G=gap S=shared D=dedup I=refused]": res["samples"][0]})

    if dead:
        if not chk.violations:
            raise common.HarnessError(dead[0])
        chk.note("%d driver run(s) died without a summary (not counted): %s" % (len(dead), dead[0]))

    # the enumeration counts as complete only if every shard of every alphabet finished without an alarm
    expected = {}
    for j in jobs:
        if j[1] == "exh" and "--fresh" not in j:
            k = (j[j.index("--alpha") + 1], int(j[j.index("--len") + 1]))
            expected[k] = expected.get(k, 0) + 1
    if expected and all(exh_done.get(k, 0) == n for k, n in expected.items()) and \
            len(set(a for a, _ in expected)) == ALPHABETS:
        exh_len = min(ln for (_, ln) in expected)
    chk.coverage.update({
        "evaluations": tot["sequences"],
        "distinct_nontrivial": exh_nontrivial + len(distinct),
        "rule": "one evaluation = one sequence of ConstPool::add calls on one pool, checked against the model after every add "
                "(short sequences) or at checkpoints (long ones) with a fresh fill() into a guard-banded buffer; distinct = "
                "distinct hash of the (size,bytes) sequence (enumerated sequences are distinct by construction); non-trivial = "
                "at least one add was placed into an alignment gap or shared a slot inside an earlier wider constant. "
                "Completely enumerated sub-space: all sequences of length <= exhaustive_length_reached over each of the "
                "%d six-item alphabets of drv_constpool.cpp; everything else is sampled" % ALPHABETS,
        "samples": samples,
        "exhaustive": False,
        "exhaustive_length_reached": exh_len,
        "exhaustive_alphabets": ALPHABETS,
        "exhaustive_sequences": exh_sequences,
        "exhaustive_sequences_repeated_on_fresh_pools": exh_fresh_sequences,
        "random_and_emitter_sequences": tot["sequences"] - exh_sequences - exh_fresh_sequences,
        "adds": tot["adds"],
        "valid_adds_by_size_1_2_4_8_16_32_64": by_size,
        "sharing_events": tot["sharing"],
        "gap_reuses": tot["gap_reuse"],
        "dedup_hits": tot["dedup"],
        "appends": tot["append"],
        "invalid_size_rejections": tot["invalid_rejected"],
        "fill_calls_checked": tot["fills"],
        "bytes_compared_after_fill": tot["bytes_compared"],
        "pool_resets": tot["resets"],
        "sequences_on_reused_pool": tot["pool_reuse"],
        "readd_same_offset_checks": tot["readd_checks"],
        "longest_sequence": tot["max_len"],
        "largest_pool_bytes": tot["max_pool_size"],
        "emitter_cases": tot["emit_cases"],
        "emitter_pools_checked_in_section": tot["emit_pools"],
        "emitter_paths": emit_paths,
        "jit_functions_executed": tot["emit_exec"],
        "jit_loaded_constant_bytes_compared": tot["emit_exec_bytes"],
        "jobs": len(jobs),
    })
    chk.assumptions += [
        "ASan/UBSan instrumented static build of the working tree; constants are handed to add() flush against a poisoned region or from odd addresses",
        "no allocation faults are injected here (out-of-memory behaviour of ConstPool belongs to C15); an add() of a valid size that fails is reported",
        "a new constant may lie inside an earlier wider constant only if the bytes there are equal (sharing); a wider constant laid over earlier narrower ones is reported as overlap even if bytes agree (asmjit documents that it never does that)",
        "alignment() is required to be a power of two >= the largest size added; size() >= every offset+size; neither is required to be minimal",
        "emitter paths: section bytes at label+offset are compared for x86 Assembler/Builder/Compiler and a64 Compiler; loads through the returned operand are executed for x86-64 only",
    ]
    return chk.finish()
