"""C02 - the AArch64 assembler emits a correct encoding of every instruction it accepts, and refuses operands
it cannot encode.

Runtime monitor: drv_emit_a64 (ASan+UBSan build) executes a64::Assembler::emit() for generated cases; four oracles
judge what came back:
  (1) AsmJit's bytes == llvm-mc's encoding of this module's own text rendering (LLVM rejecting the text = no verdict)
  (2) bit-template match against the db/isa_aarch64.json record the case was generated from
  (3) operands the generator marks unencodable must be refused and nothing appended
  (4) `llvm-mc --disassemble` of AsmJit's word as tie-breaker / alternate-encoding detector; MOV sequences are
      checked by interpreting LLVM's disassembly of every word.
"""
import collections
import json
import os
import re
import shutil
import subprocess
import tempfile

from vlib import a64gen, a64text, build, common, isadb

LLVM_ATTRS = ("+v8.8a,+neon,+fp-armv8,+fullfp16,+fp16fml,+crypto,+aes,+sha2,+sha3,+sm4,+bf16,+i8mm,+dotprod,+lse,+lse2,"
              "+rcpc,+rcpc-immo,+rdm,+crc,+mte,+rand,+tme,+ls64,+flagm,+altnzcv,+ssbs,+sb,+predres,+bti,+pauth,+fptoint,"
              "+ccdp,+ccpp,+ccidx,+spe,+jsconv,+complxnum,+ras,+tlb-rmi,+mops,+hbc,+wfxt,+xs,+brbe,+lor,+pan,+pan-rwv,+uaops,"
              "+dit,+sel2,+mpam,+am,+amvs,+fgt,+ecv,+nv,+vh,+rme,+trbe,+ete,+tracev8.4,+perfmon,+specrestrict,+hcx,"
              "+f32mm,+f64mm,+el2vmsa,+el3")


SYSOP_ALIASES = {"at", "dc", "ic", "tlbi"}
# AsmJit names for which no case can be accepted, with the reason (regular expressions); any other name without an accepted
# case makes the run inconclusive
NEVER_EXERCISED_OK = [
    # (bc.<cond> was refused for every condition and its opcode lacked bit 30: repaired in the repo, d4423b4 + 6eff0a0)
]
# the architecture lets an assembler take the unscaled instruction when the scaled one cannot hold the offset
UNSCALED = {"prfm": "prfum", "ldr": "ldur", "str": "stur", "ldrb": "ldurb", "ldrh": "ldurh", "ldrsb": "ldursb", "ldrsh": "ldursh",
            "ldrsw": "ldursw", "strb": "sturb", "strh": "sturh"}


def _tmpdir():
    d = os.path.join(common.VERIF, ".cache", "tmp")
    os.makedirs(d, exist_ok=True)
    return tempfile.mkdtemp(dir=d, prefix="c02-")


def _run(cmd, inp=None, timeout=1800):
    p = subprocess.run(cmd, input=inp, stdout=subprocess.PIPE, stderr=subprocess.PIPE, timeout=timeout)
    return p.returncode, p.stdout.decode("utf-8", "replace"), p.stderr.decode("utf-8", "replace")


_ENC = re.compile(r"encoding: \[([^\]]*)\]")


def llvm_assemble(texts):
    """texts: list of statements (or None). Returns list of bytes|None (None: LLVM refused the text / needs a fixup)."""
    res = [None] * len(texts)
    if not any(texts):
        return res
    src = []
    for i, t in enumerate(texts):
        src.append("vc_%d:" % i)
        if t:
            src.append(t)
    try:
        rc, out, err = _run(["llvm-mc", "-triple=aarch64", "-mattr=" + LLVM_ATTRS, "-show-encoding"], "\n".join(src).encode() + b"\n")
    except FileNotFoundError:
        raise common.HarnessError("llvm-mc not found")
    cur = None
    bad = set()
    for ln in out.splitlines():
        ln = ln.strip()
        if ln.startswith("vc_") and ln.endswith(":"):
            cur = int(ln[3:-1])
            continue
        if cur is None:
            continue
        m = _ENC.search(ln)
        if m:
            try:
                b = bytes(int(x, 16) for x in m.group(1).split(",") if x.strip())
            except ValueError:
                bad.add(cur)
                continue
            res[cur] = (res[cur] or b"") + b
        elif "fixup" in ln:
            bad.add(cur)
    for i in bad:
        res[i] = None
    if not out.strip() and rc != 0 and "error" not in err:
        raise common.HarnessError("llvm-mc failed: " + err[-400:])
    return res


_WARN = re.compile(r"<stdin>:(\d+):\d+: warning: invalid instruction encoding")


def llvm_disassemble(words):
    """words: list of 4-byte strings. Returns list of text|None (None: LLVM does not know the encoding)."""
    if not words:
        return []
    inp = "\n".join(" ".join("0x%02x" % b for b in w) for w in words) + "\n"
    rc, out, err = _run(["llvm-mc", "-triple=aarch64", "-mattr=" + LLVM_ATTRS, "--disassemble"], inp.encode())
    invalid = set(int(m.group(1)) - 1 for m in _WARN.finditer(err))
    lines = [ln.strip() for ln in out.splitlines() if ln.strip() and not ln.strip().startswith(".text")]
    res = []
    k = 0
    for i in range(len(words)):
        if i in invalid:
            res.append(None)
        else:
            res.append(lines[k] if k < len(lines) else None)
            k += 1
    if k != len(lines):
        raise common.HarnessError("llvm-mc --disassemble: %d lines for %d valid words" % (len(lines), k))
    return res


_NUM = re.compile(r"#(-?0x[0-9a-f]+|-?\d+\.\d+(?:e[+-]?\d+)?|-?\d+)")


def canon(text):
    t = text.split("//")[0].strip().lower().replace("\t", " ")
    t = re.sub(r"\s+", " ", t)
    t = re.sub(r"\s*,\s*", ",", t)
    t = t.replace("{ ", "{").replace(" }", "}")

    def num(m):
        s = m.group(1)
        if "." in s:
            return "#%r" % float(s)
        return "#%d" % int(s, 0)
    return _NUM.sub(num, t)


# -- template oracle -----------------------------------------------------------------------------------------

def fixed_mask(rec):
    m = 0
    for f in rec["fields"].values():
        for p in f["values"]:
            m |= ((1 << p["size"]) - 1) << p["index"]
    return ~m & 0xFFFFFFFF


def field_value(rec, name, word):
    f = rec["fields"][name]
    v = 0
    for p in f["values"]:
        v |= ((word >> p["index"]) & ((1 << p["size"]) - 1)) << p["from"]
    return v


def template_check(rec, word, fields):
    """-> (verdict, detail): verdict in ok / fixed / field / na"""
    if any(k == "@nofixed" for k, _, _ in fields):
        return "na", ""
    fm = fixed_mask(rec)
    ov = rec["opcodeValue"] & 0xFFFFFFFF
    if (word ^ ov) & fm:
        return "fixed", "fixed bits differ: word=%08x template=%s diff=%08x" % (word, rec["opcodeString"].replace(" ", ""), (word ^ ov) & fm)
    for name, val, kind in fields:
        if val is None:
            continue
        if name == "@logical":
            x, w = val
            f = rec["fields"]
            if "imm" in f and f["imm"]["bits"] == 13:
                nrs = field_value(rec, "imm", word)
                n, immr, imms = nrs >> 12, (nrs >> 6) & 63, nrs & 63
            elif "immr" in f and "imms" in f:
                n, immr, imms = (word >> 22) & 1, field_value(rec, "immr", word), field_value(rec, "imms", word)
            else:
                continue
            got = a64text.decode_logical(n, immr, imms, w)
            if got != (x & ((1 << w) - 1)):
                return "field", "logical immediate N:immr:imms=%d:%d:%d decodes to %s, wanted %#x" % (n, immr, imms, hex(got) if got is not None else None, x)
            continue
        if name == "@movalias":
            x, w, inv = val
            f = rec["fields"]
            if "hw" not in f or "imm" not in f:
                continue
            got = field_value(rec, "imm", word) << (16 * field_value(rec, "hw", word))
            if inv:
                got = ~got
            if (got ^ x) & ((1 << w) - 1):
                return "field", "move-wide hw/imm16 decode to %#x, wanted %#x" % (got & ((1 << w) - 1), x)
            continue
        if name == "@modimm":
            kind, want = val
            op, cmode = (word >> 29) & 1, (word >> 12) & 15
            imm8 = (((word >> 16) & 7) << 5) | ((word >> 5) & 31)
            cls = a64text.modimm_class(op, cmode)
            got = a64text.modimm_result(op, cmode, imm8)
            allowed = ("movi", "mvni") if kind in ("movi", "mvni") else (kind,)
            if cls not in allowed or got != want:
                return "field", "modified immediate op:cmode:imm8=%d:%s:%#x is %s writing/applying %s per 64-bit lane, wanted %s %#018x" % (
                    op, format(cmode, "04b"), imm8, cls, "%#018x" % got if got is not None else None, kind, want)
            continue
        if name == "@fp8":
            f = rec["fields"]
            if "imm" in f and f["imm"]["bits"] == 8:
                got = field_value(rec, "imm", word)
            elif "abc" in f and "defgh" in f:
                got = (field_value(rec, "abc", word) << 5) | field_value(rec, "defgh", word)
            else:
                continue
            want = a64text.fp8_encode(val)
            if want is not None and got != want:
                return "field", "fp8 field %#x, wanted %#x for %r" % (got, want, val)
            continue
        if name.startswith("@") or name not in rec["fields"]:
            continue
        f = rec["fields"][name]
        if kind == "reg":
            for p in f["values"]:
                got = (word >> p["index"]) & ((1 << p["size"]) - 1)
                if got != (val & ((1 << p["size"]) - 1)):
                    return "field", "register field %s@%d = %d, wanted %d" % (name, p["index"], got, val)
        else:
            got = field_value(rec, name, word)
            if got != (val & ((1 << f["bits"]) - 1)):
                return "field", "field %s = %d, wanted %d" % (name, got, val & ((1 << f["bits"]) - 1))
    return "ok", ""


# -- MOV sequence interpreter (over LLVM's disassembly) ----------------------------------------------------

_MOVRE = re.compile(r"^(mov|movz|movn|movk)\s+([wx])(\d+|zr),\s*#(-?0x[0-9a-f]+|-?\d+)(?:,\s*lsl #(\d+))?$")


def interpret_mov_sequence(dis, width):
    """-> (register number, value) or raises ValueError"""
    reg = None
    val = 0
    m64 = (1 << 64) - 1
    for i, t in enumerate(dis):
        if t is None:
            raise ValueError("word %d is not an instruction LLVM knows" % i)
        m = _MOVRE.match(canon(t).replace(",", ", ").replace("  ", " "))
        if not m:
            m = _MOVRE.match(re.sub(r"\s+", " ", t.strip().lower().replace("\t", " ")))
        if not m:
            raise ValueError("word %d: %r is not a move-wide instruction" % (i, t))
        op, wx, r, imm, sh = m.group(1), m.group(2), m.group(3), int(m.group(4), 0), int(m.group(5) or 0)
        rw = 32 if wx == "w" else 64
        mask = (1 << rw) - 1
        if reg is None:
            reg = r
        elif r != reg:
            raise ValueError("word %d writes %s, not %s" % (i, r, reg))
        if op == "mov":
            if i != 0:
                raise ValueError("mov alias in the middle of a sequence")
            val = imm & mask
        elif op == "movz":
            val = (imm << sh) & mask
        elif op == "movn":
            val = ~(imm << sh) & mask
        else:
            if i == 0:
                raise ValueError("sequence starts with movk")
            val = (val & ~(0xFFFF << sh) | (imm << sh)) & mask
        val &= m64
    return reg, val


# -- pipeline ------------------------------------------------------------------------------------------------

def encoding_names():
    try:
        txt = open(os.path.join(common.REPO, "asmjit", "arm", "a64instdb_p.h")).read()
        body = txt[txt.index("enum EncodingId"):]
        body = body[:body.index("};")]
        names = re.findall(r"kEncoding(\w+)", body)
        return {i: n for i, n in enumerate(names)}
    except (OSError, ValueError):
        return {}


def emit_labels():
    """{encoding name: set of shared emit labels its case block jumps to} read from a64assembler.cpp; used only to NAME
    violation keys by call site (several encoding classes share one unchecked packing label)."""
    try:
        txt = open(os.path.join(common.REPO, "asmjit", "arm", "a64assembler.cpp")).read()
    except OSError:
        return {}
    out = {}
    parts = re.split(r"case InstDB::kEncoding(\w+):", txt)
    for i in range(1, len(parts) - 1, 2):
        body = parts[i + 1]
        end = body.find("default:\n      break;")
        if end >= 0:
            body = body[:end]
        out[parts[i]] = set(re.findall(r"goto (EmitOp_\w+);", body))
    # SimdMov jumps into SimdDup / SimdIns / SimdSmovUmov
    return out


def site_key(labels, enc, opidx, what, mnemonic=None):
    ls = labels.get(enc, set())
    if what == "arrangement-view" and mnemonic:
        return "a64:%s:%s:op%d-arrangement-view-unchecked" % (enc, mnemonic, opidx)
    if what == "inst-id-range":
        return "a64:inst-id-range-unchecked"
    if what in a64gen.SHAPE_WHATS and mnemonic:
        return "a64:%s:%s:%s" % (what, enc, mnemonic)
    if what == "reg-id" and opidx == 2 and "EmitOp_Rd0_Rn5_Rm16" in ls:
        return "a64:EmitOp_Rd0_Rn5_Rm16:op2-reg-id-unchecked"
    if what in ("base-zr", "base-reg-id", "pre-index-not-allowed") and "EmitOp_MemBaseIndex_Rn5_Rm16" in ls:
        return "a64:EmitOp_MemBaseIndex_Rn5_Rm16:%s-unchecked" % what
    if what in ("reg-id", "sp-misuse", "zr-misuse", "reg-id-4bit"):
        return "a64:%s:reg-id-unchecked" % enc      # which operand / which id: see the message
    return "a64:%s:op%d-%s-unchecked" % (enc, opidx, what)


def driver_names(exe):
    """-> (names the public lookup finds, names it does not find, {name: [(id, encoding class)]}, id count)"""
    rc, out, err = common.run_child([exe, "--names", "2"], timeout=300)
    known, lookup_miss, ids, count = set(), [], {}, 0
    for ln in out.decode().splitlines():
        p = ln.split()
        if not p:
            continue
        if p[0] == "#count":
            count = int(p[1])
            continue
        api = int(p[-1].split("=")[1])
        lst = [tuple(int(x) for x in q.split(":")) for q in p[1:-1]]
        if api not in [i for i, _ in lst]:
            lookup_miss.append(p[0])    # a name the public lookup does not find is unknown to this check (no fallback)
        else:
            known.add(p[0])
            ids[p[0]] = lst
    if len(known) < 100 or not count:
        raise common.HarnessError("driver lists only %d instruction names" % len(known))
    return known, lookup_miss, ids, count


NEW_DIMS = ("imm_hi32", "modified_immediate", "shape_level", "arrangement_x_shift_limit", "system_names")


def dims_of(c):
    """which of the dimensions added in round 11 a case belongs to"""
    out = []
    v = c["vclass"]
    if c["what"] == "imm-hi32":
        out.append("imm_hi32")
    if ".modimm=" in v:
        out.append("modified_immediate")
    if c["what"] in a64gen.SHAPE_WHATS:
        out.append("shape_level")
    if v.startswith("arr=") and "*" in v:
        out.append("arrangement_x_shift_limit")
    if c.get("alt_text") is not None or (".imm=" in v and c["line"].split(" ", 1)[0] in ("at", "dc", "ic", "tlbi", "mrs", "msr")):
        out.append("system_names")
    return out


def run_shard(exe, cases, recs, extra=()):
    """executes the cases and attaches r (driver record), llvm (bytes|None), dis (text|None per word), dis_llvm"""
    d = _tmpdir()
    try:
        path = os.path.join(d, "cases.txt")
        with open(path, "w") as fh:
            for i, c in enumerate(cases):
                fh.write("%d %s\n" % (i, c["line"]))
        rc, out, err = common.run_child([exe, "--cases", path] + list(extra), timeout=1800)
        rep = common.sanitizer_report(err)
        if rep:
            return {"sanitizer": rep, "stderr": err[-3000:]}
        lines = out.decode().splitlines()
        if len(lines) != len(cases):
            raise common.HarnessError("driver returned %d records for %d cases (rc=%s): %s" % (len(lines), len(cases), rc, err[-400:]))
        for c, ln in zip(cases, lines):
            c["r"] = json.loads(ln)
        texts = []
        for c in cases:
            acc = c["r"]["err"] == 0 and c["r"]["bytes"]
            texts.append(c["text"] if acc else None)
        alts = [(c.get("alt_text") if (t and c.get("alt_text")) else None) for c, t in zip(cases, texts)]
        enc_all = llvm_assemble(texts + alts)
        enc = enc_all[:len(texts)]
        enc_alt = enc_all[len(texts):]
        words, owner = [], []
        for i, c in enumerate(cases):
            c["llvm"] = enc[i]
            c["llvm_generic"] = False
            if enc[i] is None and enc_alt[i] is not None:
                # the named system register cannot be used in this direction (read-only / write-only): LLVM takes the
                # generic S<op0>_<op1>_<Cn>_<Cm>_<op2> spelling; the name itself stays unchecked for this case
                c["llvm"] = enc[i] = enc_alt[i]
                c["llvm_generic"] = True
            b = bytes.fromhex(c["r"]["bytes"]) if c["r"]["err"] == 0 else b""
            c["words"] = [b[k:k + 4] for k in range(0, len(b) - len(b) % 4, 4)]
            need = (enc[i] is None) or (enc[i] != b) or len(c["words"]) > 1
            if c["words"] and need:
                for w in c["words"]:
                    words.append(w)
                    owner.append((i, "a"))
                if enc[i] is not None and enc[i] != b and len(enc[i]) == 4:
                    words.append(enc[i])
                    owner.append((i, "l"))
        dis = llvm_disassemble(words)
        for c in cases:
            c["dis"] = []
            c["dis_llvm"] = None
        for (i, who), t in zip(owner, dis):
            if who == "a":
                cases[i]["dis"].append(t)
            else:
                cases[i]["dis_llvm"] = t
        return {"cases": cases}
    finally:
        shutil.rmtree(d, ignore_errors=True)


def alt_text_matches(c, da):
    for k, val, _ in c["fields"]:
        if k == "@alttext":
            name, generic = val
            return canon(da) == canon(c["text"].replace(name, generic))
    return False


def rec_id(rec):
    """short stable id of a database record: its operand string plus 4 hex digits of a hash of the template
    (several records share mnemonic and operand string and differ only in the template)"""
    ops = ",".join(o["data"] for o in rec["operands"] if o["data"] not in ("", "+")).replace(" ", "")
    h = 0x811C9DC5
    for ch in rec["opcodeString"].replace(" ", "").encode():
        h = ((h ^ ch) * 0x01000193) & 0xFFFFFFFF
    return "%s:%s#%04x" % (rec["name"].split(".")[0], ops or "-", h & 0xFFFF)


def sig(rec):
    return "%s %s" % (rec["name"], ", ".join(o["data"] for o in rec["operands"] if o["data"] not in ("", "+")))


def judge_refusals(chk, tier, scale=1.0):
    """C14's AArch64 half: every generated case whose operands are unencodable (status 'bad': register id / lane / shift /
    immediate / offset / alignment out of the form's range, pairwise constraints included; instruction ids beyond the
    table) must be refused with an error, the handler called once, and nothing appended or created. Same generator, driver
    and LLVM cross-examination as C02 (a 'bad' marking that LLVM refutes by assembling the text is no verdict).
    Every call is made with the one-shot state armed (inline comment; options or an extra register on two calls of three):
    it must be clear after the call, failed or not. Every second shard runs with a THROWING error handler. After every
    failed call a probe instruction is emitted and compared with the architectural word (the emitter must go on producing
    what a fresh one would). A stride of the refused cases goes through a fresh a64::Builder (probe + case, finalize): the
    error must surface at emit() or finalize(), exactly one handler call, only the probe in the section. Returns counters."""
    exe = build.build_driver("drv_emit_a64", "asan")
    recs = isadb.a64_forms()
    encn = encoding_names()
    labels = emit_labels()
    known, _, name_ids, id_count = driver_names(exe)
    nrandom = max(1, int((300 if tier == "thorough" else 8) * scale))
    cases, _ = a64gen.generate(recs, chk.seed, tier, known, nrandom=nrandom, shape_info={"ids": name_ids, "count": id_count})
    # operand kinds are kept (the typed C++ overloads enforce them): of the shape-level cases only the instruction ids count
    cases = [c for c in cases if c["status"] == "bad" and (c["what"] not in a64gen.SHAPE_WHATS or c["what"] == "inst-id-range")]
    if not cases:
        raise common.HarnessError("generator produced no unencodable AArch64 cases")
    nshards = 16 if len(cases) > 2000 else 2
    shards = [cases[i::nshards] for i in range(nshards)]

    def extra_of(i):
        return ["--arm", "1", "--probe", "1"] + (["--handler", "throw"] if i % 2 else [])
    results = common.parallel_map(lambda t: run_shard(exe, t[1], recs, extra_of(t[0])), list(enumerate(shards)))
    cnt = collections.Counter()
    kinds = set()
    refused_lines = []
    for si, res in enumerate(results):
        throwing = bool(si % 2)
        if "sanitizer" in res:
            rep = res["sanitizer"]
            top = next((f for f in rep["frames"] if "asmjit" in f), rep["frames"][0] if rep["frames"] else "?")
            chk.violation("sanitizer:%s:%s" % (rep["kind"].split(" on ")[0][:60], top.split("(")[0][:80]), "sanitizer report in drv_emit_a64: %s %s" % (rep["kind"], rep["frames"][:5]), None)
            continue
        for c in res["cases"]:
            r = c["r"]
            rec = recs[c["rec"]]
            enc = encn.get(r["enc"], str(r["enc"]))
            replay = {"a64cases": [{k: c.get(k) for k in ("rec", "vclass", "status", "what", "opidx", "line", "text")}], "driver_args": extra_of(si)}
            cnt["a64_unencodable_cases"] += 1
            kinds.add((enc, c["what"]))
            if r["os"] >= 0:
                cnt["a64_calls_with_one_shot_state_armed"] += 1
                if r["os"] != 0:
                    left = [n for b, n in ((1, "options"), (2, "extra register"), (4, "inline comment")) if r["os"] & b]
                    chk.violation("a64:%s-call:one-shot-state-left:%s" % ("failed" if r["err"] else "accepted", enc),
                                  "%s -> error %d: %s still set after the call" % (c["line"], r["err"], ", ".join(left)), replay)
            if r["err"] != 0:
                cnt["a64_refused"] += 1
                if c["what"] == "inst-id-range":
                    cnt["a64_instruction_ids_beyond_the_table"] += 1
                if throwing:
                    cnt["a64_refused_with_throwing_handler"] += 1
                    if not r["threw"]:
                        chk.violation("a64:failed-call:throwing-handler-not-reached:%s" % enc, "%s -> error %d but the throwing handler saw %d calls and nothing was thrown" % (c["line"], r["err"], r["h"]), replay)
                if r["bytes"] or r["df"] or r["dr"] or r["dl"] or r.get("shrunk"):
                    chk.violation("a64:failed-call:appended-or-created:%s" % enc, "%s -> error %d but bytes=%s fixups+%d relocations+%d labels+%d%s" %
                                  (c["line"], r["err"], r["bytes"], r["df"], r["dr"], r["dl"], " (buffer shrank)" if r.get("shrunk") else ""), replay)
                if r["h"] != 1:
                    chk.violation("a64:failed-call:handler-called-%d-times" % r["h"], "%s -> error %d, handler called %d times" % (c["line"], r["err"], r["h"]), replay)
                if r["probe"] >= 0:
                    cnt["a64_probes_after_failed_call"] += 1
                    if r["probe"] != 0:
                        chk.violation("a64:failed-call:next-instruction-differs:%s" % enc, "%s -> error %d (%s handler); `add x1, x2, x3` emitted right after it is not the word a fresh "
                                      "emitter produces (or was refused / moved the cursor / called the handler)" % (c["line"], r["err"], "throwing" if throwing else "returning"), replay)
                # (labels belong to the shared holder and pc-relative targets to the position in it: not for a fresh Builder)
                if not any(t.split(":")[0] in ("L", "ML", "MLX", "A", "AP", "MA") for t in c["line"].split()[2:]):
                    refused_lines.append(c)
                continue
            if c["llvm"] is not None:
                cnt["a64_marking_refuted_by_llvm"] += 1
                continue
            dtxt = c["dis"][0] if c["dis"] else None
            chk.violation(site_key(labels, enc, c["opidx"], c["what"], recs[c["rec"]]["name"].split(".")[0]),
                          "%s [%s] is unencodable (%s) but emit() returned kOk and appended %s (LLVM reads that as `%s`)" % (c["line"], sig(rec), c["what"], r["bytes"], dtxt), replay)

    # the Builder path: a64 has no operand validator, so the error of an unencodable node surfaces when it is serialized
    want = len(refused_lines) if tier == "thorough" else max(200, int(3000 * scale))
    step = max(1, len(refused_lines) // max(1, want))
    sample = refused_lines[::step]
    if sample:
        d = _tmpdir()
        try:
            def run_b(sh):
                path = os.path.join(d, "b%d.txt" % sh[0])
                with open(path, "w") as fh:
                    for i, c in enumerate(sh[1]):
                        fh.write("%d %s\n" % (i, c["line"]))
                rc, out, err = common.run_child([exe, "--cases", path, "--emitter", "builder"], timeout=1800)
                return sh[1], out, err
            nb = 16 if len(sample) > 500 else 1
            for sh, out, err in common.parallel_map(run_b, [(i, sample[i::nb]) for i in range(nb)]):
                rep = common.sanitizer_report(err)
                if rep:
                    top = next((f for f in rep["frames"] if "asmjit" in f), rep["frames"][0] if rep["frames"] else "?")
                    chk.violation("sanitizer:builder:%s:%s" % (rep["kind"].split(" on ")[0][:60], top.split("(")[0][:80]), "sanitizer report in drv_emit_a64 --emitter builder: %s %s" % (rep["kind"], rep["frames"][:5]), None)
                    continue
                lines = out.decode().splitlines()
                if len(lines) != len(sh):
                    raise common.HarnessError("drv_emit_a64 --emitter builder returned %d records for %d cases: %s" % (len(lines), len(sh), err[-300:]))
                for c, ln in zip(sh, lines):
                    r = json.loads(ln)
                    enc = encn.get(r["enc"], str(r["enc"]))
                    replay = {"a64cases": [{k: c.get(k) for k in ("rec", "vclass", "status", "what", "opidx", "line", "text")}], "driver_args": ["--emitter", "builder"]}
                    cnt["a64_builder_finalize_cases"] += 1
                    if r["e0"] != 0:
                        raise common.HarnessError("Builder refused the probe instruction")
                    if r["err"] == 0 and r["ferr"] == 0:
                        chk.violation("a64:builder:unencodable-node-finalized:%s" % enc, "%s: refused by a64::Assembler, but a64::Builder::emit() and finalize() both returned kOk (section size %d)" % (c["line"], r["size"]), replay)
                        continue
                    cnt["a64_builder_error_at_%s" % ("emit" if r["err"] else "finalize")] += 1
                    if r["h"] != 1:
                        chk.violation("a64:builder:handler-called-%d-times" % r["h"], "%s through a64::Builder: emit error %d, finalize error %d, handler called %d times (%d of them in emit())" %
                                      (c["line"], r["err"], r["ferr"], r["h"], r["hemit"]), replay)
                    if r["ferr"] and (r["size"] != 4 or r["probe"] != 0):
                        chk.violation("a64:builder:failed-finalize-appended:%s" % enc, "%s through a64::Builder: finalize error %d left %d bytes in .text (the valid instruction before the node is 4 bytes)%s" %
                                      (c["line"], r["ferr"], r["size"], "" if r["probe"] == 0 else "; its word is not `add x1, x2, x3`"), replay)
        finally:
            shutil.rmtree(d, ignore_errors=True)
    cnt["a64_unencodable_kinds"] = len(kinds)
    if scale >= 1.0 and not chk.violations:
        for k in ("a64_calls_with_one_shot_state_armed", "a64_refused_with_throwing_handler", "a64_probes_after_failed_call", "a64_builder_finalize_cases",
                  "a64_instruction_ids_beyond_the_table"):
            if not cnt[k]:
                raise common.HarnessError("AArch64 refusal monitor observed nothing for %s" % k)
    return dict(cnt)


def run(tier, args):
    chk = common.Check("C02", tier)
    exe = build.build_driver("drv_emit_a64", "asan")
    recs = isadb.a64_forms()
    encn = encoding_names()
    labels = emit_labels()

    known, lookup_miss, name_ids, id_count = driver_names(exe)

    if args.replay:
        rp = json.load(open(args.replay))
        cases = rp["case"]["cases"]
        for c in cases:
            c["fields"] = [tuple(x) if not isinstance(x[1], list) else (x[0], tuple(x[1]), x[2]) for x in c["fields"]]
        gstats = {"forms": 0, "unsupported": {}, "unsupported_records": 0, "not_in_asmjit": 0}
    else:
        nrandom = max(1, int((300 if tier == "thorough" else 8) * args.scale))
        cases, gstats = a64gen.generate(recs, chk.seed, tier, known, nrandom=nrandom, shape_info={"ids": name_ids, "count": id_count})
        if args.scale < 1.0:
            keep = max(1, int(len(cases) * args.scale))
            step = len(cases) / float(keep)
            cases = [cases[int(i * step)] for i in range(keep)]
    if not cases:
        raise common.HarnessError("generator produced no cases")

    nshards = 16 if len(cases) > 2000 else 1
    shards = [cases[i::nshards] for i in range(nshards)]
    results = common.parallel_map(lambda sh: run_shard(exe, sh, recs), shards)

    cnt = {k: 0 for k in ("accepted", "refused", "refused_as_expected", "refused_valid", "accepted_but_unencodable", "marking_refuted",
                          "llvm_equal", "llvm_alt_encoding", "llvm_mismatch", "llvm_no_verdict", "llvm_unknown_encoding",
                          "disasm_confirmed", "disasm_alias_unresolved", "sysop_no_text_verdict", "sysreg_name_not_checkable_in_this_direction", "template_ok", "template_na", "template_mismatch_db",
                          "template_mismatch_unresolved", "mov_sequences", "handler_mismatch", "lookup_miss_cases", "no_text", "modimm_equivalent_encoding")}
    distinct = set()
    dim_cases, dim_refused, dim_verified = collections.Counter(), collections.Counter(), collections.Counter()
    twins, twin_kinds, accepted_names = 0, set(), set()
    accepted_recs, llvm_unknown_recs, refused_valid_recs = set(), set(), set()
    by_class = {}
    samples = []
    notes_alias = []
    notes_refuted = []
    dbfind = {}
    db_annot = {}

    def replay_of(c):
        return {"cases": [{k: c.get(k) for k in ("rec", "vclass", "status", "what", "opidx", "line", "text", "alt_text", "fields", "notemplate")}]}

    for res in results:
        if "sanitizer" in res:
            rep = res["sanitizer"]
            top = next((f for f in rep["frames"] if "asmjit" in f), rep["frames"][0] if rep["frames"] else "?")
            chk.violation("sanitizer:%s:%s" % (rep["kind"].split(" on ")[0][:60], top.split("(")[0][:80]),
                          "sanitizer report in drv_emit_a64: %s %s" % (rep["kind"], rep["frames"][:5]), None)
            continue
        for c in res["cases"]:
            r = c["r"]
            rec = recs[c["rec"]]
            if r.get("parse"):
                raise common.HarnessError("driver could not parse case line: " + c["line"])
            enc = encn.get(r["enc"], str(r["enc"]))
            mn = rec["name"].split(".")[0]
            b = bytes.fromhex(r["bytes"])
            acc = r["err"] == 0
            dl = dims_of(c)
            for d in dl:
                dim_cases[d] += 1
            twins += r.get("bldn", 0)
            if r.get("bld"):
                chk.violation("a64:operand-builder:%s" % r.get("bldw"), "%s: the operand made by %s differs from the one made with the raw constructors (make_r32 / make_v128 + "
                              "set_element_type / set_element_index / Mem(base, off) + make_pre_index ...) in %d of %d operands" % (c["line"], r.get("bldw"), r["bld"], r["bldn"]), replay_of(c))
            cnt["lookup_miss_cases"] += r["miss"]
            if (r["err"] != 0) != (r["h"] != 0):
                cnt["handler_mismatch"] += 1
            if r["err"] != 0 and b:
                chk.violation("a64:%s:error-but-bytes-appended" % enc, "%s -> error %d but %d bytes appended (%s)" % (c["line"], r["err"], len(b), r["bytes"]), replay_of(c))
                continue
            if acc and (not b or len(b) % 4):
                chk.violation("a64:%s:ok-with-%d-bytes" % (enc, len(b)), "%s -> kOk with %d bytes" % (c["line"], len(b)), replay_of(c))
                continue
            if not acc:
                cnt["refused"] += 1
                if c["status"] == "bad":
                    cnt["refused_as_expected"] += 1
                    for d in dl:
                        dim_refused[d] += 1
                elif c["status"] == "ok":
                    cnt["refused_valid"] += 1
                    refused_valid_recs.add(c["rec"])
                continue

            cnt["accepted"] += 1
            accepted_recs.add(c["rec"])
            if c["status"] != "bad":
                accepted_names.add(mn)
            word = int.from_bytes(b[:4], "little")
            llvm = c["llvm"]
            if c["text"] is None:
                cnt["no_text"] += 1

            # (3) unencodable operands must be refused
            refuted = False
            if c["status"] == "bad" and llvm is not None:
                # LLVM assembles the very text: the record's operand annotation (or this generator's reading of it) is
                # wrong, not AsmJit. The case is judged like any other accepted case from here on.
                cnt["marking_refuted"] += 1
                refuted = True
                if len(notes_refuted) < 40:
                    notes_refuted.append("%s | %s | %s" % (sig(rec), c["vclass"], c["text"]))
                if c["what"] not in ("scalar-view", "arrangement-view") + a64gen.SHAPE_WHATS:   # another record of the same instruction covers that view: no annotation is wrong
                    db_annot.setdefault("a64db:annot:" + rec_id(rec), []).append("%s: `%s` is encodable (LLVM: %s)" % (c["vclass"], c["text"], llvm.hex()))
            if c["status"] == "bad" and not refuted:
                cnt["accepted_but_unencodable"] += 1
                dtxt = c["dis"][0] if c["dis"] else None
                chk.violation(site_key(labels, enc, c["opidx"], c["what"], recs[c["rec"]]["name"].split(".")[0]),
                              "%s [%s] is unencodable (%s) but emit() returned kOk and appended %s (LLVM reads that as `%s`)%s" %
                              (c["line"], sig(rec), c["what"], r["bytes"], dtxt, "; LLVM encodes the text `%s` as %s" % (c["text"], llvm.hex()) if llvm else ""),
                              replay_of(c))
                continue

            # MOV: multi word sequences, and single words that differ from LLVM's choice (AsmJit writes the W register
            # when the value fits 32 bits): interpret LLVM's disassembly, the register must end up holding the value
            want = None
            for k, val, _ in c["fields"]:
                if k == "@movseq":
                    want = val
            if len(c["words"]) > 1 or (want is not None and llvm != b and c["dis"]):
                cnt["mov_sequences"] += 1
                if want is None:
                    chk.violation("a64:%s:%s:unexpected-multi-word" % (enc, mn), "%s appended %d words: %s" % (c["line"], len(c["words"]), r["bytes"]), replay_of(c))
                    continue
                try:
                    reg, val = interpret_mov_sequence(c["dis"], want[1])
                    if val != (want[0] & ((1 << want[1]) - 1)):
                        raise ValueError("sequence leaves %#x in the register, wanted %#x" % (val, want[0] & ((1 << want[1]) - 1)))
                    m0 = re.search(r"G:[wx]:(\d+)", c["line"])
                    rid = int(m0.group(1)) if m0 else -1
                    if (reg == "zr") != (rid == 63) or (reg != "zr" and int(reg) != rid):
                        raise ValueError("sequence writes register %s, asked for id %d" % (reg, rid))
                    distinct.add((c["rec"], "mov-seq%d-%s" % (len(c["words"]), c["vclass"].split("=")[0])))
                except ValueError as e:
                    chk.violation("a64:%s:mov-sequence" % enc, "%s -> %s = %s: %s" % (c["line"], r["bytes"], c["dis"], e), replay_of(c))
                continue

            # (2) template
            if c.get("notemplate") or refuted:
                tv, tdetail = "na", ""
            else:
                tv, tdetail = template_check(rec, word, c["fields"])

            # (1) + (4) LLVM
            lv = None
            if llvm is not None:
                if llvm == b:
                    lv = "equal"
                    cnt["llvm_equal"] += 1
                    if c.get("llvm_generic"):
                        cnt["sysreg_name_not_checkable_in_this_direction"] += 1
                else:
                    da = c["dis"][0] if c["dis"] else None
                    dl = c["dis_llvm"]
                    if da is not None and dl is not None and canon(da) == canon(dl):
                        lv = "alt"
                        cnt["llvm_alt_encoding"] += 1
                    elif tv == "ok" and len(llvm) == 4 and any(k == "@modimm" for k, _, _ in c["fields"]) and \
                            template_check(rec, int.from_bytes(llvm, "little"), c["fields"])[0] == "ok":
                        # AsmJit documents that it picks a smaller element size for a replicated pattern (movi v0.2s, #0 ->
                        # movi v0.8b, #0): both words pass the same check (fixed bits, Vd, and op:cmode:imm8 expands to the
                        # requested lane value), i.e. they write the same register value
                        lv = "alt"
                        cnt["llvm_alt_encoding"] += 1
                        cnt["modimm_equivalent_encoding"] += 1
                    else:
                        lv = "mismatch"
                        cnt["llvm_mismatch"] += 1
                        chk.violation("a64:%s:%s:encoding-differs-from-llvm" % (enc, mn),
                                      "%s [%s, %s]: AsmJit %s (LLVM reads `%s`), LLVM encodes `%s` as %s; template: %s %s" %
                                      (c["line"], sig(rec), c["vclass"], r["bytes"], da, c["text"], llvm.hex(), tv, tdetail), replay_of(c))
                        continue
            else:
                cnt["llvm_no_verdict"] += 1
                da = c["dis"][0] if c["dis"] else None
                if da is None:
                    lv = "unknown"
                    cnt["llvm_unknown_encoding"] += 1
                    llvm_unknown_recs.add(c["rec"])
                elif c["text"] is not None and canon(da) == canon(c["text"]):
                    lv = "disasm"
                    cnt["disasm_confirmed"] += 1
                elif c["text"] is not None and alt_text_matches(c, da):
                    # read-only / write-only system registers: LLVM refuses the named form in this direction
                    lv = "disasm"
                    cnt["sysreg_name_not_checkable_in_this_direction"] += 1
                elif mn in SYSOP_ALIASES:
                    # LLVM knows which operations take a register and prints accordingly; AsmJit encodes the generic
                    # SYS form it was asked for. No verdict from the text comparison (template still applies).
                    lv = "sysop"
                    cnt["sysop_no_text_verdict"] += 1
                elif c["text"] is not None and mn in UNSCALED and canon(da) == canon(UNSCALED[mn] + c["text"][len(mn):]):
                    lv = "disasm"
                    tv, tdetail = "na", ""
                    cnt["disasm_confirmed"] += 1
                elif c["text"] is not None:
                    dm = canon(da).split(" ")[0]
                    tm = canon(c["text"]).split(" ")[0]
                    if c["what"] == "reg-width":
                        cnt["accepted_but_unencodable"] += 1
                        chk.violation("a64:%s:reg-width-unchecked" % enc,
                                      "%s [%s]: LLVM rejects `%s` (wrong register width); AsmJit accepted it and appended %s which LLVM reads as `%s`" %
                                      (c["line"], sig(rec), c["text"], r["bytes"], da), replay_of(c))
                        continue
                    if dm == tm or tv in ("fixed", "field"):
                        chk.violation("a64:%s:%s:accepted-but-means-something-else" % (enc, mn),
                                      "%s [%s, %s]: LLVM rejects `%s`; AsmJit accepted and appended %s which LLVM reads as `%s`; template: %s %s" %
                                      (c["line"], sig(rec), c["vclass"], c["text"], r["bytes"], da, tv, tdetail), replay_of(c))
                        continue
                    lv = "alias?"
                    cnt["disasm_alias_unresolved"] += 1
                    if len(notes_alias) < 40:
                        notes_alias.append("%s -> %s | llvm: %s" % (c["text"], r["bytes"], canon(da)))

            if tv == "ok":
                cnt["template_ok"] += 1
            elif tv == "na":
                cnt["template_na"] += 1
            else:
                if lv in ("equal", "alt", "disasm"):
                    cnt["template_mismatch_db"] += 1
                    dbfind.setdefault("a64db:template:" + rec_id(rec), "`%s` [%s]: AsmJit and LLVM agree on %s for `%s`; %s" %
                                      (sig(rec), rec["opcodeString"].replace(" ", ""), r["bytes"], c["text"], tdetail))
                else:
                    cnt["template_mismatch_unresolved"] += 1
                    chk.violation("a64:%s:%s:template-mismatch" % (enc, mn),
                                  "%s [%s, %s]: %s appended, %s (LLVM verdict: %s)" % (c["line"], sig(rec), c["vclass"], r["bytes"], tdetail, lv), replay_of(c))
                    continue
            if (lv in ("equal", "alt", "disasm") and tv in ("ok", "na")) or (lv is None and tv == "ok"):
                for d in dl:
                    dim_verified[d] += 1
            if lv == "equal" and tv == "ok":
                israndom = c["vclass"].startswith("random")
                distinct.add((c["rec"], c["line"] if israndom else c["vclass"]))
                k = "random-combination" if israndom else c["vclass"].split("=")[0].split(".")[-1]
                by_class[k] = by_class.get(k, 0) + 1
                if len(samples) < 6 and (len(distinct) % 997) == 1:
                    samples.append({"record": sig(rec), "variant": c["vclass"], "asmjit_call": c["line"], "text": c["text"], "bytes": r["bytes"]})

    # database defects: one key per record (db/isa_aarch64.json is documentation data that does not feed the encoder)
    for key in sorted(dbfind):
        chk.violation(key, "db/isa_aarch64.json record " + dbfind[key], None)
    for key in sorted(db_annot):
        chk.violation(key, "db/isa_aarch64.json record `%s`: operand annotation (SP/ZR, offset scaling ...) marks as unencodable what LLVM assembles: %s" %
                      (key.split(":", 2)[2], "; ".join(db_annot[key][:3])), None)

    never = sorted(known - accepted_names)
    full = (not args.replay) and args.scale >= 1.0
    if full and not chk.violations:
        unexplained = [n for n in never if not any(re.match(pat, n) for pat in NEVER_EXERCISED_OK)]
        if unexplained:
            raise common.HarnessError("AsmJit instruction names without a single accepted case (no database record / no generator support): %s" % unexplained[:20])
        for d in NEW_DIMS:
            need_refused = d in ("imm_hi32", "modified_immediate", "shape_level", "arrangement_x_shift_limit")
            need_verified = d in ("modified_immediate", "arrangement_x_shift_limit", "system_names")
            if (need_refused and not dim_refused[d]) or (need_verified and not dim_verified[d]):
                raise common.HarnessError("dimension %s observed nothing (cases %d, refused %d, verified %d)" % (d, dim_cases[d], dim_refused[d], dim_verified[d]))
        if not twins:
            raise common.HarnessError("no operand was compared with its public-builder twin")

    if notes_alias:
        chk.note("LLVM rejects the text but reads AsmJit's word under another mnemonic (template ok, no verdict): " + "; ".join(notes_alias[:8]))
    if lookup_miss:
        chk.note("InstAPI::string_to_inst_id(kAArch64) does not find %d names that inst_id_to_string() produces (their records are not exercised): %s ..." %
                 (len(lookup_miss), ", ".join(lookup_miss[:12])))

    chk.coverage.update({
        "evaluations": sum(len(res.get("cases", [])) for res in results),
        "distinct_nontrivial": len(distinct),
        "rule": "one evaluation = one a64::Assembler::emit() call; distinct = distinct (database record, variant class) pairs that AsmJit accepted and "
                "for which BOTH llvm-mc produced the same bytes from this module's own text AND the record's bit template (fixed bits, register fields, "
                "decoded immediates) matched; MOV sequences count when the interpretation of LLVM's disassembly yields the requested value. new_dimensions counts, per "
                "dimension added in round 11 (immediates >= 2^32, modified immediates, shape-level negatives, arrangement x shift limit, every system register / operation name), "
                "the cases, those refused as unencodable and those accepted and verified; operand_builder_twins_compared = operands built a second time through the public "
                "builders of a64operand.h and compared bit for bit",
        "samples": samples,
        "database_records": len(recs),
        "records_with_cases": len(set(c["rec"] for c in cases)),
        "records_accepted_at_least_once": len(accepted_recs),
        "records_llvm_does_not_know": len(llvm_unknown_recs),
        "records_valid_case_refused": len(refused_valid_recs),
        "generator": gstats,
        "counters": cnt,
        "verdicts_by_dimension": by_class,
        "refused_as_expected": cnt["refused_as_expected"],
        "accepted_but_unencodable": cnt["accepted_but_unencodable"],
        "marking_refuted_samples": notes_refuted[:10],
        "db_template_mismatches": {k: dbfind[k] for k in sorted(dbfind)},
        "db_annotation_mismatches": {k: db_annot[k][:6] for k in sorted(db_annot)},
        "string_to_inst_id_misses": len(lookup_miss),
        "new_dimensions": {d: {"cases": dim_cases[d], "refused_as_unencodable": dim_refused[d], "accepted_and_verified": dim_verified[d]} for d in NEW_DIMS},
        "operand_builder_twins_compared": twins,
        "asmjit_names": len(known),
        "asmjit_names_with_an_accepted_case": len(known & accepted_names),
        "asmjit_names_never_accepted": never,
        "exhaustive": False,
    })
    chk.assumptions += [
        "LLVM 14 (llvm-mc) is the independent assembler/disassembler; where it rejects this module's text there is no LLVM verdict (never a violation)",
        "system register / system operation names and numbers are read from asmjit/arm/a64globals.h (db/isa_aarch64.json has no such table); LLVM decides whether name and number agree",
        "nothing is executed on AArch64; MOV immediate sequences are checked by interpreting LLVM's disassembly of each word",
        "SVE/SME records (811) are outside a64::Assembler; MOPS and a few newer operand kinds are not generated (see generator.unsupported)",
        "movi/mvni/orr/bic (vector, immediate): a two-operand call gives the element value (AsmJit finds imm8 and the shift and documents that it may pick a smaller element size "
        "for a replicated pattern); it is unencodable iff NO movi/mvni (orr/bic: imm8 << 8k) encoding produces the lane value, by this module's own AdvSIMDExpandImm; an accepted word "
        "that LLVM encodes differently counts as equivalent only when both words expand to the requested lane value",
        "shape-level negatives are generated only when no record of the mnemonic has the operand kinds; a register written without its element type counts as the same kind "
        "(scalar- / arrangement-view dimensions); a fifth or sixth operand that no form has is not judged (a64::Assembler dispatches on the first four)",
        "a memory operand with a base register holds a 32-bit offset by design (BaseMem::set_offset keeps the low half): offsets beyond 32 bits cannot be expressed and are not a dimension",
        "11 forms db/isa_aarch64.json lacks or has with wrong operands (fcvtxn/fcvtxn2, fcvtn/fcvtn2, crc32x/crc32cx, frecpx, xpaclri, chkfeat x16, bic/bics/orn/eon Rd, Rn, #imm) are "
        "appended from the Arm ARM (vlib/isadb.py); every AsmJit instruction name must have at least one accepted case or the run is inconclusive",
        "a lane index of 16 (B lanes, max+1) cannot be represented by a64::Vec's 4-bit element index and is not generated",
    ]
    return chk.finish()
