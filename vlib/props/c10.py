"""C10 - Sections are laid out without overlap and the flattened image is exact.

Runtime monitor: drv_sections (ASan+UBSan build) generates random section tables (1..40 sections; valid and
invalid names/alignments; negative/equal/positive/extreme orders; empty, data, code, raw, virtual-size-only
sections; with/without `.addrtab`), runs flatten / code_size / relocate_to_base / copy_flattened_data /
copy_section_data / JitRuntime::add on the real code and judges every observation with an independent oracle
(layout relations, per-byte classification of every destination between canaries and ASan red zones).
Round 11: section flags and names as attributes (section_by_name), `.text` with a virtual size of its own, the documented
(order, id) sequence, zeroed alignment stretches (copy and JIT memory dirtied beforehand), copies before relocation,
relocate_to_base() without a summary, sections left with a null buffer, the span JitRuntime::add keeps for the image.
This module shards the tables, merges what the monitors saw and turns it into a verdict."""
import json
import re

from vlib import build, common

SUM_KEYS = ("tables", "recycled_reinit", "recycled_soft_reset", "recycled_hard_reset", "sections", "jit_tables", "arch_x64", "arch_x86", "arch_a64", "names_refused", "aligns_refused",
            "names_checked", "names_not_terminated", "flatten_ok", "flatten_refused_overflow",
            "overflow_code_size_not_max", "ref_layout_equal", "ref_layout_differs", "est0_equal_ref", "est0_differs_ref",
            "est0_below_final_code_size", "empty_section_unaligned", "uncovered_gap_tables", "with_addrtab",
            "addrtab_not_last", "addrtab_shrunk", "addrtab_slots_checked", "call_sites_rel", "call_sites_tab",
            "relocate_failed", "copies_skipped_big", "undersized_accepted_impl_defined", "undersized_refused_impl_defined",
            "bytes_section", "bytes_padding", "bytes_beyond", "bytes_slot", "bytes_jit", "canary_checks",
            "null_buffer_sections",
            "text_virt_only", "text_virt_larger", "text_virt_smaller", "text_overflow", "flags_checked", "flags_nonzero",
            "by_order_sequences", "equal_order_pairs", "equal_order_nonempty_pairs", "bytes_align_pad", "align_pad_tables",
            "pre_reloc_probes", "pre_reloc_tables_with_sites", "reloc_null_summary", "reloc_null_summary_shrunk",
            "null_buffers_left", "null_buffer_tables_left", "jit_span_queried", "jit_predirtied", "jit_predirtied_reused",
            "jit_small_allocs", "jit_align_pad_bytes", "jit_shrunk_spans", "names_looked_up", "names_duplicate",
            "names_absent_refused", "reflatten_identical", "reflatten_empty_moved", "reflatten_differs")
# dimensions added in round 11: a run in which one of them observed nothing is inconclusive
NEW_DIMENSIONS = ("text_virt_only", "text_virt_larger", "text_virt_smaller", "flags_nonzero", "by_order_sequences",
                  "equal_order_nonempty_pairs", "bytes_align_pad", "pre_reloc_probes", "pre_reloc_tables_with_sites",
                  "reloc_null_summary", "reloc_null_summary_shrunk", "null_buffers_left", "jit_span_queried",
                  "jit_predirtied_reused", "jit_small_allocs", "jit_align_pad_bytes", "jit_shrunk_spans",
                  "names_looked_up", "names_duplicate", "names_absent_refused")
MAX_KEYS = ("max_sections", "max_image")


def make_jobs(tier, seed, scale):
    rng = common.Rng(seed)
    if tier == "quick":
        njobs, per = 64, int(250 * scale) or 1          # 16 000 tables
    else:
        njobs, per = 500, int(2000 * scale) or 1        # 1 000 000 tables
    jobs = []
    for _ in range(njobs):
        jobs.append(["--seed", str(rng.next() % (1 << 40)), "--first", "0", "--tables", str(per)])
    return jobs


def _addv(dst, src):
    for i, x in enumerate(src):
        dst[i] += x


def run(tier, args):
    chk = common.Check("C10", tier)
    exe = build.build_driver("drv_sections", "asan")
    if args.replay:
        rp = json.load(open(args.replay))
        jobs = [rp["case"]["argv"]]
    else:
        jobs = make_jobs(tier, chk.seed, args.scale)

    def one(argv):
        rc, out, err = common.run_child([exe] + argv, timeout=3000)
        return argv, rc, out, err

    tot = {k: 0 for k in SUM_KEYS + MAX_KEYS}
    flag_combo = [0] * 16
    kinds = {}
    flat = {}
    sect = {}
    distinct = set()
    distinct_all = set()
    samples = []
    for argv, rc, out, err in common.parallel_map(one, jobs):
        rep = common.sanitizer_report(err)
        if rep:
            etxt = err.decode("utf-8", "replace")
            m = re.search(r"@asan-death table=(\d+)", etxt)
            rargv = list(argv)
            if m and "--only" not in rargv:
                rargv += ["--only", m.group(1)]
            top = next((f for f in rep["frames"] if "asmjit" in f), rep["frames"][0] if rep["frames"] else "?")
            chk.violation("sanitizer:%s:%s" % (rep["kind"].split(" on ")[0][:60], top.split("(")[0][:80]),
                          "sanitizer report under %s: %s %s %s" % (rargv, rep["kind"], rep["frames"][:5],
                                                                    (re.search(r"desc=(.*)", etxt) or [None, ""])[1][:600]),
                          {"argv": rargv})
            if "AddressSanitizer" in rep["kind"]:
                # same table again without the ASan red zones: lets the canaries name the kind of stray write
                rc2, out2, err2 = common.run_child([exe] + rargv + ["--no-poison"], timeout=3000)
                try:
                    res2 = json.loads(out2.decode().strip().splitlines()[-1])
                    for v in res2["violations"]:
                        chk.violation(v["key"], v["what"], {"argv": rargv + ["--no-poison"]})
                except Exception:
                    pass
            continue
        if rc == 3:
            raise common.HarnessError("driver %s: %s" % (argv, err.decode("utf-8", "replace")[-500:]))
        try:
            res = json.loads(out.decode().strip().splitlines()[-1])
        except Exception:
            raise common.HarnessError("driver %s rc=%s produced no summary: %s" % (argv, rc, err[-500:]))
        for v in res["violations"]:
            rargv = list(argv)
            if "--only" not in rargv:
                rargv += ["--only", str(v["table"])]
            chk.violation(v["key"], "%s (%d occurrences in this shard)" % (v["what"], v["count"]), {"argv": rargv})
        for k in SUM_KEYS:
            tot[k] += res[k]
        for k in MAX_KEYS:
            tot[k] = max(tot[k], res[k])
        _addv(flag_combo, res["flag_combo"])
        for k, v in res["kinds"].items():
            kinds[k] = kinds.get(k, 0) + v
        for cls, d in res["flat"].items():
            f = flat.setdefault(cls, {"probes": [0] * 4, "accepted": [0] * 4, "refused": [0] * 4})
            for kk in f:
                _addv(f[kk], d[kk])
        for cls, d in res["section_copies"].items():
            _addv(sect.setdefault(cls, [0] * 4), d)
        distinct.update(res["distinct"])
        distinct_all.update(res["distinct_all"])
        for s in res["samples"]:
            if len(samples) < 4:
                samples.append(s)

    if not args.replay and not chk.violations and not chk.known_hits:
        dead = [k for k in NEW_DIMENSIONS if tot[k] == 0]
        if len([c for c in flag_combo if c]) < 16:
            dead.append("flag_combo (only %d of 16 section-flag combinations)" % len([c for c in flag_combo if c]))
        if dead:
            raise common.HarnessError("dimensions that observed nothing in this run: %s" % ", ".join(dead))

    flags_seen_flat = sorted({i for d in flat.values() for i in range(4) if d["probes"][i]})
    flags_seen_sect = sorted({i for d in sect.values() for i in range(4) if d[i]})
    chk.coverage.update({
        "evaluations": tot["tables"],
        "distinct_nontrivial": len(distinct),
        "rule": "one evaluation = one random section table taken through flatten/code_size/relocate_to_base and all copy "
                "probes; distinct = distinct sorted multiset of (order, alignment, kind) over the sections of the table; "
                "non-trivial = >= 2 non-empty sections with alignment padding between two of them, or a virtual-size-only section",
        "samples": samples,
        "distinct_tables_all": len(distinct_all),
        "sections_created": tot["sections"],
        "sections_by_kind": kinds,
        "max_sections_in_a_table": tot["max_sections"],
        "max_image_bytes": tot["max_image"],
        "tables_by_arch": {"x64": tot["arch_x64"], "x86": tot["arch_x86"], "aarch64": tot["arch_a64"]},
        "overlong_names_refused": tot["names_refused"],
        "non_power_of_2_alignments_refused": tot["aligns_refused"],
        "flatten_ok": tot["flatten_ok"],
        "flatten_refused_on_64bit_overflow": tot["flatten_refused_overflow"],
        "layout_equal_to_reference_layout": tot["ref_layout_equal"],
        "layout_differs_from_reference_layout": tot["ref_layout_differs"],
        "tables_with_addrtab": tot["with_addrtab"],
        "tables_with_addrtab_not_last": tot["addrtab_not_last"],
        "tables_where_addrtab_shrank": tot["addrtab_shrunk"],
        "call_sites_resolved_rel32": tot["call_sites_rel"],
        "call_sites_through_address_table": tot["call_sites_tab"],
        "address_table_slots_compared": tot["addrtab_slots_checked"],
        "jit_runtime_add_tables": tot["jit_tables"],
        "tables_built_in_a_recycled_holder": {"after_reinit": tot["recycled_reinit"], "after_soft_reset": tot["recycled_soft_reset"], "after_hard_reset": tot["recycled_hard_reset"]},
        "flattened_copy_probes_by_size_class_and_flags": flat,
        "section_copy_probes_by_size_class_and_flags": sect,
        "copy_flag_combinations_seen": {"copy_flattened_data": flags_seen_flat, "copy_section_data": flags_seen_sect},
        "undersized_but_section_bytes_fit": {"accepted": tot["undersized_accepted_impl_defined"],
                                             "refused": tot["undersized_refused_impl_defined"]},
        "destination_bytes_classified": {"section": tot["bytes_section"], "padding": tot["bytes_padding"],
                                         "beyond_image": tot["bytes_beyond"], "address_table_slot": tot["bytes_slot"],
                                         "jit_memory": tot["bytes_jit"]},
        "canary_pairs_checked": tot["canary_checks"],
        "text_section_with_virtual_size": {"virtual_only": tot["text_virt_only"], "larger_than_buffer": tot["text_virt_larger"],
                                           "smaller_than_buffer": tot["text_virt_smaller"], "overflowing": tot["text_overflow"]},
        "section_flags": {"sections_compared": tot["flags_checked"], "non_zero": tot["flags_nonzero"],
                          "combinations_of_the_4_public_flags_seen": len([c for c in flag_combo if c])},
        "order_sequence": {"sections_by_order_sequences_checked": tot["by_order_sequences"],
                           "equal_order_pairs_checked": tot["equal_order_pairs"],
                           "equal_order_pairs_both_non_empty": tot["equal_order_nonempty_pairs"]},
        "alignment_padding_between_sections": {"tables_with_it": tot["align_pad_tables"],
                                               "bytes_compared_with_zero_under_kPadSectionBuffer": tot["bytes_align_pad"],
                                               "bytes_in_jit_images": tot["jit_align_pad_bytes"]},
        "copy_before_relocation": {"probes": tot["pre_reloc_probes"], "tables_with_unrelocated_call_sites": tot["pre_reloc_tables_with_sites"]},
        "relocate_to_base_without_summary": {"tables": tot["reloc_null_summary"], "of_which_code_size_shrank": tot["reloc_null_summary_shrunk"]},
        "sections_copied_with_null_buffer": {"sections": tot["null_buffers_left"], "tables": tot["null_buffer_tables_left"]},
        "jit_span": {"queried": tot["jit_span_queried"], "estimate_larger_than_image": tot["jit_shrunk_spans"],
                     "memory_dirtied_before_add": tot["jit_predirtied"], "image_landed_in_dirtied_memory": tot["jit_predirtied_reused"],
                     "neighbour_allocations_written": tot["jit_small_allocs"]},
        "section_by_name": {"lookups": tot["names_looked_up"], "of_duplicate_names": tot["names_duplicate"],
                            "absent_names": tot["names_absent_refused"]},
        "side_observations": {
            "section_names_without_terminator": "%d of %d" % (tot["names_not_terminated"], tot["names_checked"]),
            "sections_with_null_buffer_given_an_empty_buffer_before_copy": tot["null_buffer_sections"],
            "empty_sections_at_offset_not_multiple_of_alignment": tot["empty_section_unaligned"],
            "code_size_before_flatten_below_code_size_after_relocate": tot["est0_below_final_code_size"],
            "overflowing_tables_where_code_size_is_not_SIZE_MAX": tot["overflow_code_size_not_max"],
            "relocate_to_base_failed": tot["relocate_failed"],
            "tables_too_big_for_copy_probes": tot["copies_skipped_big"],
            "tables_with_bytes_covered_by_no_section": tot["uncovered_gap_tables"],
            "second_flatten_of_the_unchanged_holder": {"same_layout": tot["reflatten_identical"], "only_empty_sections_moved": tot["reflatten_empty_moved"],
                                                       "non_empty_section_or_code_size_changed": tot["reflatten_differs"]},
        },
        "exhaustive": False,
        "jobs": len(jobs),
    })
    chk.assumptions += [
        "ASan/UBSan instrumented static build of /repo's working tree; destinations are carved from a malloc block with 64 canary bytes and manually poisoned ASan red zones on both sides",
        "section bytes are known from the driver's own record of what it emitted (embed()/raw bytes and fixed x86/AArch64 encodings); absolute call/jmp sites are judged by meaning: rel32 reaches the target, or the instruction points at an address-table slot of the image that holds the target",
        "only what C10 states is demanded: alignment is demanded of non-empty sections; order is the documented one (order value first, creation id second: sections_by_order() must be sorted that way and offsets must not decrease along it); the exact offsets and the estimate before flatten() are not compared with the tightest reference layout (counted only); a destination smaller than code_size() but large enough for every section byte may be accepted or refused (both counted)",
        "under kPadSectionBuffer every byte of [0, end of image) that is not a section byte has to be zero, the alignment stretch between two sections included; JitRuntime::add is held to the same and its memory is dirtied beforehand (allocate, fill, release) so that an unwritten byte cannot read as zero by luck; the span kept by add() must cover the image",
        "section flags (the 4 public ones, all 16 combinations) and names must be recorded as given and must not influence layout or bytes; section_by_name() must find the first section created under a name",
        "flatten() and relocate_to_base() are documented as 'should never be called more than once': a second flatten() is a counted side observation only, a second relocation is not driven; copying before any relocation and relocate_to_base() without a summary are driven and judged",
        "in half of the tables the sections that never got a buffer are given an empty one (reserve_buffer) before copying, in the other half they keep data() == nullptr (a memcpy(dst, nullptr, 0) inside the copy functions is a UBSan nonnull report); sizes are unaffected",
        "alignments above 64 KiB, images above 6 MiB and more than 40 sections are not explored; JitRuntime::add is exercised for x86-64 tables only (host architecture)",
    ]
    return chk.finish()
