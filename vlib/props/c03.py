"""C03 - Every label reference resolves to the position where the label was bound.

Runtime monitor: drv_labels (ASan+UBSan build) generates random label programs for x86-32, x86-64 and AArch64
(references of every kind x forward/backward x same/other section x both sides of each format's range limit, up to 64
fixups pending on one label across 1-4 sections, buffer growth between reference and bind), runs them on the real
Assembler/CodeHolder and judges every reference site with its own per-format field extractor against positions taken from
offset() snapshots; a shadow count of pending fixups is compared with unresolved_fixup_count() after every API call.
x86-64 jump programs are additionally executed natively and their marker trace compared with the intended control flow.
A sample of the sites is re-decoded here by GNU objdump / LLVM (independent of both asmjit and the driver's extractor).

Round 11 additions: a reference refused at emit time is judged (legitimate only when the requested form cannot hold the
distance or does not exist); one label in four is a named global / local / anonymous label (own ExtraData branch of
bind_label); labels bound through CodeHolder::bind_label() far beyond the buffer put bound-before references next to the
+2 GiB limit (and every AArch64 limit) without filler; addends at both ends of int32; flatten()+resolve in the middle of a
program and twice at the end; xbegin, hinted jcc (kPredictedJumps), rex-forced jmp/call, bc.cond, prfm literal; embed_label
of 1 and 2 bytes with tiny bases."""
import json
import re
import subprocess

from vlib import build, common, x86tools

MASK64 = (1 << 64) - 1


def make_jobs(tier, seed, scale):
    rng = common.Rng(seed).fork("c03")
    jobs = []

    def s():
        return str(rng.next() % (1 << 40))

    if tier == "quick":
        n = max(1, int(300 * scale))
        for _ in range(48):
            jobs.append(["--mode", "c03", "--seed", s(), "--programs", str(n), "--decode-samples", "24"])
        for _ in range(16):
            jobs.append(["--mode", "exec", "--seed", s(), "--programs", str(max(1, int(160 * scale)))])
        for _ in range(3):                      # +-128 MiB inside one section (b/bl) - one program per process
            jobs.append(["--mode", "c03", "--seed", s(), "--programs", "1", "--profile", "2", "--decode-samples", "4"])
    else:
        n = max(1, int(600 * scale))
        for _ in range(1000):
            jobs.append(["--mode", "c03", "--seed", s(), "--programs", str(n), "--decode-samples", "12"])
        for _ in range(96):
            jobs.append(["--mode", "exec", "--seed", s(), "--programs", str(max(1, int(400 * scale)))])
        for _ in range(32):
            jobs.append(["--mode", "c03", "--seed", s(), "--programs", "1", "--profile", "2", "--decode-samples", "4"])
        for _ in range(10):                     # +-2 GiB inside one section (2.3 GB resident each)
            jobs.append(["--mode", "c03", "--seed", s(), "--programs", "1", "--profile", "3", "--decode-samples", "2"])
        for _ in range(3):
            jobs.append(["--mode", "c03", "--seed", s(), "--programs", "1", "--profile", "4", "--decode-samples", "2"])
    return jobs


def sanitizer_key(rep):
    kind = rep["kind"].split(" on ")[0]
    kind = re.sub(r"0x[0-9a-fA-F]+|(?<![A-Za-z_0-9])-?\d+", "N", kind)
    kind = re.sub(r"[^A-Za-z0-9_.@+:-]+", "-", kind).strip("-")[:90]
    top = next((f for f in rep["frames"] if "asmjit" in f), rep["frames"][0] if rep["frames"] else "?")
    top = re.sub(r"\(.*", "", top)
    top = re.sub(r"v\d+_\d+::", "", top)[:80]
    return "sanitizer:%s:%s" % (kind, top)


def heavy(argv):
    return "--profile" in argv and argv[argv.index("--profile") + 1] in ("3", "4")


def run_jobs(exe, jobs, chk, timeout=3000):
    """Runs the driver jobs; the 2 GiB ones at most 4 at a time. Returns list of (argv, result-dict or None)."""
    import threading
    sem = threading.Semaphore(4)

    def one(argv):
        if heavy(argv):
            with sem:
                rc, out, err = common.run_child([exe] + argv, timeout=timeout)
        else:
            rc, out, err = common.run_child([exe] + argv, timeout=timeout)
        return argv, rc, out, err

    results = []
    for argv, rc, out, err in common.parallel_map(one, jobs):
        rep = common.sanitizer_report(err)
        if rep:
            etxt = err.decode("utf-8", "replace")
            m = re.search(r"@asan-death program=(\d+)", etxt)
            rargv = list(argv)
            if m and "--only" not in rargv:
                rargv += ["--only", m.group(1)]
            chk.violation(sanitizer_key(rep), "sanitizer report under %s: %s %s %s" % (
                rargv, rep["kind"], rep["frames"][:5], (re.search(r"desc=(.*)", etxt) or [None, ""])[1][:400]), {"argv": rargv})
            results.append((argv, None))
            continue
        if rc == 3:
            raise common.HarnessError("driver %s: %s" % (argv, err.decode("utf-8", "replace")[-500:]))
        try:
            res = json.loads(out.decode().strip().splitlines()[-1])
        except Exception:
            raise common.HarnessError("driver %s rc=%s produced no summary: %s" % (argv, rc, err[-500:]))
        for v in res["violations"]:
            rargv = list(argv)
            if "--only" not in rargv:
                rargv += ["--only", str(v["program"])]
            chk.violation(v["key"], "%s (%d occurrences in this shard)" % (v["what"], v["count"]), {"argv": rargv})
        results.append((argv, res))
    return results


def merge(results):
    cnt, mx, classes, samples, decode = {}, {}, set(), [], []
    for argv, res in results:
        if res is None:
            continue
        for k, v in res["counters"].items():
            cnt[k] = cnt.get(k, 0) + v
        for k, v in res["max"].items():
            mx[k] = max(mx.get(k, 0), v)
        classes.update(res["classes"])
        for s_ in res["samples"]:
            if len(samples) < 4:
                samples.append(s_)
        for d in res["decode"]:
            decode.append((argv, d))
    return cnt, mx, classes, samples, decode


# ---- independent decoders over the sampled sites -------------------------------------------------------------

_HEX = re.compile(r"0x([0-9a-fA-F]+)")
_SHEX = re.compile(r"(-?)\s*0x([0-9a-fA-F]+)")


_RIP = re.compile(r"rip\s*([+-])\s*0x([0-9a-fA-F]+)")


def _x86_rel_from_text(text, slot_addr, bits, nbytes):
    """pc-relative target printed by the decoder, as displacement from the start of the instruction"""
    mask = (1 << bits) - 1
    if "#" in text:
        m = _HEX.search(text.split("#", 1)[1])
        return None if not m else (int(m.group(1), 16) - slot_addr) & mask
    m = _RIP.search(text)
    if m:                                   # decoders omit the target comment when a segment override is present
        d = int(m.group(2), 16)
        return (nbytes + (-d if m.group(1) == "-" else d)) & mask
    if "rip]" in text:
        return nbytes & mask
    ops = text.split(None, 1)
    if len(ops) > 1:
        hs = _HEX.findall(ops[1])
        if hs:
            return (int(hs[-1], 16) - slot_addr) & mask
    return None


def a64_disassemble(words):
    """llvm-mc --disassemble over 32-bit words -> list of text|None"""
    inp = "".join(" ".join("0x%02x" % b for b in w) + "\n" for w in words)
    p = subprocess.run(["llvm-mc", "--disassemble", "-triple=aarch64", "-mattr=+v8.5a"], input=inp.encode(),
                       stdout=subprocess.PIPE, stderr=subprocess.PIPE, timeout=600)
    lines = [ln.strip() for ln in p.stdout.decode("utf-8", "replace").splitlines() if ln.strip() and not ln.strip().startswith(".")]
    if len(lines) != len(words):
        return [None] * len(words)
    return lines


def cross_check(chk, decode, stats):
    """decode: list of (argv, record). Judges the sampled sites with GNU objdump, LLVM's x86 decoder and llvm-mc (a64)."""
    by = {"x64": [], "x86": [], "a64": []}
    for argv, d in decode:
        by[d["arch"]].append((argv, d))
    for arch, mode, bits in (("x64", 64, 64), ("x86", 32, 32)):
        recs = by[arch]
        if not recs:
            continue
        blobs = [bytes.fromhex(d["bytes"])[:x86tools.SLOT] for _, d in recs]
        blob = x86tools.layout(blobs)
        gnu = x86tools.objdump(blob, mode)
        try:
            llv = x86tools.llvm_objdump(blob, mode)
        except common.HarnessError:
            llv = [[] for _ in recs]
        for i, (argv, d) in enumerate(recs):
            nbytes = len(blobs[i])
            slot_addr = i * x86tools.SLOT
            for name, slots in (("objdump", gnu), ("llvm", llv)):
                okl, text = x86tools.decode_slot(slots[i], nbytes)
                if not okl:
                    stats["decoder_no_verdict_" + name] = stats.get("decoder_no_verdict_" + name, 0) + 1
                    continue
                what = d["what"]
                good = None
                if what == "rel" or (what == "c04" and any(t in d["form"] for t in (".rel8", ".rel32", ".rip-rel", ".addrtab"))):
                    if what == "rel":
                        want = int(d["expect"]) & ((1 << bits) - 1)
                    else:
                        want = (int(d["target"]) - int(d["site"])) & ((1 << bits) - 1)
                    got = _x86_rel_from_text(text, slot_addr, bits, nbytes)
                    good = None if got is None else got == want
                    detail = "decoder shows displacement %s from the instruction start, expected %s" % (got, want)
                elif what == "abs" or what == "c04":
                    want = int(d["expect"] if what == "abs" else d["target"]) & ((1 << bits) - 1)
                    vals = [(-int(h, 16) if sg else int(h, 16)) & ((1 << bits) - 1) for sg, h in _SHEX.findall(text)]
                    good = want in vals
                    if not good and (bits == 64) and any((v & 0xFFFFFFFF) == (want & 0xFFFFFFFF) for v in vals) and ("+67" in d["form"] or "lea32" in d["form"]):
                        good = True
                    detail = "decoder text shows %s, expected address 0x%x" % ([hex(v) for v in vals], want)
                if good is None:
                    stats["decoder_no_verdict_" + name] = stats.get("decoder_no_verdict_" + name, 0) + 1
                elif good:
                    stats["sites_confirmed_by_" + name] = stats.get("sites_confirmed_by_" + name, 0) + 1
                else:
                    chk.violation("independent-decoder-disagrees:%s:%s" % (arch, d["form"].split(".")[0]),
                                  "%s decodes %s as '%s': %s (form %s)" % (name, d["bytes"], text, detail, d["form"]), {"argv": argv})
    recs = by["a64"]
    if recs:
        words = [bytes.fromhex(d["bytes"])[:4] for _, d in recs]
        texts = a64_disassemble(words)
        for (argv, d), text in zip(recs, texts):
            if text is None:
                stats["decoder_no_verdict_llvm-mc"] = stats.get("decoder_no_verdict_llvm-mc", 0) + 1
                continue
            m = re.findall(r"#(-?(?:0x[0-9a-fA-F]+|\d+))", text)
            if not m:
                stats["decoder_no_verdict_llvm-mc"] = stats.get("decoder_no_verdict_llvm-mc", 0) + 1
                continue
            got = int(m[-1], 0)
            want = int(d["expect"])
            if got == want:
                stats["sites_confirmed_by_llvm-mc"] = stats.get("sites_confirmed_by_llvm-mc", 0) + 1
            else:
                chk.violation("independent-decoder-disagrees:a64:%s" % d["form"].split(".")[0],
                              "llvm-mc decodes %s as '%s': displacement %d, expected %d" % (d["bytes"], text, got, want), {"argv": argv})


def run(tier, args):
    chk = common.Check("C03", tier)
    exe = build.build_driver("drv_labels", "asan")
    if args.replay:
        rp = json.load(open(args.replay))
        jobs = [rp["case"]["argv"]]
    else:
        jobs = make_jobs(tier, chk.seed, args.scale)
    results = run_jobs(exe, jobs, chk)
    cnt, mx, classes, samples, decode = merge(results)
    stats = {}
    cross_check(chk, decode, stats)

    # ---- dimensions that must have observed something (full-size runs only)
    new_dims = {
        "refs_rejected_at_emit_judged": "emit-time rejections judged",
        "refs_rejected_at_emit_form_does_not_exist": "rejections of forms that do not exist (short call, long jecxz/loop)",
        "refs_verified_on_named-global_labels": "references to named global labels",
        "refs_verified_on_named-local_labels": "references to named local labels",
        "refs_verified_on_named-anonymous_labels": "references to named anonymous labels",
        "far_bound_label_refs_verified_near_limit": "bound-before references next to a forward limit (label bound beyond the buffer)",
        "far_bound_label_refs_outside_reported_at_emit": "bound-before references just beyond a forward limit, reported at emit",
        "refs_verified_addend_at_int32_end": "memory operands with an addend at an end of int32, verified",
        "refs_rejected_at_emit_addend_adjustment_overflows_int32": "addend whose adjustment overflows int32, reported at emit",
        "intermediate_pass_refs_judged": "references resolved by an intermediate flatten+resolve pass",
        "refs_verified_emitted_after_intermediate_pass": "references emitted after an intermediate pass",
        "binds_after_intermediate_pass": "binds after an intermediate pass",
        "intermediate_pass_programs_with_fixups_left_over": "intermediate passes that left fixups for the final pass",
        "resolve_again_programs_with_fixups_left_over": "second final resolve passes with unrepresentable fixups remaining",
        "refs_verified_xbegin": "xbegin",
        "refs_verified_with_branch_hint_prefix": "jcc with a 2E/3E hint prefix",
        "refs_verified_with_forced_rex": "jmp/call with a forced REX prefix",
        "ref_bc.cond": "bc.cond",
        "refs_verified_prfm-literal": "prfm literal",
        "refs_verified_embed_label_1_or_2_bytes": "embed_label of 1 or 2 bytes, verified",
        "refs_embed_label_1_or_2_bytes_reported_by_relocate": "embed_label of 1 or 2 bytes that cannot hold the address, reported",
    }
    if not args.replay and not chk.violations and args.scale >= 0.5:
        dead = ["%s (%s)" % (k, v) for k, v in new_dims.items() if cnt.get(k, 0) == 0]
        if dead:
            raise common.HarnessError("dimensions that observed nothing in this run: %s" % "; ".join(dead))

    static_classes = sorted(c for c in classes if not c.startswith("exec:"))
    exec_classes = sorted(c for c in classes if c.startswith("exec:"))
    inside = [c for c in static_classes if ":inside" in c]
    outside = [c for c in static_classes if ":outside" in c or "never-bound" in c]
    chk.coverage.update({
        "evaluations": cnt.get("programs", 0) + cnt.get("exec_programs_run", 0),
        "distinct_nontrivial": len(static_classes) + len(exec_classes),
        "rule": "one evaluation = one label program taken through emit/bind/flatten (or manual section offsets)/resolve/"
                "relocate and judged site by site (static) or executed natively (exec). distinct = distinct tuple (arch, reference "
                "kind incl. encoded form / operand variant, direction fwd|bwd, same|other section, inside the format's range and "
                "verified resolved | outside and verified reported at emit, by bind or by staying counted unresolved, label bound "
                "before|after the reference); every counted tuple is non-trivial: it was observed with its oracle verdict.",
        "samples": samples + sorted(static_classes)[:6],
        "distinct_resolved_inside_range": len(inside),
        "distinct_reported_outside_range_or_never_bound": len(outside),
        "distinct_native_transfer_classes": len(exec_classes),
        "references_total": cnt.get("refs_total", 0),
        "references_verified_field_by_field": cnt.get("refs_verified", 0),
        "references_unrepresentable_left_counted_unresolved": cnt.get("refs_unrepresentable_left_unresolved", 0),
        "references_unrepresentable_reported_at_emit": cnt.get("refs_unrepresentable_reported_at_emit", 0),
        "references_pending_on_never_bound_labels": cnt.get("refs_left_pending_label_never_bound", 0),
        "unresolved_count_comparisons": cnt.get("count_comparisons", 0),
        "programs_ending_fully_resolved": cnt.get("programs_fully_resolved", 0),
        "programs_ending_with_unresolved_references": cnt.get("programs_with_unresolved_left", 0),
        "near_limit_inside": cnt.get("near_limit_inside", 0),
        "near_limit_outside": cnt.get("near_limit_outside", 0),
        "max_pending_fixups_on_one_label": mx.get("max_pending_fixups_on_one_label", 0),
        "max_sections_with_pending_fixups_on_one_label": mx.get("max_sections_with_pending_fixups_on_one_label", 0),
        "fixups_patched_after_buffer_moved": cnt.get("fixups_patched_after_buffer_moved", 0),
        "verified_distance_ge_1MiB": cnt.get("verified_distance_ge_1MiB", 0),
        "verified_distance_ge_128MiB": cnt.get("verified_distance_ge_128MiB", 0),
        "verified_distance_near_2GiB": cnt.get("verified_distance_near_2GiB", 0),
        "programs_manual_section_offsets": cnt.get("programs_manual_layout", 0),
        "own_layout_equals_flatten": cnt.get("own_layout_equals_flatten", 0),
        "own_layout_differs_from_flatten": cnt.get("own_layout_differs_from_flatten", 0),
        "programs_executed_natively": cnt.get("exec_programs_run", 0),
        "native_traces_equal": cnt.get("exec_traces_equal", 0),
        "native_blocks_executed": cnt.get("exec_blocks_run", 0),
        "native_transfers_by_kind": {k[len("exec_transfer_"):]: v for k, v in cnt.items() if k.startswith("exec_transfer_")},
        "references_by_kind": {k[4:]: v for k, v in cnt.items() if k.startswith("ref_")},
        "emit_rejections": {k[len("refs_rejected_at_emit_"):]: v for k, v in cnt.items() if k.startswith("refs_rejected_at_emit_")},
        "labels_by_type": {k[len("labels_"):]: v for k, v in cnt.items() if k.startswith("labels_")},
        "references_verified_on_named_labels": {k[len("refs_verified_on_"):]: v for k, v in cnt.items() if k.startswith("refs_verified_on_")},
        "labels_bound_beyond_the_buffer": cnt.get("binds_far_beyond_buffer", 0),
        "far_bound_label_refs": {k[len("far_bound_label_refs_"):]: v for k, v in cnt.items() if k.startswith("far_bound_label_refs_")},
        "addend_at_int32_end": {"verified": cnt.get("refs_verified_addend_at_int32_end", 0),
                                "reported_at_emit": cnt.get("refs_rejected_at_emit_addend_adjustment_overflows_int32", 0),
                                "reported_by_relocate": cnt.get("refs_addend_at_int32_end_reported_by_relocate", 0)},
        "intermediate_pass": {k[len("intermediate_pass_"):]: v for k, v in cnt.items() if k.startswith("intermediate_pass_")},
        "after_intermediate_pass": {"references_emitted": cnt.get("refs_emitted_after_intermediate_pass", 0),
                                    "references_verified": cnt.get("refs_verified_emitted_after_intermediate_pass", 0),
                                    "binds": cnt.get("binds_after_intermediate_pass", 0)},
        "resolve_again": {k[len("resolve_again_"):]: v for k, v in cnt.items() if k.startswith("resolve_again_")},
        "second_flatten_moved_an_empty_section": cnt.get("second_flatten_moved_an_empty_section", 0),
        "refs_not_judged_layout_moved_after_resolve_pass": cnt.get("refs_not_judged_layout_moved_after_resolve_pass", 0),
        "variants_verified": {"xbegin": cnt.get("refs_verified_xbegin", 0), "jcc_hint_prefix": cnt.get("refs_verified_with_branch_hint_prefix", 0),
                              "forced_rex": cnt.get("refs_verified_with_forced_rex", 0), "bc.cond": cnt.get("refs_verified_bc.cond", 0),
                              "prfm-literal": cnt.get("refs_verified_prfm-literal", 0)},
        "embed_label_1_or_2_bytes": {"verified": cnt.get("refs_verified_embed_label_1_or_2_bytes", 0),
                                     "reported_by_relocate": cnt.get("refs_embed_label_1_or_2_bytes_reported_by_relocate", 0)},
        "programs_by_arch": {a: cnt.get("programs_" + a, 0) for a in ("x64", "x86", "a64")},
        "independent_decoders": stats,
        "max_image_bytes": mx.get("max_image_bytes", 0),
        "exhaustive": False,
        "jobs": len(jobs),
    })
    chk.assumptions += [
        "ASan/UBSan instrumented static build of /repo's working tree; positions come from BaseAssembler::offset() snapshots, "
        "Section::offset() after flatten() (cross-checked against our own layout) or our own Section::set_offset() layout",
        "adrp to a label is judged by asmjit's own rule (target - site must be a multiple of 4096, else it has to be reported); "
        "whenever it is accepted the ISA meaning page(site)+imm*4096 == page(target) holds for every 4 KiB aligned base",
        "a reference rejected at emit time counts as 'reported' only when the requested form cannot hold the distance, when the form does "
        "not exist (short call, long jecxz/loop) or when the addend of a [rip+label+addend] operand minus the bytes that follow the field "
        "leaves int32 (documented at the site); any other rejection of a generated (valid) reference is a violation",
        "labels bound through CodeHolder::bind_label(label, section, offset) beyond the end of the buffer are used on x86-64 and AArch64 "
        "only (x86-32 distances wrap at 2^32); flatten() run twice may move an EMPTY section by alignment padding (layout of empty sections "
        "is C10's subject): references resolved with the earlier offsets are judged against those, or not at all when they moved",
        "+-2 GiB inside ONE section (2.3 GB buffers) is only generated in the thorough tier; across sections it is reached in both tiers "
        "through Section::set_offset(); x86-32 images stay below 1 GiB; native execution covers x86-64 only (no x86-32 gate, no AArch64 CPU)",
    ]
    return chk.finish()
