"""C14 - invalid input is rejected with an error and leaves emitter state untouched.

Runtime monitor (ASan/UBSan build): arbitrary (instruction id, options, extra register, 0..6 operands) tuples - built
only with public constructors/setters - are handed to x86 Assembler / Builder / Compiler with strict validation and
with returning, recording and throwing error handlers. For every call the driver records what changed; failures
must change nothing and invoke the handler exactly once, successes are sent to the C01 oracles, and probe programs
emitted in between and at the end must equal a fresh emitter's output. A second driver (drv_api14) interleaves
valid and invalid label/section/alignment/data API calls on an Assembler, and hands labels that do not exist in the attached
CodeHolder (kInvalidId, label_count()+k, 0xFFFFFFFE, a label of another CodeHolder, an already bound label) to every
label-taking entry point of Assembler, Builder and Compiler (x86 and AArch64) in the middle of valid call streams: refused,
handler called once (also when it throws), node list / cursor / bytes / counts untouched, finalized output equal to a twin
emitter that never got the invalid calls.
Round 12 dimensions: register ids of the VIRTUAL range (>= 256) and Mem::set_reg_home() in every operand position (the Compiler
job owns a few real virtual registers; a non-existent virtual id it accepts must make finalize() fail and report once); the
handler attached to the EMITTER instead of the CodeHolder, and emitters that leave their holder (detach / reset / destruction),
are used while detached and go on with a fresh holder; the Assembler WITHOUT strict validation (operand kinds kept) under the
same failure oracles; a second Builder/Compiler that gets only the failing lines and must finalize to a fresh emitter's code;
invalid alignment / size / type / repeat arguments with valid labels on all six emitters; error-handler ROUTING over random
attachment histories (drv_api14 namespace route)."""
import collections
import json
import multiprocessing
import os

from vlib import build, common, isadb, x86gen, xdec
from vlib.props import c01

G = x86gen
RTYPES = ["gp8lo", "gp8hi", "gp16", "gp32", "gp64", "xmm", "ymm", "zmm", "mm", "k", "sreg", "creg", "dreg", "st", "bnd", "tmm", "rip"]
INTERESTING_IDS = [0, 1, 3, 4, 5, 7, 8, 12, 13, 15, 16, 17, 31, 32, 33, 63, 64, 127, 128, 200, 255]
IMMS = [0, 1, -1, 127, 128, -128, -129, 255, 256, 32767, 32768, 65535, 65536, -32768, -32769, 2**31 - 1, 2**31, -2**31, -2**31 - 1,
        2**32 - 1, 2**32, 2**63 - 1, -2**63]


INVALID_REG_TYPES = [0, 1, 7, 8, 9, 10, 14, 15, 18, 19, 20, 21, 22, 23, 24]
# ids of the virtual-register range (Operand::kVirtIdMin = 256 ..): 256..259 are real in the Compiler job (drv_reject kRealVirt: gp32,
# gp-ptr, xmm, k), every other one names nothing anywhere
VIRT_IDS = [256, 257, 258, 259, 260, 261, 300, 4096, 0x7FFFFFFF, 0x80000000, 0xFFFFFFFE, 0xFFFFFFFF]
REAL_VIRT = {"gp32": 256, "gp64": 257, "xmm": 258, "k": 259}
REX_REQUESTS = [G.OPT_REX, 0x01000000, 0x02000000, 0x04000000, 0x08000000]      # rex(), kX86_OpCodeB / X / R / W
REX_MASK = 0x4F000000
VIRT_RATE = {"asm": 14, "builder": 14, "compiler": 4}     # one id in N is drawn from the virtual range


def reg_id(rng, emitter="asm", rtype=None):
    if rng.chance(1, VIRT_RATE[emitter]):
        if emitter == "compiler" and rtype in REAL_VIRT and rng.chance(1, 2):
            return REAL_VIRT[rtype]
        return rng.choice(VIRT_IDS)
    return rng.choice(INTERESTING_IDS)


def rand_reg(rng, emitter="asm"):
    if rng.chance(1, 10):
        return ("Rn", rng.choice(INVALID_REG_TYPES), reg_id(rng, emitter))
    t = rng.choice(RTYPES)
    return ("R", t, reg_id(rng, emitter, t) if rng.chance(1, 2) else rng.below(16))


def rand_mem(rng, mode, emitter="asm"):
    def part():
        k = rng.below(12)
        if k == 0:
            return None
        if k == 1:
            return ("#%d" % rng.below(32), reg_id(rng, emitter))
        if k < 6:
            t = rng.choice(["gp32", "gp64", "gp16", "xmm", "ymm", "zmm", "rip", "gp8lo", "k", "sreg"])
            return (t, reg_id(rng, emitter, t))
        if rng.chance(1, VIRT_RATE[emitter]):
            t = "gp64" if mode == 64 else "gp32"
            return (t, reg_id(rng, emitter, t))
        return (("gp64" if mode == 64 else "gp32"), rng.below(16 if mode == 64 else 8))
    base = part()
    if rng.chance(1, 8):
        base = ("label", 0)
    elif rng.chance(1, 8):
        base = ("labelraw", rng.choice([0, 1, 2, 50, 1000, 0x7FFFFFFF, 0xFFFFFFFE, 0xFFFFFFFF]))
    return ("M", dict(size=rng.choice([0, 1, 2, 4, 8, 16, 32, 64, 6, 10, 3, 5, 7, 9, 15, 128, 255]), base=base, index=part() if rng.chance(1, 2) else None,
                      shift=rng.below(4), disp=rng.choice(IMMS), seg=rng.choice([0, 0, 0, 1, 2, 3, 4, 5, 6, 7]), bcst=rng.choice([0, 0, 0, 1, 2, 3, 4, 5, 6, 7]),
                      addr=rng.choice(["default", "default", "abs", "rel"]),
                      home=1 if (base and base[0] not in ("label", "labelraw") and rng.chance(1, 8)) else 0))


def rand_operand(rng, mode, emitter="asm"):
    k = rng.below(10)
    if k < 4:
        return rand_reg(rng, emitter)
    if k < 7:
        return rand_mem(rng, mode, emitter)
    if k == 7:
        return ("I", rng.choice(IMMS))
    if k == 8:
        return rng.choice([("L", 0), ("L", 1), ("Lraw", rng.choice([0, 5, 999999, 0xFFFFFFFF]))])
    return ("N",)


def op_token(op):
    if op[0] == "Rn":
        return "Rn:%d:%d" % (op[1], op[2])
    if op[0] == "Lraw":
        return "Lraw:%d" % op[1]
    if op[0] == "N":
        return "N"
    if op[0] == "M":
        m = op[1]
        b = m["base"] or ("none", 0)
        i = m["index"] or ("none", 0)
        return "M:%d:%s:%d:%s:%d:%d:%d:%d:%d:%s:%d" % (m["size"], b[0], b[1], i[0], i[1], m["shift"], m["disp"], m["seg"], m["bcst"], m["addr"], m.get("home", 0))
    return G.op_token(op)


def case_line(c):
    ex = "-" if not c["extra"] else "%s:%d" % c["extra"]
    return "%d %s %s %x %s %d %s" % (c["id"], c["arch"], c["name"], c["opts"], ex, len(c["ops"]), " ".join(op_token(o) for o in c["ops"]))


def standard(c):
    """case uses only operand kinds the C01 oracles understand"""
    for op in c["ops"]:
        if op[0] == "L" and op[1] != 0:
            return False   # unbound label: the displacement is a placeholder (C03's subject)
        if op[0] == "M" and op[1]["base"] is None and op[1]["index"] is None and op[1]["addr"] != "abs" and c["arch"] == "x64":
            return False   # relocatable absolute address (C04's subject)
        if op[0] == "M" and (op[1]["base"] or op[1]["index"]) and not (-2**31 <= op[1]["disp"] < 2**31):
            return False   # the Mem constructors take an int32 displacement: the harness itself truncates
        if op[0] == "M" and op[1]["base"] is None and op[1]["index"] is None and c["arch"] == "x64" and not (-2**31 <= op[1]["disp"] < 2**31):
            return False   # 64-bit absolute addresses above 2 GiB use addr32/moffs forms: judged by C01's dedicated cases

        if op[0] in ("Rn", "Lraw", "N"):
            return False
        if op[0] == "R" and op[2] >= 256:
            return False
        if op[0] == "M":
            if op[1].get("home"):
                return False
            for k in ("base", "index"):
                if op[1][k] and op[1][k][1] >= 256:
                    return False
                r = op[1][k]
                if r and (r[0].startswith("#") or r[0] in ("label", "labelraw")):
                    return False
            if op[1]["seg"] > 6 or op[1]["bcst"] > 6:
                return False
    return True


def gen_cases(rng, forms, mode, n, emitter="asm", kinds_kept=False):
    """kinds_kept: every operand keeps its kind and register / address-register TYPES; ids, sizes, segments, broadcasts,
    displacements, immediates, label ids, option bits, the extra register and the instruction id are arbitrary (the input space of
    the property without strict validation)"""
    gen = G.Gen(rng)
    cases = []
    while len(cases) < n:
        f = rng.choice(forms)
        if mode not in G.modes_of(f):
            continue
        base = gen.instantiate(f, mode, None)
        if base is None:
            continue
        ops = list(base)
        opts = 0
        extra = None
        name = f["name"]
        s = rng.below(100)
        tag = "valid"
        if mode == 32 and not f.get("prefix") and rng.chance(1, 4):
            # x86-32: a valid operand list (register or memory form) with a request for a REX prefix - rex() or one of the REX.B/X/R/W
            # option bits. The validator does not know these bits; the 32-bit Assembler itself must refuse them (kInvalidRexPrefix).
            want_mem = rng.chance(1, 2)
            alt = gen.instantiate(f, mode, want_mem)
            if alt is not None:
                ops = list(alt)
            opts = rng.choice(REX_REQUESTS) if rng.chance(3, 4) else (rng.choice(REX_REQUESTS) | rng.choice(REX_REQUESTS))
            cases.append(dict(id=len(cases), arch="x86", form=f["_idx"], name=name, opts=opts, extra=None, ops=ops, variant="rex32"))
            continue
        if kinds_kept and 55 <= s < 78:
            s = 10 + (s - 55)      # no random operand lists / operand counts
        if s < 10:
            pass
        elif s < 55 and ops:
            # perturb one or two operands
            tag = "perturb"
            for _ in range(1 + rng.below(2)):
                i = rng.below(len(ops))
                op = ops[i]
                k = rng.below(8)
                if kinds_kept and k >= 5:
                    k = rng.below(5)
                if op[0] == "R" and (k < 3 or kinds_kept):
                    ops[i] = ("R", op[1], reg_id(rng, emitter, op[1]))
                elif op[0] == "R" and k < 5:
                    ops[i] = ("R", rng.choice(RTYPES), op[2])
                elif op[0] == "M" and k < 5:
                    m = dict(op[1])
                    what = rng.below(11)
                    if kinds_kept and what in (0, 1):
                        what = 7 + what
                    if what == 10:
                        m["home"] = 1
                        if m["base"] and m["base"][0] not in ("label", "labelraw") and not m["base"][0].startswith("#") and rng.chance(1, 2):
                            m["base"] = (m["base"][0], reg_id(rng, emitter, m["base"][0]))
                    elif what >= 7:
                        # keep the register type, change only the id (ids that do not exist in this mode, REX/EVEX extension bits, virtual-range ids)
                        k2 = "base" if (what == 7 or not m["index"]) else "index"
                        if m[k2] and not m[k2][0].startswith("#") and m[k2][0] not in ("label", "labelraw"):
                            m[k2] = (m[k2][0], reg_id(rng, emitter, m[k2][0]))
                    elif what == 0:
                        m["base"] = rand_mem(rng, mode, emitter)[1]["base"]
                    elif what == 1:
                        m["index"] = rand_mem(rng, mode, emitter)[1]["index"]
                    elif what == 2:
                        m["seg"] = rng.below(8)
                    elif what == 3:
                        m["bcst"] = rng.below(8)
                    elif what == 4:
                        m["size"] = rng.choice([0, 1, 2, 3, 4, 8, 16, 32, 64, 128, 255])
                    elif what == 5:
                        m["disp"] = rng.choice(IMMS)
                    else:
                        m["addr"] = rng.choice(["abs", "rel"])
                    ops[i] = ("M", m)
                elif op[0] == "I" and (k < 5 or kinds_kept):
                    ops[i] = ("I", rng.choice(IMMS))
                elif op[0] == "L" and kinds_kept:
                    ops[i] = rng.choice([("L", 0), ("L", 1), ("Lraw", rng.choice([0, 5, 999999, 0xFFFFFFFE, 0xFFFFFFFF]))])
                elif not kinds_kept:
                    ops[i] = rand_operand(rng, mode, emitter)
        elif s < 70:
            tag = "random-ops"
            ops = [rand_operand(rng, mode, emitter) for _ in range(rng.below(7))]
        elif s < 78:
            tag = "count"
            if rng.chance(1, 2) and ops:
                ops = ops[:rng.below(len(ops))]
            else:
                ops = (ops + [rand_operand(rng, mode, emitter) for _ in range(3)])[:6]
        elif s < 84:
            tag = "bad-id"
            name = "#%d" % rng.choice([0, 5000, 65535, 0x7FFFFFFF, 0xFFFFFFFF, 1831, 2000 + rng.below(3000)])
        elif s < 92:
            tag = "options"
            opts = rng.next() & 0xFFFFFFFF if rng.chance(1, 2) else (1 << rng.below(32))
        else:
            tag = "extra"
            et = rng.choice(["k", "gp32", "gp64", "xmm", "gp16", "sreg"])
            extra = (et, reg_id(rng, emitter, et))
            if rng.chance(1, 2):
                opts = rng.choice([G.OPT_REP, G.OPT_REPNE, G.OPT_ZMASK, G.OPT_ER | G.OPT_RU])
        if rng.chance(1, 12):
            opts |= rng.choice([G.OPT_LOCK, G.OPT_REP, G.OPT_ZMASK, G.OPT_SAE, G.OPT_EVEX, G.OPT_VEX3, G.OPT_REX, G.OPT_SHORT, G.OPT_LONG, 0x1, 0x2, 0x4, 0x80000000])
        while ops and ops[-1] == ("N",):
            ops = ops[:-1]   # trailing none operands are "no operand"
        c = dict(id=len(cases), arch="x64" if mode == 64 else "x86", form=f["_idx"], name=name, opts=opts, extra=extra, ops=ops, variant=tag)
        cases.append(c)
    return cases


def worker(arg):
    shard, seed, n, exe, emitter, handler, mode, cfg = arg
    own, reattach, validate = cfg["own"], cfg["reattach"], cfg["validate"]
    forms = isadb.x86_forms()
    byname = collections.defaultdict(list)
    for f in forms:
        byname[f["name"]].append(f)
    rng = common.Rng(seed).fork("c14-%d-%s-%s-%d" % (shard, emitter, handler, mode))
    cases = gen_cases(rng, forms, mode, n, emitter, kinds_kept=not validate)
    lines = [case_line(c) for c in cases]
    extra = ["--emitter", emitter, "--handler", handler, "--arch", "x64" if mode == 64 else "x86", "--handler-on", "emitter" if own else "holder",
             "--validate", "1" if validate else "0", "--reattach", str(reattach), "--pass2", "1", "--iso", str(cfg.get("iso", 0)),
             "--settings", str(cfg.get("settings", 0)), "--settings-seed", str(seed * 1000 + shard)]
    etag = emitter if validate else emitter + "-novalidate"
    rc, out, err = c01._emit(exe, lines, extra)
    viol = []
    stats = collections.Counter()
    rep = common.sanitizer_report(err)
    if rc != 0 or rep:
        lo, hi = 0, len(lines)
        while hi - lo > 1:
            mid = (lo + hi) // 2
            rc2, out2, err2 = c01._emit(exe, lines[lo:mid], extra)
            if rc2 != 0 or common.sanitizer_report(err2):
                hi = mid
            else:
                lo = mid
        rc3, out3, err3 = c01._emit(exe, lines[lo:lo + 1], extra)
        rep3 = common.sanitizer_report(err3) or rep
        single = rc3 != 0 or bool(common.sanitizer_report(err3))
        top = "?"
        if rep3:
            top = next((fr for fr in rep3["frames"] if "asmjit" in fr), rep3["frames"][0] if rep3["frames"] else "?").split("(")[0].split(" /")[0][:90]
        kind = (rep3 or {"kind": "crash rc=%d" % rc})["kind"].split(" on ")[0].split(" @")[0][:60]
        viol.append(("sanitizer:%s:%s" % (kind, top), "undefined behaviour while handling input (%s, %s, reproduces alone: %s): %s; case: %s" % (emitter, " ".join(extra[2:]), single, rep3, lines[lo]), lines[lo]))
        return dict(viol=viol, stats={}, n=0, distinct=[], samples=[], fails=0)
    recs = [json.loads(l) for l in out.decode().splitlines()]
    final = recs[-1]
    recs = recs[:-1]
    if len(recs) != len(cases):
        raise common.HarnessError("driver returned %d records for %d cases" % (len(recs), len(cases)))
    distinct = set()
    samples = []
    succ_cases, succ_recs = [], []
    for c, r in zip(cases, recs):
        line = case_line(c)
        nvirt = sum(1 for op in c["ops"] if op[0] in ("R", "Rn") and op[2] >= 256) + \
            sum(1 for op in c["ops"] if op[0] == "M" for k in ("base", "index") if op[1][k] and op[1][k][0] not in ("label", "labelraw") and op[1][k][1] >= 256) + \
            (1 if c["extra"] and c["extra"][1] >= 256 else 0)
        nhome = sum(1 for op in c["ops"] if op[0] == "M" and op[1].get("home"))
        lead = c["ops"][:next((i for i, op in enumerate(c["ops"]) if op[0] in ("N", "Rn")), len(c["ops"]))]
        # ... in an operand the validator looks at (a register / address register of a defined type, not behind a gap, not the extra register)
        nvirt_lead = sum(1 for op in lead if op[0] == "R" and op[2] >= 256) + \
            sum(1 for op in lead if op[0] == "M" for k in ("base", "index") if op[1][k] and op[1][k][0] not in ("label", "labelraw") and not op[1][k][0].startswith("#") and op[1][k][1] >= 256)
        if bool(nvirt) != bool(r["virt"]):
            raise common.HarnessError("driver and generator disagree on virtual-range ids: %s -> %s" % (line, r))
        stats["calls_with_virtual_range_id:" + emitter] += 1 if nvirt else 0
        stats["calls_with_real_virtual_register"] += 1 if r["virt"] == 1 else 0
        stats["calls_with_reg_home_operand:" + emitter] += 1 if nhome else 0
        if not validate:
            stats["novalidate_calls"] += 1
        if own:
            stats["calls_with_handler_on_emitter"] += 1
        # (only the generated class: a legacy-encoded form with valid operands; VEX/EVEX/XOP forms have no REX byte to refuse)
        rex32 = mode == 32 and c["variant"] == "rex32"
        after_ev = r["ev"] > 0
        if after_ev:
            stats["calls_after_settings_events"] += 1
        if r["fh"]:
            viol.append(("settings:foreign-handler-called:%s" % etag, "a handler that is not in charge (set on the CodeHolder while the emitter owns one / detached again) was called %d times: %s -> %s" % (r["fh"], line, r), line))
        if rex32:
            form_kind = "mem" if any(op[0] == "M" for op in c["ops"]) else "reg" if any(op[0] == "R" for op in c["ops"]) else "other"
            stats["rex32_requests:%s" % emitter] += 1
            if after_ev:
                stats["rex32_after_settings_events:%s:%s" % (emitter, form_kind)] += 1
                for bit, nm in ((G.OPT_REX, "rex"), (0x01000000, "b"), (0x02000000, "x"), (0x04000000, "r"), (0x08000000, "w")):
                    if c["opts"] & bit:
                        stats["rex32_after_settings_events_bit:" + nm] += 1
            raw = bytes.fromhex(r.get("bytes") or "")
            k0 = 0
            while k0 < len(raw) and raw[k0] in (0x66, 0x67, 0xF2, 0xF3, 0xF0, 0x2E, 0x36, 0x3E, 0x26, 0x64, 0x65):
                k0 += 1
            rex_byte = k0 < len(raw) and 0x40 <= raw[k0] <= 0x4F and c["name"] not in ("inc", "dec")
            if r["err"] == 0 and emitter == "asm" and not rex_byte:
                stats["rex32_request_dropped_or_not_judged"] += 1         # accepted without a 0x4x byte: the request was ignored (C01 oracles judge the bytes)
            if r["err"] == 0 and emitter == "asm" and rex_byte:
                viol.append(("success:rex-request-accepted-in-32-bit-mode:%s" % etag, "x86-32: a request for a REX prefix (options 0x%x) returned kOk and appended %s (handler calls %d, %d settings events before, %s): %s"
                             % (c["opts"], r.get("bytes"), r["h"], r["ev"], " ".join(extra[2:10]), line), line))
                continue
            if r["err"] != 0 and after_ev and emitter == "asm":
                stats["rex32_refused_after_settings_events"] += 1
        if r["err"] != 0:
            stats["failed"] += 1
            if not validate:
                stats["novalidate_failed"] += 1
            if nvirt:
                stats["virtual_range_id_refused:" + emitter] += 1
            if nhome:
                stats["reg_home_refused:" + emitter] += 1
            sig = ",".join(op[0] if op[0] != "R" else op[1] for op in c["ops"])
            distinct.add((etag, r["err"], c["variant"], sig) + (("virt",) if nvirt else ()) + (("home",) if nhome else ()) + (("own",) if own else ()))
            problems = []
            if r["cur"]:
                problems.append("moved-cursor")
            if r["db"]:
                problems.append("appended-bytes")
            if r["dl"]:
                problems.append("created-labels")
            if r["df"]:
                problems.append("created-fixups")
            if r["dr"]:
                problems.append("created-relocations")
            if r["ds"]:
                problems.append("created-sections")
            if r["dn"]:
                problems.append("appended-nodes")
            if r["pc"]:
                problems.append("modified-earlier-bytes")
            if r["oneshot"]:
                problems.append("left-one-shot-state")
            if handler != "none" and r["h"] != 1:
                problems.append("handler-called-%d-times" % r["h"])
            if handler == "throw" and not r["threw"]:
                problems.append("throwing-handler-not-propagated")
            for p in problems:
                viol.append(("failed-call:%s:%s" % (p, etag), "failed call (error %d, %s) %s: %s -> %s" % (r["err"], " ".join(extra[2:10]), p, line, r), line))
            if len(samples) < 2:
                samples.append({"case": line, "emitter": emitter, "handler": handler, "record": r})
        else:
            stats["succeeded"] += 1
            if nvirt_lead and emitter != "compiler" and validate:
                # only the Compiler knows virtual registers: Assembler and Builder validate without ValidationFlags::kEnableVirtRegs
                viol.append(("success:virtual-register-id-accepted:%s" % emitter, "a register id of the virtual range was accepted by an emitter that cannot allocate registers: %s -> %s" % (line, r), line))
            if nvirt_lead and emitter == "compiler":
                stats["virtual_range_id_recorded_by_compiler"] += 1
            if r["h"]:
                viol.append(("success:handler-called:%s" % emitter, "successful call invoked the error handler: %s" % line, line))
            if r["oneshot"]:
                viol.append(("success:left-one-shot-state:%s" % emitter, "successful call left one-shot state: %s" % line, line))
            bad_field = [] if not validate else \
                ([("segment", op[1]["seg"]) for op in lead if op[0] == "M" and op[1]["seg"] > 6] +
                 [("broadcast", op[1]["bcst"]) for op in lead if op[0] == "M" and op[1]["bcst"] > 6])
            if bad_field:
                # segment ids 1..6 are ES..GS, broadcasts 1..6 are {1to2}..{1to64}: 7 names nothing in either field
                viol.append(("success:undefined-%s-id-accepted:%s" % (bad_field[0][0], emitter),
                             "a memory operand with %s id %d (undefined) was accepted%s: %s" % (bad_field[0][0], bad_field[0][1], " and %s appended" % r["bytes"] if r.get("bytes") else "", line), line))
            if emitter == "asm" and not validate:
                stats["novalidate_succeeded_not_judged"] += 1      # without the validator "a correct instruction" is the caller's business (kinds kept, values arbitrary)
            elif emitter == "asm":
                if standard(c) and not c["name"].startswith("#") and not (c["opts"] & (G.OPT_MODMR | G.OPT_MODRM)):
                    cands = xdec.candidates(c, byname, mode)
                    if cands:
                        c["form"] = cands[0][0]["_idx"]   # the perturbed operands may select another form of the mnemonic
                    succ_cases.append(c)
                    succ_recs.append(r)
                elif r["bytes"] and any(op[0] in ("Rn", "N") or (op[0] == "M" and any(op[1][k] and op[1][k][0].startswith("#") for k in ("base", "index"))) for op in c["ops"]):
                    stats["succeeded_nonstandard"] += 1
                    viol.append(("validator-gap:operands-beyond-signature-accepted", "call with an operand kind outside the x86 operand model (or a gap in the operand list) succeeded and appended %s: %s" % (r["bytes"], line), line))
                else:
                    stats["succeeded_not_judged"] += 1
            elif r["dn"] != 1:
                viol.append(("success:node-count:%s" % emitter, "successful call appended %d nodes: %s" % (r["dn"], line), line))
    # successful assembler calls: same oracles as C01
    if succ_cases:
        st2 = collections.Counter()
        samples2 = []
        v2 = []
        c01.judge_mode(succ_cases, succ_recs, forms, byname, mode, st2, v2, samples2)
        st2.pop("_distinct", None)
        known_opts = (G.OPT_SHORT | G.OPT_LONG | G.OPT_MODMR | G.OPT_MODRM | G.OPT_VEX3 | G.OPT_VEX | G.OPT_EVEX | G.OPT_LOCK | G.OPT_REP | G.OPT_REPNE |
                      G.OPT_XACQUIRE | G.OPT_XRELEASE | G.OPT_ER | G.OPT_SAE | G.OPT_ZMASK | G.OPT_REX)
        by_line = {G.case_line(c): c for c in succ_cases}      # (the C01 oracles name a case by the C01 case line)
        for k, what, line in v2:
            c = by_line.get(line)
            if k in ("validator-gap:base-and-index-of-different-address-size", "validator-gap:vector-index-with-16-bit-base"):
                k = "validator-gap:memory-operand-registers-not-validated"        # C01's finer classes of the same gap
            elif c is not None and not k.startswith("validator-gap:"):
                areg = "gp64" if mode == 64 else "gp32"
                alt = "gp32" if mode == 64 else "gp16"
                bad_mem = False
                fobj = forms[c["form"]]
                for op in c["ops"]:
                    if op[0] == "M":
                        mm = op[1]
                        if mm["base"] and mm["base"][0] == "rip" and (mode == 32 or mm["index"] or mm["base"][1] != 0):
                            bad_mem = True
                        if mm["index"] and mm["index"][0] in ("xmm", "ymm", "zmm") and not any(o.get("vsibReg") for o in fobj["operands"]):
                            bad_mem = True
                        if mm["seg"] and any(o.get("memSegment") in ("es", "ds") for o in fobj["operands"]):
                            bad_mem = True
                        if mm["index"] and mm["index"][0] in ("xmm", "ymm", "zmm") and mm["base"] and mm["base"][0] == "gp16":
                            bad_mem = True   # VSIB needs a SIB byte: impossible with 16-bit addressing
                        regs = [op[1][x] for x in ("base", "index") if op[1][x] and op[1][x][0] in ("gp16", "gp32", "gp64")]
                        if len(set(r[0] for r in regs)) > 1 or \
                           any(r[0] not in (areg, alt) for r in regs) or (regs and regs[0][0] == "gp16" and not (-32768 <= op[1]["disp"] < 65536)):
                            bad_mem = True
                if bad_mem:
                    k = "validator-gap:memory-operand-registers-not-validated"
                elif c["opts"] & ~known_opts or ((c["opts"] & 0x600000) and not (c["opts"] & G.OPT_ER)):
                    k = "validator-gap:undefined-option-bits-accepted"
                elif c["extra"] and not (c["extra"][0] == "k" and 1 <= c["extra"][1] <= 7):
                    k = "validator-gap:extra-register-not-validated"
            viol.append((k, what, line))
        stats["succeeded_judged"] += st2.get("judged", 0)
    if emitter == "asm":
        if final["used"] != final["fresh"]:
            viol.append(("residue:final-probe-differs:%s" % emitter, "after the batch the probe program assembled to %s, a fresh emitter gives %s" % (final["used"], final["fresh"]), lines[-1]))
        if not final["mid_ok"]:
            viol.append(("residue:mid-probe-differs:%s" % emitter, "a probe program emitted between failing calls differs from a fresh emitter's", lines[-1]))
        stats["probes"] += final["mid_probes"] + 1
    else:
        if final["finalize"] == 0:
            if final["tail"] != final["fresh"]:
                viol.append(("residue:final-probe-differs:%s" % emitter, "after finalize the probe tail is %s, a fresh assembler gives %s" % (final["tail"], final["fresh"]), lines[-1]))
            stats["probes"] += 1
        else:
            stats["finalize_errors"] += 1
        # second emitter: only the failing lines, then the probe, finalized - against a fresh emitter of the same kind
        stats["pass2_failing_lines_replayed"] += final["p2_lines"]
        stats["pass2_lines_accepted_in_other_context"] += final["p2_accepted"]
        cfgs = " ".join(extra[2:10])
        if final["p2_fresh_fin"] != 0:
            raise common.HarnessError("the probe program does not finalize on a fresh %s (%s)" % (emitter, final["p2_fresh_fin"]))
        if final["p2_nodes_left"]:
            viol.append(("residue:pass2-nodes-left:%s" % emitter, "%d nodes are left in a %s that only received %d failing calls (%s)" % (final["p2_nodes_left"], emitter, final["p2_lines"], cfgs), lines[-1]))
        if final["p2_fin"] != 0:
            viol.append(("residue:pass2-finalize-failed:%s" % emitter, "a %s that received %d failing calls and then the probe program fails to finalize with error %d (%s)" % (emitter, final["p2_lines"], final["p2_fin"], cfgs), lines[-1]))
        else:
            stats["pass2_programs_compared"] += 1
            if final["p2_used"] != final["p2_fresh"]:
                viol.append(("residue:pass2-probe-differs:%s" % emitter, "a %s that received %d failing calls and then the probe program finalizes to %s, a fresh one to %s (%s)" % (emitter, final["p2_lines"], final["p2_used"], final["p2_fresh"], cfgs), lines[-1]))
        stats["iso_finalize_runs"] += final["iso_runs"]
        stats["iso_with_nonexistent_virtual_id"] += final["iso_ghost"]
        stats["iso_finalize_refused"] += final["iso_refused"]
        stats["iso_with_rex_request_32"] += final["iso_rex32"]
        stats["iso_rex_request_32_refused_in_finalize"] += final["iso_rex32_refused"]
        stats["iso_rex_request_32_dropped"] += final["iso_rex32_dropped"]
        if cfg.get("settings") and mode == 32 and final["iso_rex32"] == 0 and n >= 400:
            raise common.HarnessError("no x86-32 REX request reached an isolated finalize() in a %s job with settings events" % emitter)
        for iv in final["iso_viol"]:
            cl = lines[iv["case"]]
            viol.append(("deferred:%s:%s%s" % (iv["problem"], emitter, ":handler-on-emitter" if own and iv["problem"].startswith("finalize-") else ""), "%s recorded an instruction with a virtual-range register id / a REX request in 32-bit mode%s; alone in a fresh emitter finalize() returned %d and called the handler %d times (%s): %s"
                         % (emitter, " that names no virtual register" if iv["ghost"] else "", iv["fin"], iv["h"], handler, cl), cl))
    stats["settings_events"] += final["settings_events"]
    stats["settings_bursts"] += final["settings_bursts"]
    if cfg.get("settings") and mode == 32 and emitter == "asm" and n >= 400 and not viol:
        got = sum(v for k, v in stats.items() if k.startswith("rex32_after_settings_events:asm:"))
        if final["settings_events"] == 0 or got == 0 or not stats["rex32_after_settings_events:asm:reg"] or not stats["rex32_after_settings_events:asm:mem"]:
            raise common.HarnessError("x86-32 job with settings events: %d events, REX requests after them: %s" % (final["settings_events"], {k: v for k, v in stats.items() if k.startswith("rex32")}))
    stats["reattaches"] += final["reattaches"]
    stats["detached_calls"] += final["detached_calls"]
    for dv in final["detached_viol"]:
        kind, what = dv.split("|", 1)
        viol.append(("detached:%s:%s" % (kind, emitter), "%s (%s)" % (what, " ".join(extra[2:10])), lines[-1]))
    return dict(viol=viol[:3000], stats=dict(stats), n=len(cases), distinct=[str(d) for d in distinct], samples=samples)


def run(tier, args):
    chk = common.Check("C14", tier)
    exe = build.build_driver("drv_reject", "asan")
    api_exe = build.build_driver("drv_api14", "asan")
    isadb.x86_forms()
    per = int((4000 if tier == "quick" else 60000) * args.scale)
    jobs = []
    s = 0
    # handler placement and attachment history are spread over the repetitions of every (emitter, handler, mode) cell:
    #   rep % 3 == 0: handler on the CodeHolder, one attachment;  1: handler on the EMITTER, re-attached every 500 calls;
    #   2: handler on the CodeHolder, re-attached every 700 calls
    for emitter, handlers in (("asm", ["return", "throw", "none"]), ("builder", ["return", "throw"]), ("compiler", ["return", "throw"])):
        for handler in handlers:
            for mode in (64, 32):
                reps = (6 if emitter == "asm" else 3 if emitter == "builder" else 2) if tier == "quick" else (16 if emitter == "asm" else 6)
                for r in range(reps):
                    k = r % 3 if emitter != "compiler" else (r + (mode == 32) + (handler == "throw")) % 3
                    cfg = dict(own=(k == 1 and handler != "none"), reattach=(max(40, int(500 * args.scale)) if k == 1 else max(40, int(700 * args.scale)) if k == 2 else 0), validate=True, iso=(400 if tier == "quick" else 3000),
                               settings=(max(10, int(120 * args.scale)) if r % 2 == 1 else 0))      # settings events after attach and inside the stream: every second repetition
                    jobs.append((s, chk.seed, per, exe, emitter, handler, mode, cfg))
                    s += 1
    # the Assembler without strict validation (what most users run): operand kinds kept, everything else arbitrary; same failure oracles
    for handler in ("return", "throw"):
        for mode in (64, 32):
            for r in range(2 if tier == "quick" else 6):
                cfg = dict(own=(r % 2 == 1), reattach=(max(40, int(900 * args.scale)) if r % 2 else 0), validate=False, settings=(max(10, int(120 * args.scale)) if r % 2 == 1 else 0))
                jobs.append((s, chk.seed, per, exe, "asm", handler, mode, cfg))
                s += 1
    import time
    t0 = time.time()
    with multiprocessing.Pool(16) as pool:
        outs = pool.map(worker, jobs, chunksize=1)
    phase = {"x86_emit_jobs_s": round(time.time() - t0, 1)}
    stats = collections.Counter()
    byk = collections.OrderedDict()
    distinct = set()
    samples = []
    n = 0
    for o in outs:
        stats.update(o["stats"])
        n += o["n"]
        distinct.update(o["distinct"])
        samples += o["samples"][:1]
        for key, what, line in o["viol"]:
            byk.setdefault(key, []).append((what, line))
    # API misuse scripts (Assembler) and label/section ARGUMENT probes (Assembler, Builder, Compiler with twins)
    api_n = 0
    label_n = 0
    route_n = 0
    api_jobs = []
    for mode in ("x64", "x86", "a64"):
        for rep in range(4 if tier == "quick" else 40):
            sd = str(chk.seed * 1000 + rep)
            api_jobs.append((mode, [api_exe, "--arch", mode, "--seed", sd, "--ops", str(int((3000 if tier == "quick" else 20000) * args.scale))]))
            api_jobs.append((mode, [api_exe, "--arch", mode, "--seed", sd, "--ops", "0", "--label-steps", "90",
                                    "--label-scenarios", str(max(3, int((1500 if tier == "quick" else 6000) * args.scale)))]))
            # error-handler routing over attachment histories
            api_jobs.append((mode, [api_exe, "--arch", mode, "--seed", sd, "--ops", "0", "--route-steps", "60",
                                    "--route-scenarios", str(max(6, int((400 if tier == "quick" else 3000) * args.scale)))]))
        # (a detached Assembler asked to embed_data_array: crashes end the process, so it has its own small job)
        api_jobs.append((mode, [api_exe, "--arch", mode, "--seed", str(chk.seed), "--ops", "0", "--route-steps", "40", "--route-danger", "1",
                                "--route-scenarios", str(max(6, int(60 * args.scale)))]))
    t0 = time.time()
    api_outs = common.parallel_map(lambda j: common.run_child(j[1], timeout=900), api_jobs)
    phase["api_jobs_s"] = round(time.time() - t0, 1)
    for (mode, argv), (rc, out, err) in zip(api_jobs, api_outs):
        case = " ".join(argv[1:])
        rp = common.sanitizer_report(err)
        if rc != 0 or rp:
            top = "?"
            if rp:
                top = next((fr for fr in rp["frames"] if "asmjit" in fr), "?").split("(")[0].split(" /")[0][:90]
            byk.setdefault("api:sanitizer:%s:%s" % ((rp or {"kind": "crash rc=%d" % rc})["kind"].split(" on ")[0].split(" @")[0][:60], top), []).append(
                ("API misuse script crashed (%s): %s" % (case, rp), case))
            continue
        res = json.loads(out.decode().strip().splitlines()[-1])
        api_n += res["ops"]
        for k, v in res["by_api"].items():
            stats["api_" + k] += v
        route_n += res["by_api"].get("route.probes", 0)
        label_n += res["by_api"].get("lbl.outcome.refused", 0) + res["by_api"].get("lbl.outcome.deferred", 0) + res["by_api"].get("lbl.outcome.accepted", 0) + \
            res["by_api"].get("lbl.deferred.finalize-runs", 0)
        for v in res["violations"]:
            byk.setdefault("api:" + v["key"], []).append((v["what"], case))
        for d in res["distinct"]:
            distinct.add("api:" + d)
    for key, lst in byk.items():
        chk.violation(key, lst[0][0] + (" [+%d more]" % (len(lst) - 1) if len(lst) > 1 else ""), {"cases": [l for _, l in lst[:20]]})
    # AArch64 half of the property: database forms with operand kinds kept and ids / lanes / shifts / immediates / offsets
    # perturbed out of range must be refused without residue (generator and driver shared with C02)
    from vlib.props import c02
    t0 = time.time()
    a64cnt = c02.judge_refusals(chk, tier, args.scale)
    phase["a64_refusal_sweep_s"] = round(time.time() - t0, 1)
    # every dimension of the workload must have been observed (otherwise the run says nothing about it)
    need = {
        "failing calls with a virtual-range register id on the Assembler": stats["virtual_range_id_refused:asm"],
        "failing calls with a virtual-range register id on the Builder": stats["virtual_range_id_refused:builder"],
        "virtual-range register ids recorded by the Compiler": stats["virtual_range_id_recorded_by_compiler"],
        "calls with a real virtual register (Compiler)": stats["calls_with_real_virtual_register"],
        "isolated finalize runs with a non-existent virtual id": stats["iso_with_nonexistent_virtual_id"],
        "calls with a register-home memory operand": stats["calls_with_reg_home_operand:asm"] + stats["calls_with_reg_home_operand:builder"] + stats["calls_with_reg_home_operand:compiler"],
        "failing calls without strict validation": stats["novalidate_failed"],
        "calls with the handler on the emitter": stats["calls_with_handler_on_emitter"],
        "re-attachments": stats["reattaches"],
        "calls on a detached emitter": stats["detached_calls"],
        "pass-2 programs compared (Builder/Compiler fed only failing lines)": stats["pass2_programs_compared"],
        "handler-routing probes": route_n,
        "failing label/section/align/embed calls with the one-shot state armed": stats["api_lbl.oneshot.armed-failing-calls"],
        "one-shot components judged after such calls (a successful call of the kind clears them)": stats["api_lbl.oneshot.components-judged"],
        "failing bind() with the one-shot state armed": stats["api_lbl.oneshot.armed.bind"],
        "failing misuse-script calls with the one-shot state armed": stats["api_script.oneshot.armed-failing-calls"],
        "settings events after attach": stats["settings_events"],
        "calls after settings events": stats["calls_after_settings_events"],
        "x86-32 REX requests refused by the Assembler after settings events": stats["rex32_refused_after_settings_events"],
        "x86-32 REX requests after settings events, each of rex/B/X/R/W": min(stats["rex32_after_settings_events_bit:" + b] for b in ("rex", "b", "x", "r", "w")),
        "x86-32 REX requests refused in an isolated Builder/Compiler finalize()": stats["iso_rex_request_32_refused_in_finalize"],
        "x86-32 REX requests as routing probes": stats["api_route.entry.inst.rex-in-32-bit-mode"],
        "argument-error calls on Builder/Compiler (align)": stats["api_lbl.kind.bad-alignment"] + stats["api_lbl.kind.undefined-mode"],
        "argument-error calls (embed size)": stats["api_lbl.kind.bad-size"],
        "argument-error calls (undefined data type)": stats["api_lbl.kind.undefined-type"],
        "argument-error calls (repeat overflow)": stats["api_lbl.kind.repeat-overflow"],
        "misuse-script failures under a throwing handler": stats["api_script.failures-with-throwing-handler"],
        "misuse scripts with the handler on the emitter": stats["api_script.runs-with-handler-on-emitter"],
    }
    missing = [k for k, v in need.items() if not v]
    if missing and not chk.violations and args.scale >= 0.1:
        raise common.HarnessError("dimensions that observed nothing: " + "; ".join(missing))
    chk.coverage.update({
        "a64_refusal_sweep": a64cnt,
        "round12_dimensions": need,
        "phase_wall_s": phase,
        "virtual_ids_and_reg_home": {k: v for k, v in stats.items() if k.startswith(("calls_with_virtual", "calls_with_real", "calls_with_reg_home", "virtual_range", "reg_home_refused", "iso_"))},
        "novalidate": {k: v for k, v in stats.items() if k.startswith("novalidate")},
        "settings_events": {k: v for k, v in stats.items() if k.startswith(("settings_", "rex32", "calls_after_settings", "iso_with_rex", "iso_rex"))},
        "attachment_histories": {"calls_with_handler_on_emitter": stats["calls_with_handler_on_emitter"], "reattaches": stats["reattaches"], "detached_calls": stats["detached_calls"],
                                 "route_probes": route_n, "route": {k[10:]: v for k, v in stats.items() if k.startswith("api_route.")}},
        "pass2": {k: v for k, v in stats.items() if k.startswith("pass2")},
        "evaluations": n + api_n + a64cnt.get("a64_unencodable_cases", 0) + stats["pass2_failing_lines_replayed"] + stats["iso_finalize_runs"],
        "distinct_nontrivial": len(distinct),
        "rule": "one evaluation = one public API call with generated (mostly invalid) input; distinct = failing calls by (emitter, error code, generator class, operand-kind signature) (the class also says: virtual-range id / register-home operand / handler on the emitter / no strict validation) plus distinct (API, outcome) pairs of the misuse scripts, distinct (emitter, entry point, kind of non-existent label or invalid argument, outcome) of the argument probes and distinct (emitter, handler placement and attachment state, entry point, error) of the routing probes; all counted cases are failing calls whose state deltas were checked",
        "samples": samples[:4],
        "emit_calls": n, "emit_failed": stats["failed"], "emit_succeeded": stats["succeeded"], "successes_judged_by_c01_oracles": stats["succeeded_judged"],
        "probe_programs_compared": stats["probes"], "builder_finalize_errors": stats["finalize_errors"],
        "api_script_calls": api_n, "label_argument_calls": label_n, "label_scenarios": stats["api_lbl.scenarios"], "label_twins_compared": stats["api_lbl.twins-compared"],
        "label_twin_finalize_failed": stats["api_lbl.twin-finalize-failed"], "api_calls_by_kind": {k[4:]: v for k, v in stats.items() if k.startswith("api_")},
        "jobs": len(jobs),
    })
    chk.assumptions += [
        "one-shot state after a failing NON-instruction call: demanded is what the code does on success - a component (inline comment / options / extra register) that a successful call of the same kind clears on a fresh emitter of the same type must be cleared by the failing call too; the reference masks are listed among the distinct cases (lbl:oneshot-reference:...)",
        "without strict validation only operand KINDS are kept fixed (register and address-register types included); successes there are not judged (the validator is what decides 'correct instruction'), failures and memory safety are",
        "a Compiler may record an instruction whose virtual-range register id names no virtual register (the id is resolved by the register allocator): then finalize() of a function holding only that instruction must fail and report exactly once; an existing virtual register used with another register type is only watched for undefined behaviour",
        "handler routing model: the emitter's own handler if one is set, else the handler of the CodeHolder it is attached to, else nobody (documented at BaseEmitter::error_handler())",
        "arbitrary operand KINDS on x86 only (AArch64 has no operand validator); AArch64: every database form with kinds kept and values perturbed out of range (the sweep shared with C02) plus the label/section/align/data API misuse scripts",
        "label ids created by the harness for the call (L:1) are not counted as residue; Builder/Compiler use kValidateIntermediate",
        "Builder/Compiler record embed_label / embed_label_delta / instructions / JumpAnnotation::add_label / invoke: a non-existent label id in such a node may be accepted at the call (exactly one node, handler silent) - then finalize() must fail and report exactly once; bind, embed_const_pool, label_node_of, section, new_named_label(parent) must refuse at the call on every emitter",
    ]
    return chk.finish()
