"""C13 - validation, encoder and ISA database agree on which instruction forms exist.

Runtime monitor over the public API (ASan build): every database form is instantiated in the modes the database
allows and in the mode it excludes; each case is (1) validated directly (InstAPI::validate), (2) emitted with
strict validation, (3) emitted without validation. Near-miss mutations of every form compare the validator's and the
encoder's verdicts. The vendored list of forms accepted by the pinned release catches forms that silently stop being
accepted. Name round trip over all instruction ids of x86, x64 and AArch64."""
import collections
import json
import multiprocessing
import os

from vlib import build, common, isadb, x86gen, xdec
from vlib.props import c01

G = x86gen
VENDOR = os.path.join(common.VERIF, "vendor", "implemented_x86.json")
OOM = 1  # Error::kOutOfMemory


def form_key(f):
    return "%s|%s|%s|%s" % (f["name"], f["arch"], f["opcodeString"], ",".join(o["data"] for o in f["operands"]))


SIZE_UP = {"gp8lo": "gp16", "gp16": "gp32", "gp32": "gp64", "xmm": "ymm", "ymm": "zmm", "mm": "xmm"}
SIZE_DOWN = {"gp16": "gp8lo", "gp32": "gp16", "gp64": "gp32", "ymm": "xmm", "zmm": "ymm", "xmm": "mm"}


def mutations(gen, form, mode, base_ops, rng):
    """near-miss mutations of an accepted base case"""
    out = []
    ops = list(base_ops)
    regs = [i for i, o in enumerate(ops) if o[0] == "R"]
    for i in regs:
        for table, tag in ((SIZE_UP, "size-up"), (SIZE_DOWN, "size-down")):
            t = table.get(ops[i][1])
            if t:
                m = list(ops)
                rid = ops[i][2] & (7 if t in ("mm", "gp8lo") or mode == 32 else 15)
                m[i] = ("R", t, rid)
                out.append((tag, m, 0, None))
    if len(ops) >= 2:
        m = list(ops)
        m[0], m[1] = m[1], m[0]
        out.append(("swap01", m, 0, None))
    if len(ops) >= 3:
        m = list(ops)
        m[1], m[2] = m[2], m[1]
        out.append(("swap12", m, 0, None))
    # reg <-> mem where the form has none
    for i, o in enumerate(form["operands"]):
        if i < len(ops) and ops[i][0] == "R" and not o["mem"] and o["reg"] not in G.FIXED_REGS:
            m = list(ops)
            m[i] = ("M", dict(size=0, base=("gp64" if mode == 64 else "gp32", 3), index=None, shift=0, disp=8, seg=0, bcst=0, addr="default"))
            out.append(("reg-to-mem", m, 0, None))
            break
    for i, o in enumerate(form["operands"]):
        if i < len(ops) and ops[i][0] == "M" and not o["reg"]:
            m = list(ops)
            m[i] = ("R", "gp64" if mode == 64 else "gp32", 1)
            out.append(("mem-to-reg", m, 0, None))
            break
    # illegal decorations / prefixes
    if not form.get("kmask"):
        out.append(("k-illegal", list(ops), 0, ("k", 1)))
    if not form.get("zmask"):
        out.append(("z-illegal", list(ops), G.OPT_ZMASK, ("k", 2) if form.get("kmask") else None))
    if not form.get("er"):
        out.append(("er-illegal", list(ops), G.OPT_ER | G.OPT_RU, None))
    if not form.get("sae"):
        out.append(("sae-illegal", list(ops), G.OPT_SAE, None))
    pf = form.get("prefixes") or {}
    if not pf.get("lock") and not pf.get("ilock"):
        out.append(("lock-illegal", list(ops), G.OPT_LOCK, None))
    if not pf.get("rep"):
        out.append(("rep-illegal", list(ops), G.OPT_REP, None))
    if not pf.get("repne"):
        out.append(("repne-illegal", list(ops), G.OPT_REPNE, None))
    if mode == 32:
        for i in regs:
            if ops[i][1] in ("gp16", "gp32", "xmm", "ymm", "zmm"):
                m = list(ops)
                m[i] = ("R", ops[i][1], 8 + (ops[i][2] & 7))
                out.append(("reg8-15-in-32bit", m, 0, None))
                break
        for i in regs:
            if ops[i][1] == "gp32":
                m = list(ops)
                m[i] = ("R", "gp64", ops[i][2] & 7)
                out.append(("gp64-in-32bit", m, 0, None))
                break
    # drop / add an operand
    if ops:
        out.append(("drop-last", list(ops[:-1]), 0, None))
    if len(ops) < 6:
        out.append(("extra-operand", list(ops) + [("I", 1)], 0, None))
    return out


def kind_tuple(form):
    return tuple(o["data"] for o in form["operands"])


def worker(arg):
    shard, nshards, seed, nmut, exe = arg
    forms = isadb.x86_forms()
    by_name = collections.defaultdict(list)
    for f in forms:
        by_name[f["name"]].append(f)
    rng = common.Rng(seed).fork("c13-%d" % shard)
    gen = G.Gen(rng)
    cases = []
    meta = []  # (kind, form index, mode, tag)
    for fi, f in enumerate(forms):
        if fi % nshards != shard:
            continue
        allowed = G.modes_of(f)
        for mode in (32, 64):
            for want_mem in (False, True):
                if want_mem and not any(o["reg"] and o["mem"] for o in f["operands"]):
                    continue
                gen.canonical = True
                ops = gen.instantiate(f, mode, want_mem)
                gen.canonical = False
                if ops is None:
                    continue
                if mode in allowed:
                    c = gen.new_case(f, mode, ops, "form")
                    cases.append(c)
                    meta.append(("form", fi, mode, "mem" if want_mem else "reg"))
                    # the decorations the database gives the form are part of what "implemented" means
                    deco = []
                    unimplemented_ext = bool(set(f.get("ext") or {}) & {"AVX10_2", "APX_F"})   # this release only encodes their VEX siblings
                    if f.get("kmask") and not unimplemented_ext:
                        deco.append(("k", 0, ("k", 1 + (fi % 7))))
                        if f.get("zmask"):
                            deco.append(("kz", G.OPT_ZMASK, ("k", 1 + (fi % 7))))
                    # {er}/{sae} exist for the 512-bit member of an xyz group and for scalar (LIG) forms only; the database
                    # dump flags all three members of a group
                    er_applies = (f.get("opcode") or {}).get("l", "").upper() in ("LIG", "512") or any(o.get("reg") == "zmm" for o in f["operands"])
                    if not want_mem and not any(op[0] == "M" for op in ops) and not unimplemented_ext and er_applies:
                        if f.get("er"):
                            deco.append(("er", G.OPT_ER | [G.OPT_RN, G.OPT_RD, G.OPT_RU, G.OPT_RZ][fi % 4], None))
                        if f.get("sae"):
                            deco.append(("sae", G.OPT_SAE, None))
                    if want_mem and f.get("broadcast") and not unimplemented_ext:
                        for oi, o in enumerate(f["operands"]):
                            if o["mem"] and (o.get("bcstSize") or -1) > 0 and ops[oi][0] == "M":
                                nb = {2: 1, 4: 2, 8: 3, 16: 4, 32: 5, 64: 6}.get(o["memSize"] // o["bcstSize"])
                                if nb:
                                    bops = list(ops)
                                    bm = dict(ops[oi][1])
                                    bm["bcst"] = nb
                                    bm["size"] = o["bcstSize"] // 8
                                    bops[oi] = ("M", bm)
                                    cases.append(gen.new_case(f, mode, bops, "form-bcst"))
                                    meta.append(("form", fi, mode, "bcst"))
                    for tag, opts, extra in deco:
                        cases.append(gen.new_case(f, mode, list(ops), "form-" + tag, opts, extra))
                        meta.append(("form", fi, mode, ("mem-" if want_mem else "reg-") + tag))
                    if not want_mem:
                        muts = mutations(gen, f, mode, ops, rng)
                        if nmut and len(muts) > nmut:
                            rng.shuffle(muts)
                            muts = muts[:nmut]
                        for tag, mops, opts, extra in muts:
                            cases.append(gen.new_case(f, mode, mops, tag, opts, extra))
                            meta.append(("mut", fi, mode, tag))
                else:
                    # excluded mode: only judged when this operand-kind tuple exists in no record valid for that mode
                    c = gen.new_case(f, mode, ops, "excluded-mode")
                    if xdec.candidates(c, by_name, mode):
                        continue  # the same operands are a legal form of this mnemonic in that mode
                    # registers that do not exist in the mode make the refusal trivial but still required
                    cases.append(c)
                    meta.append(("excluded", fi, mode, "excluded"))
    lines = [G.case_line(c) for c in cases]
    runs = {}
    # "shared": the same cases through ONE assembler object that is detached and re-attached whenever the mode changes
    for label, extra in (("on", ["--validate", "1", "--api-validate", "1"]), ("off", ["--validate", "0"]),
                         ("shared", ["--validate", "1", "--shared-emitter", "1"])):
        rc, out, err = c01._emit(exe, lines, extra)
        rep = common.sanitizer_report(err)
        if rc != 0 or rep:
            return dict(crash=dict(rc=rc, rep=rep, label=label), viol=[], stats={}, n=len(cases), accepted=[], distinct=[], samples=[])
        runs[label] = [json.loads(l) for l in out.decode().splitlines()]
        if len(runs[label]) != len(cases):
            raise common.HarnessError("driver record count mismatch")
    viol = []
    stats = collections.Counter()
    accepted = []
    distinct = set()
    samples = []
    for c, (kind, fi, mode, tag), on, off, sh in zip(cases, meta, runs["on"], runs["off"], runs["shared"]):
        line = G.case_line(c)
        f = forms[fi]
        v, e_on, e_off = on["v"], on["err"], off["err"]
        if sh["err"] != e_on or sh["bytes"] != on["bytes"]:
            viol.append(("validation-depends-on-emitter-history:%d-bit" % mode,
                         "an assembler that was attached to the other mode before gives error %d / bytes %s, a dedicated %d-bit assembler error %d / bytes %s: %s" %
                         (sh["err"], sh["bytes"], mode, e_on, on["bytes"], line), line))
        if on.get("iid", 1) == 0:
            stats["name_unknown_to_asmjit"] += 1
            continue  # mnemonic not implemented by this release: not one of "the forms AsmJit implements"
        stats[kind] += 1
        distinct.add((kind, fi if kind != "mut" else (fi, tag), mode))
        if e_on == 0 and v != 0:
            viol.append(("validator-rejects-but-validating-assembler-accepts:%s" % f["name"], "InstAPI::validate=%d but emit with strict validation succeeded: %s" % (v, line), line))
        if v == 0 and e_on not in (0, OOM):
            viol.append(("validator-admits-encoder-refuses:%s:%s" % (f["name"], tag if kind == "mut" else kind),
                         "InstAPI::validate accepts but the assembler (validation on) fails with error %d: %s" % (e_on, line), line))
        if e_on == 0 and e_off == 0 and on["bytes"] != off["bytes"]:
            viol.append(("validation-changes-bytes:%s" % f["name"], "bytes differ with validation on (%s) and off (%s): %s" % (on["bytes"], off["bytes"], line), line))
        if e_on == 0 and e_off != 0:
            viol.append(("validation-enables-encoding:%s" % f["name"], "emit fails (%d) without validation but succeeds with it: %s" % (e_off, line), line))
        if kind == "form":
            if e_on == 0:
                accepted.append((form_key(f) + ("" if tag in ("reg", "mem") else "|+" + tag.split("-")[-1]), mode, tag))
                stats["form_accepted"] += 1
                if e_off != 0:
                    pass
            if len(samples) < 3 and e_on == 0:
                samples.append({"case": line, "validate": v, "emit_validated": on["bytes"], "emit_unvalidated": off["bytes"]})
        elif kind == "excluded":
            if v == 0 or e_on == 0:
                viol.append(("excluded-mode-accepted:%s" % f["name"], "form %s (%s only) passes validation in %d-bit mode: %s" % (f["opcodeString"], f["arch"], mode, line), line))
            else:
                stats["excluded_refused"] += 1
        else:
            stats["mut_" + ("accepted" if e_on == 0 else "refused")] += 1
    return dict(viol=viol, stats=dict(stats), n=len(cases), accepted=accepted, distinct=[str(d) for d in distinct], samples=samples)


VENDOR_A64 = os.path.join(os.path.dirname(VENDOR), "implemented_a64.json")


def a64_accepted():
    from vlib import a64gen
    from vlib.props import c02
    exe = build.build_driver("drv_emit_a64", "asan")
    recs = isadb.a64_forms()
    rc, out, err = common.run_child([exe, "--names", "1"], timeout=300)
    known = set()
    for ln in out.decode().splitlines():
        p = ln.split()
        if p and int(p[-1].split("=")[1]) in [int(x) for x in p[1:-1]]:
            known.add(p[0])
    cases, _ = a64gen.generate(recs, 20260927, "quick", known, nrandom=0)
    cases = [c for c in cases if c["status"] == "ok"]
    d = os.path.join(build.CACHE, "tmp")
    os.makedirs(d, exist_ok=True)
    path = os.path.join(d, "c13-a64-%d.txt" % os.getpid())
    try:
        with open(path, "w") as fh:
            for i, c in enumerate(cases):
                fh.write("%d %s\n" % (i, c["line"]))
        rc, out, err = common.run_child([exe, "--cases", path], timeout=1800)
    finally:
        if os.path.exists(path):
            os.unlink(path)
    if common.sanitizer_report(err):
        raise common.HarnessError("sanitizer report in the AArch64 acceptance sweep (C02 reports it): %s" % err[-300:])
    lines = out.decode().splitlines()
    if len(lines) != len(cases):
        raise common.HarnessError("drv_emit_a64 returned %d records for %d cases" % (len(lines), len(cases)))
    acc, errors, text = set(), {}, {}
    for c, ln in zip(cases, lines):
        r = json.loads(ln)
        k = "%s|%s" % (c02.rec_id(recs[c["rec"]]), c["vclass"])
        if r["err"] == 0 and r["bytes"]:
            acc.add(k)
        else:
            errors[k] = r["err"]
            text[k] = c["line"]
    return {"accepted": acc, "errors": errors, "lines": text, "tried": len(cases)}


def run(tier, args):
    chk = common.Check("C13", tier)
    exe = build.build_driver("drv_emit", "asan")
    isadb.x86_forms()
    nshards = 16 if tier == "quick" else 48
    nmut = 6 if tier == "quick" else 0
    jobs = [(s, nshards, chk.seed, nmut, exe) for s in range(nshards)]
    with multiprocessing.Pool(16) as pool:
        outs = pool.map(worker, jobs, chunksize=1)
    stats = collections.Counter()
    byk = collections.OrderedDict()
    accepted = set()
    distinct = set()
    samples = []
    n = 0
    for o in outs:
        if o.get("crash"):
            chk.violation("sanitizer-or-crash:%s" % ((o["crash"]["rep"] or {}).get("kind", "rc=%s" % o["crash"]["rc"]))[:80], "driver crashed: %s" % o["crash"], o["crash"])
            continue
        stats.update(o["stats"])
        n += o["n"]
        distinct.update(o["distinct"])
        samples += o["samples"][:1]
        accepted.update((k, m) for k, m, t in o["accepted"])
        for key, what, line in o["viol"]:
            byk.setdefault(key, []).append((what, line))
    # vendored list: forms accepted by the pinned release must still be accepted
    if os.environ.get("VERIF_C13_WRITE_VENDOR"):
        os.makedirs(os.path.dirname(VENDOR), exist_ok=True)
        json.dump(sorted([list(x) for x in accepted]), open(VENDOR, "w"), indent=0)
    vend = set(tuple(x) for x in json.load(open(VENDOR))) if os.path.exists(VENDOR) else None
    if vend is None:
        raise common.HarnessError("vendored implemented-form list missing: " + VENDOR)
    lost = sorted(vend - accepted)
    new = sorted(accepted - vend)
    for k, m in lost[:200]:
        byk.setdefault("implemented-form-no-longer-accepted:%s" % k.split("|")[0], []).append(("database form %s accepted by the pinned release in %d-bit mode is now rejected" % (k, m), k))
    for key, lst in byk.items():
        chk.violation(key, lst[0][0] + (" [+%d more]" % (len(lst) - 1) if len(lst) > 1 else ""), {"cases": [l for _, l in lst[:20]]})
    # name round trip
    rc, out, err = common.run_child([exe, "--names", "1"], timeout=600)
    if rc != 0:
        raise common.HarnessError("names driver failed: %s" % err[-300:])
    names = 0
    recs = [json.loads(ln) for ln in out.decode().splitlines()]
    canon = {(r["arch"], r["id"]): r["name"] for r in recs if r["alias"] == 0 and r["err"] == 0 and r["name"]}
    for r in recs:
        if r["err"] != 0 or not r["name"]:
            continue  # id without a name (holes in the id space are not instructions)
        if r["alias"] == 0:
            names += 1
            if r["back"] == 0 or r["back_name"] != r["name"]:
                chk.violation("name-round-trip:%s:%s" % (r["arch"], r["name"]), "id %d -> '%s' -> id %d ('%s')" % (r["id"], r["name"], r["back"], r["back_name"]), r)
            elif r["arch"] != "a64" and r["back"] != r["id"]:
                chk.violation("name-round-trip-other-id:%s:%s" % (r["arch"], r["name"]), "id %d -> '%s' -> id %d" % (r["id"], r["name"], r["back"]), r)
    # alias spellings (x86 'cmov.b|nae|c' display form): every spelling must resolve to the id that prints it
    alias_lines = ["%s %d %s" % (r["arch"], r["id"], r["name"]) for r in recs if r["alias"] == 1 and r["err"] == 0 and ("|" in r["name"] or "." in r["name"])]
    spellings = []
    for r in recs:
        if r["alias"] == 1 and r["err"] == 0 and "." in r["name"] and r["arch"] != "a64":
            stem, alts = r["name"].split(".", 1)
            for a in alts.split("|"):
                spellings.append((r["arch"], r["id"], stem + a))
    if spellings:
        lines = ["%d %s %s 0 - 0" % (i, a, sp) for i, (a, _, sp) in enumerate(spellings)]
        rc2, out2, err2 = c01._emit(exe, lines, ["--validate", "1", "--api-validate", "1"])
        if rc2 != 0:
            raise common.HarnessError("alias lookup run failed")
        for (a, iid, sp), ln in zip(spellings, out2.decode().splitlines()):
            got = json.loads(ln).get("iid", 0)
            names += 1
            if got != iid:
                chk.violation("alias-spelling:%s:%s" % (a, sp), "alias spelling '%s' of id %d (%s) resolves to id %d" % (sp, iid, canon.get((a, iid)), got), [a, iid, sp, got])
    # AArch64 (no operand validator): the database forms the pinned release encodes must still be encoded. Fixed generator
    # seed, so that the vendored list is independent of VERIF_SEED; every valid ('ok') variant of every record counts.
    a64 = a64_accepted()
    if os.environ.get("VERIF_C13_WRITE_VENDOR"):
        json.dump(sorted(a64["accepted"]), open(VENDOR_A64, "w"), indent=0)
    if not os.path.exists(VENDOR_A64):
        raise common.HarnessError("vendored implemented-form list missing: " + VENDOR_A64)
    vend64 = set(json.load(open(VENDOR_A64)))
    lost64 = sorted(vend64 - a64["accepted"])
    by_rec = collections.OrderedDict()
    for k in lost64:
        by_rec.setdefault(k.split("|")[0], []).append(k)
    for rid, ks in list(by_rec.items())[:200]:
        chk.violation("a64-implemented-form-no-longer-accepted:%s" % rid.split(":")[0],
                      "AArch64 database form %s (variant %s) accepted by the pinned release is now refused (error %s): %s [+%d more variants]" %
                      (rid, ks[0].split("|", 1)[1], a64["errors"].get(ks[0], "?"), a64["lines"].get(ks[0], "?"), len(ks) - 1), {"a64": ks[:10]})
    # typed emitter methods must emit the instruction they are named after
    from vlib import typedemit
    typed = typedemit.check(chk)
    chk.coverage.update({
        "typed_emitter_methods": typed,
        "a64_implemented_variants_vendored": len(vend64), "a64_implemented_variants_now": len(a64["accepted"]), "a64_valid_variants_tried": a64["tried"],
        "evaluations": n,
        "distinct_nontrivial": len(distinct),
        "rule": "one evaluation = one case validated directly and emitted with and without strict validation; distinct = (database form, mode) for form/excluded-mode cases and (database form, mutation kind, mode) for near-miss mutations; all are non-trivial (each compares three verdicts)",
        "samples": samples[:5],
        "by_kind": {k: v for k, v in stats.items()},
        "implemented_forms_vendored": len(vend), "implemented_forms_now": len(accepted),
        "newly_accepted_forms": len(new), "newly_accepted_sample": [list(x) for x in new[:5]],
        "names_round_tripped": names,
    })
    chk.assumptions += [
        "'implemented' = accepted by the pinned release (vendor/implemented_x86.json, generated from this tree); AArch64 has no operand validator, so only its name round trip is judged here (encodings: C02)",
        "excluded mode is judged only for operand-kind tuples of a mnemonic that occur in no record valid for that mode",
    ]
    return chk.finish()
