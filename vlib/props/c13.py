"""C13 - validation, encoder and ISA database agree on which instruction forms exist.

Runtime monitor over the public API (ASan build): every database form is instantiated in the modes the database
allows and in the mode it excludes; each case is (1) validated directly (InstAPI::validate), (2) emitted with
strict validation, (3) emitted without validation. Near-miss mutations of every form compare the validator's and the
encoder's verdicts. The vendored list of forms accepted by the pinned release catches forms that silently stop being
accepted. Name round trip over all instruction ids of x86, x64 and AArch64.

Round 11: (a) the whole C01 operand sweep (extended registers, every addressing form, segments, boundary immediates, masks,
options, implicit operands omitted) is emitted with validation on and off: a case that only validation refuses although the
bytes produced without it satisfy the database rule is `validation-refuses-encodable`; (b) the vendored key carries the
instantiation (reg / mem / reg-k / ... / impl / +lock / +xacquire / +xrelease / +rep / +repne), so losing only the memory
alternative, the implicit-omitted shape or a prefix capability is noticed; (c) memory-instantiation mutations (size one
class off, illegal / wrong broadcast, immediate past the field, segment 7); (d) the same cases appended to a Builder and to a
Compiler (virtual registers) with kValidateIntermediate must get the validator's verdict."""
import collections
import json
import multiprocessing
import os

from vlib import build, common, isadb, x86gen, xdec
from vlib.props import c01

G = x86gen
VENDOR = os.path.join(common.VERIF, "vendor", "implemented_x86.json")
OOM = 1  # Error::kOutOfMemory


def form_key(f):
    return "%s|%s|%s|%s" % (f["name"], f["arch"], f["opcodeString"], ",".join(o["data"] for o in f["operands"]))


SIZE_UP = {"gp8lo": "gp16", "gp16": "gp32", "gp32": "gp64", "xmm": "ymm", "ymm": "zmm", "mm": "xmm"}
SIZE_DOWN = {"gp16": "gp8lo", "gp32": "gp16", "gp64": "gp32", "ymm": "xmm", "zmm": "ymm", "xmm": "mm"}


def mutations(gen, form, mode, base_ops, rng):
    """near-miss mutations of an accepted base case"""
    out = []
    ops = list(base_ops)
    regs = [i for i, o in enumerate(ops) if o[0] == "R"]
    for i in regs:
        for table, tag in ((SIZE_UP, "size-up"), (SIZE_DOWN, "size-down")):
            t = table.get(ops[i][1])
            if t:
                m = list(ops)
                rid = ops[i][2] & (7 if t in ("mm", "gp8lo") or mode == 32 else 15)
                m[i] = ("R", t, rid)
                out.append((tag, m, 0, None))
    if len(ops) >= 2:
        m = list(ops)
        m[0], m[1] = m[1], m[0]
        out.append(("swap01", m, 0, None))
    if len(ops) >= 3:
        m = list(ops)
        m[1], m[2] = m[2], m[1]
        out.append(("swap12", m, 0, None))
    # reg <-> mem where the form has none
    for i, o in enumerate(form["operands"]):
        if i < len(ops) and ops[i][0] == "R" and not o["mem"] and o["reg"] not in G.FIXED_REGS:
            m = list(ops)
            m[i] = ("M", dict(size=0, base=("gp64" if mode == 64 else "gp32", 3), index=None, shift=0, disp=8, seg=0, bcst=0, addr="default"))
            out.append(("reg-to-mem", m, 0, None))
            break
    for i, o in enumerate(form["operands"]):
        if i < len(ops) and ops[i][0] == "M" and not o["reg"]:
            m = list(ops)
            m[i] = ("R", "gp64" if mode == 64 else "gp32", 1)
            out.append(("mem-to-reg", m, 0, None))
            break
    # illegal decorations / prefixes
    if not form.get("kmask"):
        out.append(("k-illegal", list(ops), 0, ("k", 1)))
    if not form.get("zmask"):
        out.append(("z-illegal", list(ops), G.OPT_ZMASK, ("k", 2) if form.get("kmask") else None))
    if not form.get("er"):
        out.append(("er-illegal", list(ops), G.OPT_ER | G.OPT_RU, None))
    if not form.get("sae"):
        out.append(("sae-illegal", list(ops), G.OPT_SAE, None))
    pf = form.get("prefixes") or {}
    if not pf.get("lock") and not pf.get("ilock"):
        out.append(("lock-illegal", list(ops), G.OPT_LOCK, None))
    if not pf.get("rep"):
        out.append(("rep-illegal", list(ops), G.OPT_REP, None))
    if not pf.get("repne"):
        out.append(("repne-illegal", list(ops), G.OPT_REPNE, None))
    if mode == 32:
        for i in regs:
            if ops[i][1] in ("gp16", "gp32", "xmm", "ymm", "zmm"):
                m = list(ops)
                m[i] = ("R", ops[i][1], 8 + (ops[i][2] & 7))
                out.append(("reg8-15-in-32bit", m, 0, None))
                break
        for i in regs:
            if ops[i][1] == "gp32":
                m = list(ops)
                m[i] = ("R", "gp64", ops[i][2] & 7)
                out.append(("gp64-in-32bit", m, 0, None))
                break
    # drop / add an operand
    if ops:
        out.append(("drop-last", list(ops[:-1]), 0, None))
    if len(ops) < 6:
        out.append(("extra-operand", list(ops) + [("I", 1)], 0, None))
    return out


MEM_LADDER = [1, 2, 4, 8, 16, 32, 64]
MEM_MUT_TAGS = ("mem-size-up", "mem-size-down", "bcst-illegal", "bcst-wrong-n", "imm-oob", "seg7")
UNIMPLEMENTED_EXT = {"AVX10_2", "APX_F"}   # this release encodes only the VEX siblings of their EVEX forms


def matched_form(c, by_name, raw, mode):
    """the database form whose encoding rule the bytes satisfy (xdec.check said ok), or None"""
    for f, opmap in xdec.candidates(c, by_name, mode):
        try:
            xdec.match_form(c, f, opmap, raw, mode)
            return f
        except (xdec.Mismatch, KeyError, ValueError, IndexError, TypeError):
            continue
    return None


def mem_mutations(form, mode, base_ops):
    """near-miss mutations of the memory instantiation: memory operand one size class off, broadcast where the form has none
    or with the wrong factor, immediate one past its field, segment id 7"""
    out = []
    ops = list(base_ops)
    for i, o in enumerate(form["operands"]):
        if i >= len(ops):
            break
        if ops[i][0] == "M":
            m = ops[i][1]
            if m["size"] in MEM_LADDER:
                k = MEM_LADDER.index(m["size"])
                for d, tag in ((1, "mem-size-up"), (-1, "mem-size-down")):
                    if 0 <= k + d < len(MEM_LADDER):
                        mm = list(ops)
                        mm[i] = ("M", dict(m, size=MEM_LADDER[k + d]))
                        out.append((tag, mm, 0, None))
            if (o.get("bcstSize") or -1) > 0 and form.get("broadcast"):
                nb = {2: 1, 4: 2, 8: 3, 16: 4, 32: 5, 64: 6}.get(o["memSize"] // o["bcstSize"])
                if nb:
                    mm = list(ops)
                    mm[i] = ("M", dict(m, bcst=nb + 1 if nb < 6 else nb - 1, size=o["bcstSize"] // 8))
                    out.append(("bcst-wrong-n", mm, 0, None))
            else:
                mm = list(ops)
                mm[i] = ("M", dict(m, bcst=2, size=4))
                out.append(("bcst-illegal", mm, 0, None))
            mm = list(ops)
            mm[i] = ("M", dict(m, seg=7))
            out.append(("seg7", mm, 0, None))
        elif ops[i][0] == "I" and o["imm"] and o["imm"] < 64 and o["data"] != "1":
            mm = list(ops)
            mm[i] = ("I", 1 << o["imm"])
            out.append(("imm-oob", mm, 0, None))
    return out


# C01 variants whose operands are valid by construction (everything else is generated to be refused, or to probe leniency)
IMPLICIT_ADDRESS = ("monitor", "monitorx", "umonitor", "clzero", "invlpga", "invlpgb", "vmload", "vmsave", "vmrun", "maskmovq", "maskmovdqu",
                    "vmaskmovdqu", "xlatb")


def valid_by_construction(variant, case=None):
    v = variant
    if case is not None and v == "rex" and any(op[0] == "R" and op[1] == "gp8hi" for op in case["ops"]):
        return False   # AH..BH cannot be addressed under a REX prefix: forcing one contradicts the operand
    if v.endswith(("-illegal", "-oob")) or v in ("bcst-wrong", "z-without-k", "mem-nosize"):
        return False
    if v.startswith("mem-asz-") and v[8:] in ("b32i64", "b64i32", "b16i32", "b32i16", "b16v"):
        return False
    return True


def kind_tuple(form):
    return tuple(o["data"] for o in form["operands"])


def worker(arg):
    shard, nshards, seed, nmut, exe, sweep_budget, scale = arg
    forms = isadb.x86_forms()
    by_name = collections.defaultdict(list)
    for f in forms:
        by_name[f["name"]].append(f)
    rng = common.Rng(seed).fork("c13-%d" % shard)
    gen = G.Gen(rng)
    cases = []
    meta = []  # (kind, form index, mode, tag)
    for fi, f in enumerate(forms):
        if fi % nshards != shard:
            continue
        allowed = G.modes_of(f)
        for mode in (32, 64):
            for want_mem in (False, True):
                if want_mem and not any(o["reg"] and o["mem"] for o in f["operands"]):
                    continue
                gen.canonical = True
                ops = gen.instantiate(f, mode, want_mem)
                gen.canonical = False
                if ops is None:
                    continue
                if mode in allowed:
                    c = gen.new_case(f, mode, ops, "form")
                    cases.append(c)
                    meta.append(("form", fi, mode, "mem" if want_mem else "reg"))
                    # the decorations the database gives the form are part of what "implemented" means
                    deco = []
                    unimplemented_ext = bool(set(f.get("ext") or {}) & {"AVX10_2", "APX_F"})   # this release only encodes their VEX siblings
                    if f.get("kmask") and not unimplemented_ext:
                        deco.append(("k", 0, ("k", 1 + (fi % 7))))
                        if f.get("zmask"):
                            deco.append(("kz", G.OPT_ZMASK, ("k", 1 + (fi % 7))))
                    # {er}/{sae} exist for the 512-bit member of an xyz group and for scalar (LIG) forms only; the database
                    # dump flags all three members of a group
                    er_applies = (f.get("opcode") or {}).get("l", "").upper() in ("LIG", "512") or any(o.get("reg") == "zmm" for o in f["operands"])
                    if not want_mem and not any(op[0] == "M" for op in ops) and not unimplemented_ext and er_applies:
                        if f.get("er"):
                            deco.append(("er", G.OPT_ER | [G.OPT_RN, G.OPT_RD, G.OPT_RU, G.OPT_RZ][fi % 4], None))
                        if f.get("sae"):
                            deco.append(("sae", G.OPT_SAE, None))
                    if want_mem and f.get("broadcast") and not unimplemented_ext:
                        for oi, o in enumerate(f["operands"]):
                            if o["mem"] and (o.get("bcstSize") or -1) > 0 and ops[oi][0] == "M":
                                nb = {2: 1, 4: 2, 8: 3, 16: 4, 32: 5, 64: 6}.get(o["memSize"] // o["bcstSize"])
                                if nb:
                                    bops = list(ops)
                                    bm = dict(ops[oi][1])
                                    bm["bcst"] = nb
                                    bm["size"] = o["bcstSize"] // 8
                                    bops[oi] = ("M", bm)
                                    cases.append(gen.new_case(f, mode, bops, "form-bcst"))
                                    meta.append(("form", fi, mode, "bcst"))
                    for tag, opts, extra in deco:
                        cases.append(gen.new_case(f, mode, list(ops), "form-" + tag, opts, extra))
                        meta.append(("form", fi, mode, ("mem-" if want_mem else "reg-") + tag))
                    # lock / xacquire / xrelease (memory destination) and rep / repne the database gives the form
                    pf = f.get("prefixes") or {}
                    has_mem = any(op[0] == "M" for op in ops)
                    if has_mem and (want_mem or not any(o["reg"] and o["mem"] for o in f["operands"])):
                        lock = pf.get("lock") or pf.get("ilock")
                        for name, bit in (("lock", G.OPT_LOCK), ("xacquire", G.OPT_XACQUIRE), ("xrelease", G.OPT_XRELEASE)):
                            if (lock if name == "lock" else pf.get(name)):
                                o2 = bit | (G.OPT_LOCK if name != "lock" and pf.get("lock") else 0)
                                cases.append(gen.new_case(f, mode, list(ops), "form-" + name, o2, None))
                                meta.append(("form", fi, mode, "+" + name))
                    if not want_mem:
                        for name, bit in (("rep", G.OPT_REP), ("repne", G.OPT_REPNE)):
                            if pf.get(name):
                                cases.append(gen.new_case(f, mode, list(ops), "form-" + name, bit, None))
                                meta.append(("form", fi, mode, "+" + name))
                    # the call shape of the typed API: implicit operands omitted
                    imp = f.get("implicit") or 0
                    # (forms of extensions this release does not implement are accepted only when the shortened operand list
                    # happens to be another, legacy form - e.g. APX `rcr r8,r8/m8,<1>` without the 1 is `rcr r8,cl` iff the
                    # random register is cl: not a stable fact about the form)
                    if imp and not unimplemented_ext:
                        kept = [op for i, op in enumerate(ops) if not (imp >> i) & 1]
                        cases.append(gen.new_case(f, mode, kept, "form-impl"))
                        meta.append(("form", fi, mode, "impl-mem" if want_mem else "impl"))
                    if want_mem or not any(o["reg"] and o["mem"] for o in f["operands"]):
                        for tag, mops, opts, extra in mem_mutations(f, mode, ops):
                            cases.append(gen.new_case(f, mode, mops, tag, opts, extra))
                            meta.append(("mut", fi, mode, tag))
                    if not want_mem:
                        muts = mutations(gen, f, mode, ops, rng)
                        if nmut and len(muts) > nmut:
                            rng.shuffle(muts)
                            muts = muts[:nmut]
                        for tag, mops, opts, extra in muts:
                            cases.append(gen.new_case(f, mode, mops, tag, opts, extra))
                            meta.append(("mut", fi, mode, tag))
                else:
                    # excluded mode: only judged when this operand-kind tuple exists in no record valid for that mode
                    c = gen.new_case(f, mode, ops, "excluded-mode")
                    if xdec.candidates(c, by_name, mode):
                        continue  # the same operands are a legal form of this mnemonic in that mode
                    # registers that do not exist in the mode make the refusal trivial but still required
                    cases.append(c)
                    meta.append(("excluded", fi, mode, "excluded"))
    lines = [G.case_line(c) for c in cases]
    runs = {}
    # "shared": the same cases through ONE assembler object that is detached and re-attached whenever the mode changes
    for label, extra in (("on", ["--validate", "1", "--api-validate", "1"]), ("off", ["--validate", "0"]),
                         ("shared", ["--validate", "1", "--shared-emitter", "1"]),
                         # the same cases appended to a Builder (physical registers) and to a Compiler (virtual registers) whose
                         # kValidateIntermediate hook calls the validator with the real operand count / kEnableVirtRegs
                         ("builder", ["--validate", "1", "--emitter", "builder"]), ("compiler", ["--validate", "1", "--emitter", "compiler"])):
        rc, out, err = c01._emit(exe, lines, extra)
        rep = common.sanitizer_report(err)
        if rc != 0 or rep:
            return dict(crash=dict(rc=rc, rep=rep, label=label), viol=[], stats={}, n=len(cases), accepted=[], distinct=[], samples=[])
        runs[label] = [json.loads(l) for l in out.decode().splitlines()]
        if len(runs[label]) != len(cases):
            raise common.HarnessError("driver record count mismatch")
    viol = []
    stats = collections.Counter()
    accepted = []
    distinct = set()
    samples = []
    for c, (kind, fi, mode, tag), on, off, sh, bld, cmp_ in zip(cases, meta, runs["on"], runs["off"], runs["shared"], runs["builder"], runs["compiler"]):
        line = G.case_line(c)
        f = forms[fi]
        v, e_on, e_off = on["v"], on["err"], off["err"]
        if on.get("iid", 1) != 0:
            stats["intermediate_builder_compared"] += 1
            if (bld["err"] == 0) != (v == 0) and bld["err"] != OOM:
                viol.append(("builder-validation-differs:%s:%s" % (f["name"], tag if kind == "mut" else kind),
                             "InstAPI::validate=%d but a Builder with kValidateIntermediate returns %d for the same instruction: %s" % (v, bld["err"], line), line))
            if kind == "form" and v == 0:
                stats["intermediate_compiler_virtual_registers_compared"] += 1
                if cmp_["err"] not in (0, OOM):
                    viol.append(("compiler-validation-refuses-form:%s:%s" % (f["name"], tag),
                                 "InstAPI::validate accepts the form but a Compiler with kValidateIntermediate refuses it (error %d) when its GP/vector/mask/MMX registers are virtual: %s" % (cmp_["err"], line), line))
        if sh["err"] != e_on or sh["bytes"] != on["bytes"]:
            viol.append(("validation-depends-on-emitter-history:%d-bit" % mode,
                         "an assembler that was attached to the other mode before gives error %d / bytes %s, a dedicated %d-bit assembler error %d / bytes %s: %s" %
                         (sh["err"], sh["bytes"], mode, e_on, on["bytes"], line), line))
        if on.get("iid", 1) == 0:
            stats["name_unknown_to_asmjit"] += 1
            continue  # mnemonic not implemented by this release: not one of "the forms AsmJit implements"
        stats[kind] += 1
        distinct.add((kind, fi if kind != "mut" else (fi, tag), mode))
        if e_on == 0 and v != 0:
            viol.append(("validator-rejects-but-validating-assembler-accepts:%s" % f["name"], "InstAPI::validate=%d but emit with strict validation succeeded: %s" % (v, line), line))
        if v == 0 and e_on not in (0, OOM) and kind == "mut" and tag in MEM_MUT_TAGS:
            viol.append(("validator-admits-encoder-refuses:mut-%s:%s" % (tag, f["name"]),
                         "InstAPI::validate accepts but the assembler (validation on) fails with error %d: %s" % (e_on, line), line))
        elif v == 0 and e_on not in (0, OOM):
            viol.append(("validator-admits-encoder-refuses:%s:%s" % (f["name"], tag if kind == "mut" else "form-impl" if tag.startswith("impl") else kind),
                         "InstAPI::validate accepts but the assembler (validation on) fails with error %d: %s" % (e_on, line), line))
        if e_on == 0 and e_off == 0 and on["bytes"] != off["bytes"]:
            viol.append(("validation-changes-bytes:%s" % f["name"], "bytes differ with validation on (%s) and off (%s): %s" % (on["bytes"], off["bytes"], line), line))
        if e_on == 0 and e_off != 0:
            viol.append(("validation-enables-encoding:%s" % f["name"], "emit fails (%d) without validation but succeeds with it: %s" % (e_off, line), line))
        if kind == "form":
            if e_on == 0:
                accepted.append((form_key(f) + "|" + tag, mode, tag))
                stats["form_accepted"] += 1
                if e_off != 0:
                    pass
            if len(samples) < 3 and e_on == 0:
                samples.append({"case": line, "validate": v, "emit_validated": on["bytes"], "emit_unvalidated": off["bytes"]})
        elif kind == "excluded":
            if v == 0 or e_on == 0:
                viol.append(("excluded-mode-accepted:%s" % f["name"], "form %s (%s only) passes validation in %d-bit mode: %s" % (f["opcodeString"], f["arch"], mode, line), line))
            else:
                stats["excluded_refused"] += 1
        else:
            stats["mut_" + ("accepted" if e_on == 0 else "refused")] += 1
            if tag in MEM_MUT_TAGS:
                stats["memmut_%s_%s" % (tag, "accepted" if e_on == 0 else "refused")] += 1
    # ---- the full operand sweep of C01 (extended registers, every addressing form, segments, boundary immediates, masks,
    # options, implicit operands omitted ...) with validation on and off: an instruction the non-validating assembler encodes
    # correctly (database-rule decoder says ok) must not be refused because validation is switched on
    sweep = c01.generate(shard, nshards, seed, sweep_budget, False, scale)
    slines = [G.case_line(c) for c in sweep]
    sruns = {}
    for label, extra in (("on", ["--validate", "1"]), ("off", ["--validate", "0"])):
        rc, out, err = c01._emit(exe, slines, extra)
        rep = common.sanitizer_report(err)
        if rc != 0 or rep:
            return dict(crash=dict(rc=rc, rep=rep, label="sweep-" + label), viol=[], stats={}, n=len(cases), accepted=[], distinct=[], samples=[])
        sruns[label] = [json.loads(l) for l in out.decode().splitlines()]
        if len(sruns[label]) != len(sweep):
            raise common.HarnessError("driver record count mismatch (sweep)")
    for c, on, off in zip(sweep, sruns["on"], sruns["off"]):
        mode = 64 if c["arch"] == "x64" else 32
        stats["sweep_cases"] += 1
        if on["err"] == 0 and off["err"] == 0:
            stats["sweep_both_accept"] += 1
            if on["bytes"] != off["bytes"]:
                line = G.case_line(c)
                viol.append(("validation-changes-bytes:%s" % c["name"], "bytes differ with validation on (%s) and off (%s): %s" % (on["bytes"], off["bytes"], line), line))
        elif on["err"] == 0:
            line = G.case_line(c)
            viol.append(("validation-enables-encoding:%s" % c["name"], "emit fails (%d) without validation but succeeds with it: %s" % (off["err"], line), line))
        elif off["err"] == 0 and off["bytes"]:
            stats["sweep_refused_only_when_validating"] += 1
            if not valid_by_construction(c["variant"], c):
                continue
            if c["name"] in IMPLICIT_ADDRESS or c01.gap_class(c, by_name, mode) == "validator-gap:implicit-memory-operand-not-checked":
                # the memory operand of these forms is implicit (fixed register): the generic addressing styles are not
                # instances of the form and the database-rule decoder has no field to judge them by
                stats["sweep_diff_implicit_memory_operand"] += 1
                continue
            stats["sweep_refused_only_when_validating_valid_operands"] += 1
            if "cbase" in c:
                c["off"] = off.get("off")   # (absolute-operand dimension: where the driver assembled the instruction)
            v, d = xdec.check(c, by_name, bytes.fromhex(off["bytes"]), mode)
            stats["sweep_diff_xdec_" + v] += 1
            mf = matched_form(c, by_name, bytes.fromhex(off["bytes"]), mode) if v == "ok" else None
            if mf is not None and set(mf.get("ext") or {}) & UNIMPLEMENTED_EXT:
                # not one of "the forms AsmJit implements": the lenient encoder happens to produce the EVEX form of an
                # extension whose VEX sibling is the only one in AsmJit's tables
                stats["sweep_diff_form_of_unimplemented_extension"] += 1
            elif v == "ok":
                line = G.case_line(c)
                distinct.add(("sweep", c["form"], c["variant"].split("-")[0], mode))
                viol.append(("validation-refuses-encodable:%s:%s" % (c["name"], c["variant"].split("-")[0]),
                             "strict validation refuses (error %d) what the assembler encodes correctly without it (%s, database rule %s): %s"
                             % (on["err"], off["bytes"], d, line), line))
        else:
            stats["sweep_both_refuse"] += 1
    return dict(viol=viol, stats=dict(stats), n=len(cases) + len(sweep), accepted=accepted, distinct=[str(d) for d in distinct], samples=samples)


VENDOR_A64 = os.path.join(os.path.dirname(VENDOR), "implemented_a64.json")


def a64_accepted():
    from vlib import a64gen
    from vlib.props import c02
    exe = build.build_driver("drv_emit_a64", "asan")
    recs = isadb.a64_forms()
    rc, out, err = common.run_child([exe, "--names", "1"], timeout=300)
    known = set()
    for ln in out.decode().splitlines():
        p = ln.split()
        if p and int(p[-1].split("=")[1]) in [int(x) for x in p[1:-1]]:
            known.add(p[0])
    cases, _ = a64gen.generate(recs, 20260927, "quick", known, nrandom=0)
    cases = [c for c in cases if c["status"] == "ok"]
    d = os.path.join(build.CACHE, "tmp")
    os.makedirs(d, exist_ok=True)
    path = os.path.join(d, "c13-a64-%d.txt" % os.getpid())
    try:
        with open(path, "w") as fh:
            for i, c in enumerate(cases):
                fh.write("%d %s\n" % (i, c["line"]))
        rc, out, err = common.run_child([exe, "--cases", path], timeout=1800)
    finally:
        if os.path.exists(path):
            os.unlink(path)
    if common.sanitizer_report(err):
        raise common.HarnessError("sanitizer report in the AArch64 acceptance sweep (C02 reports it): %s" % err[-300:])
    lines = out.decode().splitlines()
    if len(lines) != len(cases):
        raise common.HarnessError("drv_emit_a64 returned %d records for %d cases" % (len(lines), len(cases)))
    acc, errors, text = set(), {}, {}
    for c, ln in zip(cases, lines):
        r = json.loads(ln)
        k = "%s|%s" % (c02.rec_id(recs[c["rec"]]), c["vclass"])
        if r["err"] == 0 and r["bytes"]:
            acc.add(k)
        else:
            errors[k] = r["err"]
            text[k] = c["line"]
    return {"accepted": acc, "errors": errors, "lines": text, "tried": len(cases)}


def run(tier, args):
    chk = common.Check("C13", tier)
    exe = build.build_driver("drv_emit", "asan")
    isadb.x86_forms()
    nshards = 16 if tier == "quick" else 48
    nmut = 6 if tier == "quick" else 0
    sweep_budget = max(2, int(12 * args.scale)) if tier == "quick" else 40
    jobs = [(s, nshards, chk.seed, nmut, exe, sweep_budget, args.scale) for s in range(nshards)]
    with multiprocessing.Pool(16) as pool:
        outs = pool.map(worker, jobs, chunksize=1)
    stats = collections.Counter()
    byk = collections.OrderedDict()
    accepted = set()
    distinct = set()
    samples = []
    n = 0
    by_tag = collections.Counter()
    for o in outs:
        if o.get("crash"):
            chk.violation("sanitizer-or-crash:%s" % ((o["crash"]["rep"] or {}).get("kind", "rc=%s" % o["crash"]["rc"]))[:80], "driver crashed: %s" % o["crash"], o["crash"])
            continue
        stats.update(o["stats"])
        n += o["n"]
        distinct.update(o["distinct"])
        samples += o["samples"][:1]
        accepted.update((k, m) for k, m, t in o["accepted"])
        for k, m, t in o["accepted"]:
            by_tag[t] += 1
        for key, what, line in o["viol"]:
            byk.setdefault(key, []).append((what, line))
    # vendored list: forms accepted by the pinned release must still be accepted
    if os.environ.get("VERIF_C13_WRITE_VENDOR") in ("1", "x86"):
        os.makedirs(os.path.dirname(VENDOR), exist_ok=True)
        json.dump(sorted([list(x) for x in accepted]), open(VENDOR, "w"), indent=0)
    vend = set(tuple(x) for x in json.load(open(VENDOR))) if os.path.exists(VENDOR) else None
    if vend is None:
        raise common.HarnessError("vendored implemented-form list missing: " + VENDOR)
    lost = sorted(vend - accepted)
    new = sorted(accepted - vend)
    for k, m in lost[:200]:
        byk.setdefault("implemented-form-no-longer-accepted:%s" % k.split("|")[0], []).append(("database form %s accepted by the pinned release in %d-bit mode is now rejected" % (k, m), k))
    for key, lst in byk.items():
        chk.violation(key, lst[0][0] + (" [+%d more]" % (len(lst) - 1) if len(lst) > 1 else ""), {"cases": [l for _, l in lst[:20]]})
    # name round trip
    rc, out, err = common.run_child([exe, "--names", "1"], timeout=600)
    if rc != 0:
        raise common.HarnessError("names driver failed: %s" % err[-300:])
    names = 0
    recs = [json.loads(ln) for ln in out.decode().splitlines()]
    canon = {(r["arch"], r["id"]): r["name"] for r in recs if r["alias"] == 0 and r["err"] == 0 and r["name"]}
    for r in recs:
        if r["err"] != 0 or not r["name"]:
            continue  # id without a name (holes in the id space are not instructions)
        if r["alias"] == 0:
            names += 1
            if r["back"] == 0 or r["back_name"] != r["name"]:
                chk.violation("name-round-trip:%s:%s" % (r["arch"], r["name"]), "id %d -> '%s' -> id %d ('%s')" % (r["id"], r["name"], r["back"], r["back_name"]), r)
            elif r["arch"] != "a64" and r["back"] != r["id"]:
                chk.violation("name-round-trip-other-id:%s:%s" % (r["arch"], r["name"]), "id %d -> '%s' -> id %d" % (r["id"], r["name"], r["back"]), r)
    # alias spellings (x86 'cmov.b|nae|c' display form): every spelling must resolve to the id that prints it
    alias_lines = ["%s %d %s" % (r["arch"], r["id"], r["name"]) for r in recs if r["alias"] == 1 and r["err"] == 0 and ("|" in r["name"] or "." in r["name"])]
    spellings = []
    for r in recs:
        if r["alias"] == 1 and r["err"] == 0 and "." in r["name"] and r["arch"] != "a64":
            stem, alts = r["name"].split(".", 1)
            for a in alts.split("|"):
                spellings.append((r["arch"], r["id"], stem + a))
    if spellings:
        lines = ["%d %s %s 0 - 0" % (i, a, sp) for i, (a, _, sp) in enumerate(spellings)]
        rc2, out2, err2 = c01._emit(exe, lines, ["--validate", "1", "--api-validate", "1"])
        if rc2 != 0:
            raise common.HarnessError("alias lookup run failed")
        for (a, iid, sp), ln in zip(spellings, out2.decode().splitlines()):
            got = json.loads(ln).get("iid", 0)
            names += 1
            if got != iid:
                chk.violation("alias-spelling:%s:%s" % (a, sp), "alias spelling '%s' of id %d (%s) resolves to id %d" % (sp, iid, canon.get((a, iid)), got), [a, iid, sp, got])
    # AArch64 (no operand validator): the database forms the pinned release encodes must still be encoded. Fixed generator
    # seed, so that the vendored list is independent of VERIF_SEED; every valid ('ok') variant of every record counts.
    a64 = a64_accepted()
    if os.environ.get("VERIF_C13_WRITE_VENDOR") in ("1", "a64"):
        json.dump(sorted(a64["accepted"]), open(VENDOR_A64, "w"), indent=0)
    if not os.path.exists(VENDOR_A64):
        raise common.HarnessError("vendored implemented-form list missing: " + VENDOR_A64)
    vend64 = set(json.load(open(VENDOR_A64)))
    lost64 = sorted(vend64 - a64["accepted"])
    by_rec = collections.OrderedDict()
    for k in lost64:
        by_rec.setdefault(k.split("|")[0], []).append(k)
    for rid, ks in list(by_rec.items())[:200]:
        chk.violation("a64-implemented-form-no-longer-accepted:%s" % rid.split(":")[0],
                      "AArch64 database form %s (variant %s) accepted by the pinned release is now refused (error %s): %s [+%d more variants]" %
                      (rid, ks[0].split("|", 1)[1], a64["errors"].get(ks[0], "?"), a64["lines"].get(ks[0], "?"), len(ks) - 1), {"a64": ks[:10]})
    # typed emitter methods must emit the instruction they are named after
    from vlib import typedemit
    typed = typedemit.check(chk)
    inter = {k[13:]: v for k, v in stats.items() if k.startswith("intermediate_")}
    sweep = {k[6:]: v for k, v in stats.items() if k.startswith("sweep_")}
    memmut = {k[7:]: v for k, v in stats.items() if k.startswith("memmut_")}
    if not any(o.get("crash") for o in outs) and args.scale >= 0.5:
        if not sweep.get("cases") or not sweep.get("both_accept"):
            raise common.HarnessError("the validation on/off sweep observed nothing")
        for t in ("impl", "+lock", "+rep", "+repne", "+xacquire", "+xrelease", "mem", "reg"):
            if not by_tag[t]:
                raise common.HarnessError("no accepted form case with tag '%s' was observed" % t)
        if not memmut:
            raise common.HarnessError("no memory-instantiation mutation was observed")
        if not inter.get("builder_compared") or not inter.get("compiler_virtual_registers_compared"):
            raise common.HarnessError("the Builder / Compiler validation hook observed nothing")
    chk.coverage.update({
        "validation_on_off_over_the_c01_sweep": sweep,
        "validate_intermediate_hook": inter,
        "accepted_form_cases_by_instantiation": dict(by_tag),
        "memory_instantiation_mutations": memmut,
        "typed_emitter_methods": typed,
        "a64_implemented_variants_vendored": len(vend64), "a64_implemented_variants_now": len(a64["accepted"]), "a64_valid_variants_tried": a64["tried"],
        "evaluations": n,
        "distinct_nontrivial": len(distinct),
        "rule": "one evaluation = one case validated directly and emitted with and without strict validation; distinct = (database form, mode) for form/excluded-mode cases and (database form, mutation kind, mode) for near-miss mutations; all are non-trivial (each compares three verdicts)",
        "samples": samples[:5],
        "by_kind": {k: v for k, v in stats.items() if not k.startswith(("sweep_", "memmut_", "intermediate_"))},
        "implemented_forms_vendored": len(vend), "implemented_forms_now": len(accepted),
        "newly_accepted_forms": len(new), "newly_accepted_sample": [list(x) for x in new[:5]],
        "names_round_tripped": names,
    })
    chk.assumptions += [
        "'implemented' = accepted by the pinned release (vendor/implemented_x86.json, generated from this tree); AArch64 has no operand validator, so only its name round trip is judged here (encodings: C02)",
        "excluded mode is judged only for operand-kind tuples of a mnemonic that occur in no record valid for that mode",
        "validation on/off sweep: only C01 variants whose operands are valid by construction are judged, the deciding oracle is vlib/xdec.py on the bytes emitted without validation; forms of extensions this release does not implement (AVX10.2/APX EVEX siblings) and implicit-address forms are not judged",
        "Compiler run: GP/vector/mask/MMX registers are replaced by virtual registers (one per physical id), only forms InstAPI::validate accepts are compared",
    ]
    return chk.finish()
