"""C15 - Allocation failure yields an error - never a crash, leak or wrong code.

Fault enumeration: drv_oom (ASan+UBSan+LSan build, hook H1, link-time --wrap of malloc/realloc/calloc/free and of the
mmap/munmap/mprotect/ftruncate/shm_open/open/close/unlink/syscall(memfd_create) family) re-runs every workload with the
k-th arena / heap / virtual-memory request failing, for every k ("single") and with every request from k on failing
("sticky"), plus random multi-failure patterns. This module shards the k ranges over child processes, attributes a
sanitizer abort to the case announced by the child's last "@case" marker, confirms it by re-running that case alone,
symbolises request sites and merges the evidence."""
import json
import os
import re
import subprocess

from vlib import build, common

WRAPS = ["malloc", "realloc", "calloc", "free", "mmap", "munmap", "mprotect", "ftruncate64", "shm_open", "shm_unlink",
         "open64", "unlink", "close", "syscall"]

WORKLOADS = ["W1x64", "W1x86", "W1a64", "W1r", "W2fin", "W2ser", "W3x64", "W3x86", "W3a64", "W3x64log", "W3a64log",
             "W4", "W4dual", "W4multi", "W4dualfill", "W4nomemfd", "W5", "W5big", "W5s", "W6"]
COLD = ["W4", "W4dual", "W4nomemfd"]          # vm class additionally with NOTHING warmed up (one case per process)
CLASSES = ["arena", "heap", "vm"]

GENERIC = re.compile(r"^(asmjit::v\d+_\d+::)?(Arena::|ArenaVectorBase::|ArenaHashBase::|ArenaBitSet::|ArenaStringBase::|"
                     r"ArenaPool<|ArenaVector<|ArenaHash<|ArenaString<|String::|StringTmp<|Arena_|__wrap_|arena_fail_hook)")


def build_exe():
    return build.build_driver("drv_oom", "asan", extra_ldflags=["-rdynamic"] + ["-Wl,--wrap=" + w for w in WRAPS])


# -- symbolisation -------------------------------------------------------------------------------------------

class Symbolizer:
    def __init__(self, exe):
        self.exe = exe
        self.cache = {}
        with open(exe, "rb") as fh:
            hdr = fh.read(20)
        self.pie = hdr[16] == 3

    def resolve(self, offsets):
        """offsets: pc - exe_base of return addresses. Returns {offset: (function, file:line)}."""
        todo = sorted({o for o in offsets if o and o not in self.cache})
        for i in range(0, len(todo), 2000):
            part = todo[i:i + 2000]
            addrs = ["0x%x" % (o - 1) for o in part]   # return address - 1 = inside the call instruction
            p = subprocess.run(["addr2line", "-f", "-C", "-e", self.exe] + addrs, stdout=subprocess.PIPE, stderr=subprocess.DEVNULL, text=True)
            lines = p.stdout.splitlines()
            for j, o in enumerate(part):
                fn = lines[2 * j] if 2 * j < len(lines) else "??"
                loc = lines[2 * j + 1] if 2 * j + 1 < len(lines) else "??"
                self.cache[o] = (short_fn(fn), os.path.basename(loc.split(" ")[0]))
        return {o: self.cache.get(o, ("??", "??")) for o in offsets if o}


def short_fn(fn):
    fn = re.sub(r"asmjit::v\d+_\d+::", "", fn)
    depth, out = 0, []
    for ch in fn:          # drop template arguments and the parameter list
        if ch == "<":
            depth += 1
        elif ch == ">":
            depth -= 1
        elif ch == "(" and depth == 0:
            break
        elif depth == 0:
            out.append(ch)
    s = "".join(out).strip()
    s = s.split(" ")[-1].lstrip("*&")       # drop the return type that template instantiations carry
    return s or fn[:60]


def site_function(sym, pcs):
    """The function whose null check is exercised: innermost asmjit frame that is not a generic allocation helper;
    when the request comes straight from the harness (W5/W6), the outermost helper."""
    names = [sym.cache.get(p, ("??", "??")) for p in pcs if p]
    names = [n for n in names if not n[0].startswith(HARNESS_FRAMES)]
    if not names:
        return "?"
    last_generic = None
    for fn, loc in names:
        if loc.startswith("drv_oom.cpp") or fn in ("main", "run_case") or fn.startswith("W") and "::" in fn and loc.startswith("drv_"):
            break
        if GENERIC.match(fn):
            last_generic = fn
            continue
        return fn
    return last_generic or names[0][0]


CRASH_GENERIC = re.compile(r"^(ArenaTree::|ArenaVector::|ArenaVectorBase::|ArenaHashBase::|ArenaHash::|operator|Support::|loadu|storeu|"
                           r"__|mem|std::|ConstPool::Tree::|Arena::ManagedBlock::|lower_bound|CodeWriterUtils::|Section::|LabelEntry::)")


def crash_function(rep):
    """First non-generic asmjit frame of a sanitizer report (the function whose missing check let the process die)."""
    if not rep or not rep["frames"]:
        return "?"
    cands = []
    for f in rep["frames"]:
        if "/verif/drv/" in f:
            break
        name = short_fn(f.split(" /")[0])
        if "/repo/" in f or "asmjit" in f:
            cands.append(name)
    for n in cands:
        if not CRASH_GENERIC.match(n):
            return n
    return cands[-1] if cands else short_fn(rep["frames"][0].split(" /")[0])


def api_function(sym, pcs):
    """Outermost asmjit function of a request's call chain = the API call that was in progress."""
    names = [sym.cache.get(p, ("??", "??")) for p in pcs if p]
    names = [n for n in names if not n[0].startswith(HARNESS_FRAMES)]
    last = None
    for fn, loc in names:
        if loc.startswith("drv_oom.cpp") or fn in ("main", "run_case", "??"):
            break
        last = fn
    return last or (names[0][0] if names else "?")


def site_chain(sym, pcs):
    names = [sym.cache.get(p, ("??", "??"))[0] for p in pcs if p]
    return "<-".join(n for n in names if not n.startswith(HARNESS_FRAMES))


# -- child handling -----------------------------------------------------------------------------------------

MARK = re.compile(r"^@case (\S+) (\S+) (\S+) (\S+) (\d+) (\d+) (\d+)$", re.M)
FSITE = re.compile(r"^@fired (\d+)((?: \d+)+)$", re.M)
HARNESS_FRAMES = ("fault_point", "walk_frames", "arena_fail_hook", "__wrap_")


def crash_kind(rep, err):
    k = rep["kind"] if rep else ""
    if "null pointer" in k or ("SEGV" in k and re.search(r"address 0x0000000000[0-9a-f]{2}\b", err or "")):
        return "null-deref"
    for pat, name in (("heap-use-after-free", "use-after-free"), ("double-free", "double-free"), ("heap-buffer-overflow", "heap-overflow"),
                      ("SEGV", "segv"), ("LeakSanitizer", "lsan-leak"), ("stack-", "stack-error"), ("UBSan", "ubsan"),
                      ("bad-free", "bad-free"), ("negative-size", "negative-size-param")):
        if pat in k:
            return name
    return "abort"


class Runner:
    def __init__(self, chk, exe, seed):
        self.chk, self.exe, self.seed = chk, exe, seed
        self.sym = Symbolizer(exe)
        self.results = []       # driver summaries
        self.crashes = []       # dicts
        self.lost_cases = 0
        self.children = 0
        self.confirmed = set()

    def child(self, argv, timeout=1800):
        self.children += 1
        rc, out, err = common.run_child([self.exe] + argv, timeout=timeout)
        err = err.decode("utf-8", "replace")
        res = None
        try:
            line = out.decode().strip().splitlines()[-1]
            res = json.loads(line)
        except Exception:
            res = None
        return rc, res, err

    def base_args(self, w, cls, mode):
        return ["--workload", w, "--class", cls, "--mode", mode, "--seed", str(self.seed)]

    def count(self, w, cold=False):
        rc, res, err = self.child(self.base_args(w, "arena", "count") + (["--cold"] if cold else []))
        if res is None or not res.get("harness_ok"):
            raise common.HarnessError("counting run of %s failed (rc=%s): %s" % (w, rc, err[-1500:]))
        return res

    def analyse_crash(self, w, cls, mode, argv, rc, err):
        """Returns dict(case marker fields, sanitizer report, fault site) for a child that died."""
        marks = MARK.findall(err)
        rep = common.sanitizer_report(err)
        site = None
        last = marks[-1] if marks else None
        tail_from = err.rfind("@case ")
        fs = FSITE.findall(err[tail_from:] if tail_from >= 0 else err)
        if fs:
            site = [int(x) for x in fs[0][1].split()]
        return {"mark": last, "rep": rep, "site": site, "rc": rc, "tail": err[-3000:]}

    def run_range(self, w, cls, mode, a, b, extra=()):
        """single / sticky over k in [a, b]; restarts behind a case that killed the child."""
        k = a
        while k <= b:
            argv = self.base_args(w, cls, mode) + ["--from", str(k), "--to", str(b)] + list(extra)
            rc, res, err = self.child(argv)
            if res is not None and rc in (0,):
                self.results.append(res)
                return
            if res is not None and rc == 3:
                raise common.HarnessError("driver %s: harness self-check failed: %s" % (argv, err[-1500:]))
            info = self.analyse_crash(w, cls, mode, argv, rc, err)
            if info["mark"] is None or info["mark"][2] == "count":
                raise common.HarnessError("driver %s died (rc=%s) outside an armed case: %s" % (argv, rc, err[-2000:]))
            kk = int(info["mark"][4])
            self.lost_cases += max(0, kk - k)
            argv1 = self.base_args(w, cls, mode) + ["--from", str(kk), "--to", str(kk)] + list(extra)
            sig = (group_of(w), cls, crash_function(info["rep"]), crash_kind(info["rep"], info["tail"]))
            if sig in self.confirmed:
                # same symptom as an already confirmed case of this workload group: counted, not re-run alone
                self.crashes.append({"w": w, "cls": cls, "mode": mode, "k": kk, "argv": argv1, "info": info, "alone": True, "dup": True})
                k = kk + 1
                continue
            # confirm: the case alone, in a fresh process
            rc1, res1, err1 = self.child(argv1)
            if res1 is None:
                self.confirmed.add(sig)
                info1 = self.analyse_crash(w, cls, mode, argv1, rc1, err1)
                self.crashes.append({"w": w, "cls": cls, "mode": mode, "k": kk, "argv": argv1, "info": info1, "alone": True})
            else:
                # not reproducible alone: bisect the prefix [k, kk] for the shortest range ending in kk that still dies
                lo, hi = k, kk
                while lo < hi:
                    mid = (lo + hi + 1) // 2
                    argv2 = self.base_args(w, cls, mode) + ["--from", str(mid), "--to", str(kk)] + list(extra)
                    rc2, res2, err2 = self.child(argv2)
                    if res2 is None:
                        lo = mid
                    else:
                        hi = mid - 1
                argv2 = self.base_args(w, cls, mode) + ["--from", str(lo), "--to", str(kk)] + list(extra)
                self.crashes.append({"w": w, "cls": cls, "mode": mode, "k": kk, "argv": argv2, "info": info, "alone": False})
                self.results.append(res1)
            k = kk + 1

    def run_patterns(self, w, cls, cases):
        skip = 0
        while skip < cases:
            argv = self.base_args(w, cls, "pattern") + ["--cases", str(cases), "--skip", str(skip)]
            rc, res, err = self.child(argv)
            if res is not None and rc == 0:
                self.results.append(res)
                return
            if res is not None and rc == 3:
                raise common.HarnessError("driver %s: harness self-check failed: %s" % (argv, err[-1500:]))
            info = self.analyse_crash(w, cls, "pattern", argv, rc, err)
            if info["mark"] is None or info["mark"][2] == "count":
                raise common.HarnessError("driver %s died (rc=%s) outside an armed case: %s" % (argv, rc, err[-2000:]))
            m = info["mark"]
            idx = int(m[4])
            argv1 = self.base_args(w, cls, "pattern") + ["--pat", m[3], "--stop", m[5], "--strategy", m[6]]
            rc1, res1, err1 = self.child(argv1)
            if res1 is None:
                info = self.analyse_crash(w, cls, "pattern", argv1, rc1, err1)
                self.crashes.append({"w": w, "cls": cls, "mode": "pattern", "k": m[3], "argv": argv1, "info": info, "alone": True})
            else:
                self.crashes.append({"w": w, "cls": cls, "mode": "pattern", "k": m[3], "argv": argv, "info": info, "alone": False})
            self.lost_cases += max(0, idx - skip)
            skip = idx + 1

    def run_cold(self, w, cls, k):
        argv = self.base_args(w, cls, "single") + ["--cold", "--from", str(k), "--to", str(k)]
        rc, res, err = self.child(argv)
        if res is not None and rc == 0:
            res["cold"] = True
            self.results.append(res)
            return
        if res is not None and rc == 3:
            raise common.HarnessError("driver %s: harness self-check failed: %s" % (argv, err[-1500:]))
        info = self.analyse_crash(w, cls, "single", argv, rc, err)
        self.crashes.append({"w": w, "cls": cls, "mode": "single-cold", "k": k, "argv": argv, "info": info, "alone": True})


def group_of(w):
    return w[:2]


def run(tier, args):
    chk = common.Check("C15", tier, level="fault_enumeration")
    exe = build_exe()
    R = Runner(chk, exe, chk.seed)
    scale = args.scale

    if args.replay:
        rp = json.load(open(args.replay))
        argv = rp["case"]["argv"]
        rc, res, err = R.child(argv)
        w = argv[argv.index("--workload") + 1]
        cls = argv[argv.index("--class") + 1]
        if res is None:
            R.crashes.append({"w": w, "cls": cls, "mode": "replay", "k": "?", "argv": argv, "info": R.analyse_crash(w, cls, "replay", argv, rc, err), "alone": True})
        else:
            R.results.append(res)
        counts = {}
    else:
        # ---- 1. counting runs --------------------------------------------------------------------------------
        workloads = WORKLOADS
        cres = common.parallel_map(lambda w: (w, R.count(w)), workloads)
        counts = {w: r["N"] for w, r in cres}
        wrapper_calls = sum(r["heap_wrapper_calls"] for w, r in cres)
        if wrapper_calls == 0:
            raise common.HarnessError("the malloc wrappers never saw a call: --wrap does not intercept asmjit in this build")
        cold_counts = {w: R.count(w, cold=True)["N"] for w in COLD}
        # request sites of the failure-free runs
        for w, r in cres:
            r["_count_only"] = True
            R.results.append(r)

        # ---- 2. job list ---------------------------------------------------------------------------------------
        jobs = []
        rng = common.Rng(chk.seed)
        batch = 250
        for w in workloads:
            for cls in CLASSES:
                n = counts[w][cls]
                if not n:
                    continue
                lim = n if scale >= 1 else max(1, int(n * scale))
                for mode in ("single", "sticky"):
                    a = 1
                    while a <= lim:
                        b = min(lim, a + batch - 1)
                        jobs.append(("range", w, cls, mode, a, b))
                        a = b + 1
                npat = {"quick": 60, "thorough": 4000}[tier]
                if cls == "vm":
                    npat = {"quick": 40, "thorough": 600}[tier]
                npat = max(1, int(npat * scale))
                if n >= 2:
                    jobs.append(("pattern", w, cls, npat))
        for w in COLD:
            n = cold_counts[w]["vm"]
            for k in range(1, n + 1):
                jobs.append(("cold", w, "vm", k))
        if tier == "thorough":
            # single-failure enumeration again in "stop at the first error" style, and other seeds' workload shapes
            for w in workloads:
                for cls in CLASSES:
                    n = counts[w][cls]
                    a = 1
                    while a <= n:
                        b = min(n, a + batch - 1)
                        jobs.append(("range-stop", w, cls, "single", a, b))
                        a = b + 1
        # long jobs first
        jobs.sort(key=lambda j: -(j[5] - j[4] + 1 if j[0].startswith("range") else j[3] if j[0] == "pattern" else 1))

        def one(job):
            if job[0] == "range":
                R.run_range(job[1], job[2], job[3], job[4], job[5])
            elif job[0] == "range-stop":
                R.run_range(job[1], job[2], job[3], job[4], job[5], extra=["--stop", "1"])
            elif job[0] == "pattern":
                R.run_patterns(job[1], job[2], job[3])
            else:
                R.run_cold(job[1], job[2], job[3])
            return None

        import time as _t
        t_jobs = _t.time()
        common.parallel_map(one, jobs)
        chk.note("jobs: %d in %.1fs, children=%d" % (len(jobs), _t.time() - t_jobs, R.children))

    # ---- 3. symbolise --------------------------------------------------------------------------------------------
    pcs = set()
    for res in R.results:
        for s in res.get("sites", []):
            pcs.update(p for p in s["pc"] if p)
        for v in res.get("violations", []):
            pcs.update(p for p in v["site"] if p)
    for c in R.crashes:
        if c["info"]["site"]:
            pcs.update(p for p in c["info"]["site"] if p)
    R.sym.resolve(pcs)

    # ---- 4. verdicts ----------------------------------------------------------------------------------------------
    for c in R.crashes:
        info = c["info"]
        rep = info["rep"]
        kind = crash_kind(rep, info["tail"])
        fn = site_function(R.sym, info["site"]) if info["site"] and any(info["site"]) else "?"
        crash_in = crash_function(rep)
        key = "%s:%s:%s:%s" % (crash_in, kind, c["cls"], group_of(c["w"]))
        what = ("%s, %s class, %s failure pattern %s: request failed in %s [%s]; then %s in %s; frames %s%s" %
                (c["w"], c["cls"], c["mode"], c["k"], fn, site_chain(R.sym, info["site"] or []), rep["kind"] if rep else "process died rc=%s" % info["rc"],
                 crash_in, rep["frames"][:6] if rep else info["tail"][-300:], "" if c["alone"] else " (only reproduces after the preceding cases of the batch)"))
        chk.violation(key, what, {"argv": c["argv"]})

    for res in R.results:
        for v in res.get("violations", []):
            fn = site_function(R.sym, v["site"]) if any(v["site"]) else "?"
            key = "%s:%s:%s:%s" % (api_function(R.sym, v["site"]) if any(v["site"]) else "?", v["kind"], v["class"], group_of(res["workload"]))
            argv = ["--workload", res["workload"], "--class", v["class"], "--seed", str(chk.seed)]
            if v["mode"] == "pattern":
                argv += ["--mode", "pattern", "--pat", v["pattern"]]
            else:
                argv += ["--mode", v["mode"], "--from", v["pattern"], "--to", v["pattern"]]
            if res.get("cold"):
                argv += ["--cold"]
            what = "%s, %s class, %s failure pattern %s (%d cases alike): request failed in %s [%s]: %s" % (
                res["workload"], v["class"], v["mode"], v["pattern"], v["count"], fn, site_chain(R.sym, v["site"]), v["what"])
            chk.violation(key, what, {"argv": argv})

    # ---- 5. evidence ----------------------------------------------------------------------------------------------
    tot = {k: 0 for k in ("cases", "fired_cases", "reported", "tolerated", "not_fired", "retry_ok", "requests_failed")}
    per = {}
    failing_sites = {}
    request_sites = set()
    errors = {}
    for res in R.results:
        w, cls, mode = res["workload"], res["class"], res["mode"]
        if not res.get("_count_only"):
            for k in tot:
                tot[k] += res[k]
            d = per.setdefault(w, {}).setdefault(cls, {})
            d[mode] = d.get(mode, 0) + res["cases"]
            for e, n in res.get("errors", {}).items():
                errors[e] = errors.get(e, 0) + n
        for s in res.get("sites", []):
            cname = CLASSES[s["c"]]
            chain = tuple(p for p in s["pc"] if p and not R.sym.cache.get(p, ("??",))[0].startswith(HARNESS_FRAMES))
            fn = site_function(R.sym, s["pc"])
            if s["f"]:
                key = (group_of(w), cname, fn, chain[0] if chain else 0)
                ent = failing_sites.setdefault(key, {"n": 0, "workloads": set(), "chain": site_chain(R.sym, s["pc"])})
                ent["n"] += s["n"]
                ent["workloads"].add(w)
            else:
                request_sites.add((group_of(w), cname, fn, chain[0] if chain else 0))
    distinct_fn = {(g, c, fn) for (g, c, fn, pc) in failing_sites}
    by_class = {}
    for (g, c, fn) in distinct_fn:
        by_class[c] = by_class.get(c, 0) + 1
    samples = []
    for (g, c, fn, pc), ent in sorted(failing_sites.items(), key=lambda kv: -kv[1]["n"])[:6]:
        samples.append({"workload_group": g, "class": c, "failed_request_in": fn, "call_chain": ent["chain"], "times_failed": ent["n"]})
    chk.coverage.update({
        "evaluations": tot["cases"] + R.lost_cases + len(R.crashes),
        "distinct_nontrivial": len(distinct_fn),
        "rule": "one evaluation = one workload run with one failure pattern armed (phase 1), followed by reset/reinit + retry on the same "
                "objects and destruction with balance checks; distinct_nontrivial = distinct (workload group, fault class, function "
                "containing the failed request - return address of the failed request symbolised with addr2line, generic allocation "
                "helpers skipped) in which a failure was really injected",
        "samples": samples,
        "N_requests_per_workload_and_class": counts,
        "cases_by_workload_class_mode": per,
        "distinct_failing_call_sites_by_return_address": len(failing_sites),
        "distinct_failing_functions_by_class": by_class,
        "request_sites_in_failure_free_runs": len(request_sites),
        "cases_where_a_failure_fired": tot["fired_cases"],
        "cases_error_reported": tot["reported"],
        "cases_failure_tolerated_output_identical": tot["tolerated"],
        "cases_pattern_not_reached": tot["not_fired"],
        "retries_identical_to_failure_free": tot["retry_ok"],
        "requests_failed_total": tot["requests_failed"],
        "first_error_codes_reported": errors,
        "children_killed_by_sanitizer": len(R.crashes),
        "exhaustive": False,
    })
    chk.assumptions += [
        "ASan+UBSan(+LSan at exit) build of /repo's working tree with -DASMJIT_VERIF; arena failures are injected through hook H1, heap and "
        "virtual-memory failures through link-time --wrap (verified at run time: the wrappers count asmjit's malloc calls under ASan)",
        "a request fails only while a workload's asmjit calls are in progress; munmap/close/unlink/free never fail (they are releases, only accounted)",
        "single and sticky enumeration cover EVERY k in 1..N of the failure-free run of each listed workload; they are exhaustive for these "
        "workloads and this seed's workload shape only, not for all programs",
        "process-wide lazily initialised state (CpuInfo::host, VirtMem::info, hardened-runtime and anonymous-memory-strategy detection) is warmed "
        "up before faults are injected, except in the 'cold' vm cases (one fresh process per k) of " + ",".join(COLD),
        "log text is compared in the retry only: logging is best effort and not part of 'the code'",
        "the retry output is compared with the retry of a failure-free run using the same recover strategy (reset soft / reinit / reset hard)",
        "W1/W2 avoid jumps to a label already bound in another section (asmjit corrupts that label's offset - reported to the lead, not C15)",
    ]
    return chk.finish()
