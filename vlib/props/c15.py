"""C15 - Allocation failure yields an error - never a crash, leak or wrong code.

Fault enumeration: drv_oom (ASan+UBSan+LSan build, hook H1, link-time --wrap of malloc/realloc/calloc/free and of the
mmap/munmap/mprotect/ftruncate/shm_open/open/close/unlink/syscall(memfd_create) family) re-runs every workload with the
k-th arena / heap / virtual-memory request failing, for every k ("single") and with every request from k on failing
("sticky"), plus random multi-failure patterns. This module shards the k ranges over child processes, attributes a
sanitizer abort to the case announced by the child's last "@case" marker, confirms it by re-running that case alone,
symbolises request sites and merges the evidence.

Beyond "error or identical output, then reset + identical retry, then balanced destruction" the drivers judge: callers that
drop a refused call and CARRY ON with the same objects (W7 emits; W1c/W2c/W3c every kind of assembling / building / compiling
call, against a reference run that omits exactly those calls; W5c a ConstPool against a model; W8 strings against a model),
WHO reports (the first thing a caller is told must not be a foreign error from a later call), and HOW resources are released
(munmap length / result, no second close / unlink)."""
import json
import os
import re
import subprocess

from vlib import build, common

WRAPS = ["malloc", "realloc", "calloc", "free", "mmap", "munmap", "mprotect", "ftruncate64", "shm_open", "shm_unlink",
         "open64", "unlink", "close", "syscall"]

WORKLOADS = ["W1x64", "W1x86", "W1a64", "W1r", "W1c", "W2c", "W3c", "W5c", "W2fin", "W2ser", "W3x64", "W3x86", "W3a64", "W3x64log", "W3a64log",
             "W4", "W4dual", "W4multi", "W4dualfill", "W4nomemfd", "W4far", "W4fardual", "W4large", "W4largefill", "W4largefb",
             "W1rst", "W1cst", "W5sst", "W5", "W5big", "W5s", "W6", "W7asm", "W7bld", "W7cc", "W8", "W9"]
COLD = ["W4", "W4dual", "W4nomemfd"]          # vm class additionally with NOTHING warmed up (one case per process)
CLASSES = ["arena", "heap", "vm"]

GENERIC = re.compile(r"^(asmjit::v\d+_\d+::)?(Arena::|ArenaVector_|ArenaVectorBase::|ArenaHashBase::|ArenaBitSet::|ArenaStringBase::|"
                     r"ArenaPool<|ArenaVector<|ArenaHash<|ArenaString<|String::|StringTmp<|Arena_|__wrap_|arena_fail_hook)")


def build_exe():
    return build.build_driver("drv_oom", "asan", extra_ldflags=["-rdynamic"] + ["-Wl,--wrap=" + w for w in WRAPS])


# -- symbolisation -------------------------------------------------------------------------------------------

class Symbolizer:
    """pc offsets -> [(function, file:line), ...] innermost inlined frame first (addr2line -i)."""

    def __init__(self, exe):
        self.exe = exe
        self.cache = {}

    def resolve(self, offsets):
        todo = sorted({o for o in offsets if o and o not in self.cache})
        for i in range(0, len(todo), 2000):
            part = todo[i:i + 2000]
            addrs = ["0x%x" % (o - 1) for o in part]   # return address - 1 = inside the call instruction
            p = subprocess.run(["addr2line", "-a", "-i", "-f", "-C", "-e", self.exe] + addrs, stdout=subprocess.PIPE, stderr=subprocess.DEVNULL, text=True)
            cur, pend = None, None
            for ln in p.stdout.splitlines():
                if ln.startswith("0x") and " " not in ln.strip():
                    cur = int(ln.strip(), 16) + 1
                    self.cache[cur] = []
                    pend = None
                elif cur is not None:
                    if pend is None:
                        pend = ln
                    else:
                        self.cache[cur].append((short_fn(pend), os.path.basename(ln.split(" ")[0])))
                        pend = None
            for o in part:
                if not self.cache.get(o):
                    self.cache[o] = [("??", "??")]

    def frames(self, pcs):
        """Flattened call chain (innermost first) for a list of pc offsets."""
        out = []
        for p in pcs:
            if p:
                out.extend(self.cache.get(p, [("??", "??")]))
        return out


def short_fn(fn):
    fn = re.sub(r"asmjit::v\d+_\d+::", "", fn)
    depth, out = 0, []
    for ch in fn:          # drop template arguments and the parameter list
        if ch == "<":
            depth += 1
        elif ch == ">":
            depth -= 1
        elif ch == "(" and depth == 0:
            break
        elif depth == 0:
            out.append(ch)
    s = "".join(out).strip()
    s = s.split(" ")[-1].lstrip("*&")       # drop the return type that template instantiations carry
    return s or fn[:60]


HARNESS_FRAMES = ("fault_point", "walk_frames", "arena_fail_hook", "__wrap_", "vm_defect", "name_release")

# continue recovery (W1c / W2c): kinds of calls that must have been refused at least once (bind never allocates)
CONT_KINDS = ("new_section", "new_label", "new_named_label", "new_named_label_again", "section", "align", "embed", "embed_label", "embed_label_delta",
              "embed_data_array", "comment", "emit", "emit_with_label_operand", "emit_with_absolute_target",
              "compiler_new_reg", "compiler_new_stack", "compiler_invoke", "compiler_emit")
# register-allocator code that only special function shapes reach (immediate / by-reference invoke arguments, st0 returns,
# register lists): a refused request must have been injected with each of these functions on its call chain
RA_TARGETS = ("x86::RACFGBuilder::move_imm_to_reg_arg", "x86::RACFGBuilder::move_imm_to_stack_arg", "x86::RACFGBuilder::move_vec_to_ptr",
              "x86::RACFGBuilder::on_before_ret", "a64::RACFGBuilder::move_imm_to_reg_arg", "a64::RACFGBuilder::move_imm_to_stack_arg",
              "RAWorkReg::add_immediate_consecutive")


def _is_harness(fn, loc):
    return loc.startswith("drv_oom.cpp") or loc.startswith("vcommon.h") or fn in ("main", "run_case", "_start", "??") or fn.startswith("main::")


def chain_of(sym, pcs):
    """Call chain of a request without the wrapper / hook frames (innermost first)."""
    fr = sym.frames(pcs)
    while fr and fr[0][0].startswith(HARNESS_FRAMES):
        fr = fr[1:]
    return fr


def site_function(sym, pcs):
    """The function whose null check is exercised: innermost asmjit frame that is not a generic allocation helper;
    when the request comes straight from the harness (W5/W6), the outermost helper."""
    names = chain_of(sym, pcs)
    if not names:
        return "?"
    last_generic = None
    for fn, loc in names:
        if _is_harness(fn, loc):
            break
        if GENERIC.match(fn):
            last_generic = fn
            continue
        return fn
    return last_generic or names[0][0]


CRASH_GENERIC = re.compile(r"^(ArenaTree::|ArenaVector::|ArenaVectorBase::|ArenaHashBase::|ArenaHash::|operator|Support::|loadu|storeu|"
                           r"__|mem|std::|ConstPool::Tree::|Arena::ManagedBlock::|lower_bound|CodeWriterUtils::|Section::|LabelEntry::|CodeHolder_add_text_section|"
                           r"CodeHolder::section_by_id|rewrite_iterate)")


def crash_function(sym, rep):
    """First non-generic asmjit frame of a sanitizer report (the function whose missing check let the process die)."""
    if not rep or not rep["offs"]:
        return "?"
    cands = []
    for fn, loc in sym.frames(rep["offs"]):
        if _is_harness(fn, loc):
            break
        cands.append(fn)
    for n in cands:
        if not CRASH_GENERIC.match(n) and n != "??":
            return n
    return cands[-1] if cands else "?"


def report_frames(sym, rep):
    return ["%s %s" % f for f in sym.frames(rep["offs"] if rep else [])][:10]


def api_function(sym, pcs):
    """Outermost asmjit function of a request's call chain = the API call that was in progress."""
    last = None
    names = chain_of(sym, pcs)
    for fn, loc in names:
        if _is_harness(fn, loc):
            break
        last = fn
    return last or (names[0][0] if names else "?")


def release_function(sym, pcs):
    """Wrong munmap / close / unlink: the asmjit function that made the release call (VirtMem's own helpers skipped)."""
    names = chain_of(sym, pcs)
    first = None
    for fn, loc in names:
        if _is_harness(fn, loc):
            break
        first = first or fn
        if not GENERIC.match(fn) and not fn.startswith("VirtMem::") and "AnonymousMemory" not in fn:
            return fn
    return first or "?"


def site_chain(sym, pcs):
    out = []
    for fn, loc in chain_of(sym, pcs):
        out.append(fn)
        if fn == "run_case":
            break
    return "<-".join(out[:14])


# -- "completes correctly" for register allocation: same code up to the placement of spill slots --------------------------
# An allocation failure inside RA's lazy spill-slot creation is swallowed by asmjit; the slot is then created at the next
# use, i.e. in another order, and the frame layout changes. Such code is different but correct. The oracle below accepts a
# silent byte difference only if, function by function, both images decode (objdump / llvm-mc, independent of asmjit) to
# the same instruction sequence once sp/fp-relative displacements are renamed bijectively and branch targets are expressed
# as instruction indices. Anything else stays a violation.

BASES = {"x64": 0x00007F3300010000, "x86": 0x08040000, "a64": 0x00007F3300010000}
FUNC_LABELS = ("f1", "f1v", "f2", "f3", "f4", "f5", "f6", "f6f", "f7", "f8", "fc", "g1", "g2", "g3", "g4")


def _parse_main(main):
    img, labels = None, {}
    for part in main.split(";"):
        if "=" not in part:
            continue
        k, v = part.split("=", 1)
        if k == "image":
            img = bytes.fromhex(v)
        elif k in FUNC_LABELS and v.isdigit():
            labels[k] = int(v)
    return img, labels


def _decode(arch, data, vma):
    """-> [(address, text)]"""
    if arch in ("x64", "x86"):
        import tempfile
        with tempfile.NamedTemporaryFile(dir=os.path.join(common.VERIF, ".cache"), suffix=".bin", delete=False) as fh:
            fh.write(data)
            path = fh.name
        try:
            p = subprocess.run(["objdump", "-D", "-b", "binary", "-m", "i386:x86-64" if arch == "x64" else "i386", "-M", "intel",
                                "--no-show-raw-insn", "--adjust-vma=0x%x" % vma, path], stdout=subprocess.PIPE, stderr=subprocess.DEVNULL, text=True)
        finally:
            os.unlink(path)
        out = []
        for ln in p.stdout.splitlines():
            m = re.match(r"^\s*([0-9a-f]+):\s+(.*)$", ln)
            if m:
                out.append((int(m.group(1), 16), re.sub(r"\s+", " ", m.group(2).strip())))
        return out
    txt = " ".join("0x%02x" % b for b in data)
    p = subprocess.run(["llvm-mc", "--disassemble", "--triple=aarch64", "-mattr=+v8.5a,+neon,+fp-armv8"], input=txt, stdout=subprocess.PIPE, stderr=subprocess.DEVNULL, text=True)
    lines = [re.sub(r"\s+", " ", ln.strip()) for ln in p.stdout.splitlines() if ln.strip() and not ln.strip().startswith(".")]
    return [(vma + 4 * i, t) for i, t in enumerate(lines)]


_X86_STK = re.compile(r"\[(rsp|esp|rbp|ebp)([+-]0x[0-9a-f]+)?\]")
_X86_ADJ = re.compile(r"^(sub|add) (rsp|esp),0x[0-9a-f]+$")
_A64_STK = re.compile(r"\[(sp|x29)(?:, #(-?(?:0x[0-9a-f]+|\d+)))?\]")
_A64_ADJ = re.compile(r"^(sub|add) sp, sp, #(0x[0-9a-f]+|\d+)(, lsl #12)?$")
_ADDR = re.compile(r"0x[0-9a-f]{3,}")


def _normalise(arch, insts, seg_lo, seg_hi):
    """Cuts the function at its last return, expresses in-function addresses as instruction indices, addresses in the
    data tail of the function as DATA; returns (texts, stack refs per instruction)."""
    is_ret = (lambda t: t == "ret" or t.startswith("ret ")) if arch != "a64" else (lambda t: t == "ret")
    last = max((i for i, (a, t) in enumerate(insts) if is_ret(t)), default=-1)
    if last < 0:
        return None
    code = insts[:last + 1]
    code_end = insts[last + 1][0] if last + 1 < len(insts) else seg_hi
    index = {a: i for i, (a, t) in enumerate(code)}
    stk, adj = (_X86_STK, _X86_ADJ) if arch != "a64" else (_A64_STK, _A64_ADJ)
    texts, refs = [], []
    for a, t in code:
        t = t.split(" #")[0].strip() if arch != "a64" else t.split(" //")[0].strip()     # drop objdump's "# 0x..." comments
        if arch == "a64":
            # llvm-mc prints pc-relative branch targets as "#imm" (bytes): make them instruction indices
            m = re.search(r"#(-?\d+)$", t)
            if m and re.match(r"^(b|bl|b\.\w+|cbz|cbnz|tbz|tbnz|adr) ", t):
                tgt = a + int(m.group(1))
                t = t[:m.start()] + ("@%d" % index[tgt] if tgt in index else "DATA" if code_end <= tgt < seg_hi else "#%d" % int(m.group(1)))
        else:
            t = re.sub(r"\[rip[+-]0x[0-9a-f]+\]", "[RIP]", t)

            def addr(m):
                v = int(m.group(0), 16)
                if v in index:
                    return "@%d" % index[v]
                if code_end <= v < seg_hi:
                    return "DATA"
                return m.group(0)
            if not stk.search(t):
                t = _ADDR.sub(addr, t)
        if adj.match(t):
            t = t.split(",")[0] + ",FRAME"
        refs.append(stk.findall(t))
        texts.append(stk.sub("[STK]", t))
    return texts, refs, code_end


TAILS = {"compared": 0, "bytes": 0, "different_code_length": 0}


def same_code_up_to_stack_layout(arch, main_a, main_b):
    try:
        img_a, lab_a = _parse_main(main_a)
        img_b, lab_b = _parse_main(main_b)
        if not img_a or not img_b or sorted(lab_a) != sorted(lab_b) or not lab_a:
            return False
        base = BASES[arch]
        names = sorted(lab_a, key=lambda n: lab_a[n])
        if names != sorted(lab_b, key=lambda n: lab_b[n]):
            return False
        for i, n in enumerate(names):
            hi_a = lab_a[names[i + 1]] if i + 1 < len(names) else len(img_a)
            hi_b = lab_b[names[i + 1]] if i + 1 < len(names) else len(img_b)
            da = _decode(arch, img_a[lab_a[n]:hi_a], base + lab_a[n])
            db = _decode(arch, img_b[lab_b[n]:hi_b], base + lab_b[n])
            na = _normalise(arch, da, base + lab_a[n], base + hi_a)
            nb = _normalise(arch, db, base + lab_b[n], base + hi_b)
            if na is None or nb is None or na[0] != nb[0]:
                return False
            # what follows the last return (local constant pool, jump table) is data the instructions above address: when the
            # code has the same length in both images it must be the same bytes (a changed constant / table entry is wrong code)
            ta = img_a[na[2] - base:hi_a]
            tb = img_b[nb[2] - base:hi_b]
            if arch != "a64":
                # (alignment padding in front of / behind the data depends on the length of the functions above: int3)
                ta, tb = ta.strip(b"\xcc"), tb.strip(b"\xcc")
            if (na[2] - base - lab_a[n]) == (nb[2] - base - lab_b[n]):
                TAILS["compared"] += 1
                TAILS["bytes"] += len(ta)
                if ta != tb:
                    return False
            else:
                TAILS["different_code_length"] += 1
            fwd, bwd, ctx = {}, {}, 0
            for text, ra, rb in zip(na[0], na[1], nb[1]):
                if len(ra) != len(rb):
                    return False
                for (ga, oa), (gb, ob) in zip(ra, rb):
                    if ga != gb or fwd.setdefault((ctx, ga, oa), ob) != ob or bwd.setdefault((ctx, gb, ob), oa) != oa:
                        return False
                # every instruction that moves the stack pointer opens a new naming context for sp-relative offsets
                if text.endswith(",FRAME") or text.endswith("]!") or re.search(r"\], #-?\d+$", text) or re.match(r"^(push|pop|call|leave)\b", text):
                    ctx += 1
        return True
    except Exception:
        return False


def arch_of(w):
    return "x64" if w.startswith("W3x64") or w == "W3c" else "x86" if w.startswith("W3x86") else "a64" if w.startswith("W3a64") else None


# -- child handling -----------------------------------------------------------------------------------------

MARK = re.compile(r"^@case (\S+) (\S+) (\S+) (\S+) (\d+) (\d+) (\d+)$")
FSITE = re.compile(r"^@fired (\d+)((?: \d+)+)$")
FRAME = re.compile(r"^\s+#(\d+) 0x[0-9a-f]+\s+\((\S+)\+0x([0-9a-f]+)\)")
DIED = re.compile(r"^@worker-died case=(\d+) status=(-?\d+) signal=(\d+)$")
EXITF = re.compile(r"^@worker-exit-failed first=(\d+) last=(\d+) status=(-?\d+) signal=(\d+)$")

SAN_EXTRA = {
    "ASAN_OPTIONS": common.SAN_ENV["ASAN_OPTIONS"] + ":symbolize=0",
    "UBSAN_OPTIONS": common.SAN_ENV["UBSAN_OPTIONS"] + ":symbolize=0",
}


def parse_report(lines):
    """Unsymbolised sanitizer report -> {kind, offs (driver-relative pcs of the first stack), text}."""
    kind = None
    offs = []
    in_first_stack = False
    for ln in lines:
        if kind is None:
            if "ERROR: AddressSanitizer" in ln or "ERROR: LeakSanitizer" in ln:
                kind = ln.split("ERROR:")[1].strip()
            elif "runtime error:" in ln:
                kind = "UBSan " + ln.split("runtime error:")[1].strip() + " @" + os.path.basename(ln.split(": runtime error:")[0])
            continue
        m = FRAME.match(ln)
        if m:
            if int(m.group(1)) == 0 and offs:
                break        # second stack (allocation / free site)
            in_first_stack = True
            if os.path.basename(m.group(2)) == "drv_oom":
                off = int(m.group(3), 16)
                offs.append(off + 1 if int(m.group(1)) == 0 else off)   # Symbolizer looks up pc-1
            else:
                offs.append(0)
        elif in_first_stack and not ln.strip():
            break
    if kind is None:
        return None
    kind = re.sub(r"0x[0-9a-f]+", "0x..", kind)
    return {"kind": kind[:300], "offs": offs[:12], "text": "\n".join(lines)[-2500:]}


def crash_kind(rep, text=""):
    k = rep["kind"] if rep else ""
    if "null pointer" in k:
        return "null-deref"
    if "SEGV" in k and re.search(r"unknown address 0x0000000000[0-9a-f]{2}\b|address 0x0+\b", text or ""):
        return "null-deref"
    for pat, name in (("heap-use-after-free", "use-after-free"), ("double-free", "double-free"), ("heap-buffer-overflow", "heap-overflow"),
                      ("SEGV", "segv"), ("LeakSanitizer", "lsan-leak"), ("stack-", "stack-error"), ("bad-free", "bad-free"),
                      ("negative-size", "negative-size-param"), ("UBSan", "ubsan")):
        if pat in k:
            return name
    return "abort"


class Runner:
    def __init__(self, chk, exe, seed):
        self.chk, self.exe, self.seed = chk, exe, seed
        self.sym = Symbolizer(exe)
        self.results = []       # driver summaries
        self.crashes = []       # dicts: w, cls, mode, pattern, argv (replay of the case alone), site, rep, confirmed
        self.children = 0

    def child(self, argv, timeout=1800):
        self.children += 1
        rc, out, err = common.run_child([self.exe] + argv, timeout=timeout, env=SAN_EXTRA)
        err = err.decode("utf-8", "replace")
        res = None
        try:
            line = out.decode().strip().splitlines()[-1]
            res = json.loads(line)
        except Exception:
            res = None
        return rc, res, err

    def base_args(self, w, cls, mode, seed=None):
        return ["--workload", w, "--class", cls, "--mode", mode, "--seed", str(self.seed if seed is None else seed)]

    def count(self, w, cold=False, seed=None):
        rc, res, err = self.child(self.base_args(w, "arena", "count", seed) + (["--cold"] if cold else []))
        if res is None or not res.get("harness_ok"):
            raise common.HarnessError("counting run of %s failed (rc=%s): %s" % (w, rc, err[-1500:]))
        return res

    def replay_argv(self, w, cls, mark, extra=(), seed=None):
        mode, pattern, style, strat = mark[2], mark[3], mark[5], mark[6]
        if mode == "pattern":
            return self.base_args(w, cls, "pattern", seed) + ["--pat", pattern, "--stop", style, "--strategy", strat]
        return self.base_args(w, cls, mode, seed) + ["--from", pattern, "--to", pattern] + list(extra)

    def scan(self, w, cls, err, extra=(), whole_process_died=False, range_argv=None, seed=None):
        """Walks the child's stderr: every case a sanitizer killed becomes a crash record."""
        found = []
        mark, site, buf = None, None, []
        for ln in err.splitlines():
            m = MARK.match(ln)
            if m:
                mark, site, buf = m.groups(), None, []
                continue
            m = FSITE.match(ln)
            if m:
                site = [int(x) for x in m.group(2).split()]
                continue
            if DIED.match(ln):
                if mark is None or mark[2] == "count":
                    raise common.HarnessError("a worker of %s/%s died outside an armed case: %s" % (w, cls, "\n".join(buf)[-1500:]))
                found.append({"w": w, "cls": cls, "mode": mark[2], "pattern": mark[3], "argv": self.replay_argv(w, cls, mark, extra, seed),
                              "site": site, "rep": parse_report(buf), "tail": "\n".join(buf)[-1500:]})
                mark, site, buf = None, None, []
                continue
            m = EXITF.match(ln)
            if m:
                found.append({"w": w, "cls": cls, "mode": "exit-check", "pattern": "%s..%s" % (m.group(1), m.group(2)), "argv": range_argv,
                              "site": None, "rep": parse_report(buf), "tail": "\n".join(buf)[-1500:], "exit_check": True})
                buf = []
                continue
            buf.append(ln)
        if whole_process_died:
            if mark is None or mark[2] == "count":
                raise common.HarnessError("driver for %s/%s died outside an armed case: %s" % (w, cls, err[-2000:]))
            found.append({"w": w, "cls": cls, "mode": mark[2], "pattern": mark[3], "argv": range_argv or self.replay_argv(w, cls, mark, extra, seed),
                          "site": site, "rep": parse_report(buf), "tail": "\n".join(buf)[-1500:]})
        self.crashes.extend(found)

    def run_job(self, w, cls, argv_tail, extra=(), seed=None):
        argv = self.base_args(w, cls, argv_tail[0], seed) + list(argv_tail[1:]) + list(extra)
        rc, res, err = self.child(argv)
        if res is not None and rc == 3:
            raise common.HarnessError("driver %s: harness self-check failed: %s" % (argv, err[-1500:]))
        if res is None:
            raise common.HarnessError("driver %s produced no summary (rc=%s): %s" % (argv, rc, err[-2000:]))
        res["seed"] = self.seed if seed is None else seed
        self.results.append(res)
        self.scan(w, cls, err, extra=extra, range_argv=argv, seed=seed)

    def run_cold(self, w, cls, k):
        argv = self.base_args(w, cls, "single") + ["--cold", "--from", str(k), "--to", str(k)]
        rc, res, err = self.child(argv)
        if res is not None and rc == 0:
            res["cold"] = True
            self.results.append(res)
            return
        if res is not None and rc == 3:
            raise common.HarnessError("driver %s: harness self-check failed: %s" % (argv, err[-1500:]))
        self.scan(w, cls, err, whole_process_died=True, range_argv=argv)

    def confirm(self, c):
        """Re-runs a killed case alone in a fresh process. True when it dies again."""
        if c.get("exit_check") or c["argv"] is None:
            return False
        rc, res, err = self.child(c["argv"])
        if res is None:
            return True
        return bool(res.get("workers_killed"))


def group_of(w):
    return w[:2]


def _merge_counts(dst, src):
    for k, v in src.items():
        if isinstance(v, dict):
            _merge_counts(dst.setdefault(k, {}), v)
        else:
            dst[k] = dst.get(k, 0) + v


def ctor_evidence(ctors):
    """Requests made inside constructors (bracketed by the workloads) and the cases whose refused request was one of them."""
    per = {}
    tot = {c: {"requests_inside_constructors_failure_free": 0, "refused_requests_inside_a_constructor": 0,
               "of_which_the_first_request_of_the_constructor": 0} for c in CLASSES}
    for (w, name), ent in sorted(ctors.items()):
        d = {}
        for i, c in enumerate(CLASSES):
            if ent["requests"][i] or ent["fired"][i]:
                d[c] = {"requests": ent["requests"][i], "refused_inside": ent["fired"][i], "refused_its_first_request": ent["fired_first"][i]}
                tot[c]["requests_inside_constructors_failure_free"] += ent["requests"][i]
                tot[c]["refused_requests_inside_a_constructor"] += ent["fired"][i]
                tot[c]["of_which_the_first_request_of_the_constructor"] += ent["fired_first"][i]
        if d:
            per["%s %s" % (w, name)] = d
    return {"refused_requests_per_class": tot, "per_constructor": per}


def ctor_first_request_gaps(ctors):
    """Constructors that make requests of a class in the failure-free run but never had their first request refused."""
    gaps = []
    for (w, name), ent in sorted(ctors.items()):
        for i, c in enumerate(CLASSES):
            if ent["requests"][i] and not ent["fired_first"][i]:
                gaps.append("%s %s (%s)" % (w, name, c))
    return gaps


def strmodel_evidence(sm, counts):
    """W8: what the String model observed, from the drivers' own counters."""
    if not sm:
        return {}
    run, failed = sm.get("run", {}), sm.get("failed", {})
    by_state, by_op = {}, {}
    for key, n in failed.items():
        st, op = key.split("/")
        by_state[st] = by_state.get(st, 0) + n
        by_op[op] = by_op.get(op, 0) + n
    return {
        "fault_points_enumerated_per_class": counts.get("W8", {}),
        "calls_checked_against_the_model": sm.get("ops", 0),
        "state_checks": sm.get("checks", 0),
        "calls_that_returned_an_error": sm.get("failed_calls", 0),
        "failed_calls_by_storage_at_the_call": sm.get("failed_by_storage", {}),
        "failed_calls_followed_by_growing_assign_and_append_with_memory_available": sm.get("continuations", 0),
        "calls_on_an_object_after_its_failed_call_same_run": sm.get("ops_after_failure", 0),
        "calls_on_such_an_object_in_the_retry": sm.get("ops_in_retry_after_failure", 0),
        "distinct_start_state_x_operation_executed": len(run),
        "distinct_start_state_x_operation_with_a_failed_call": len(failed),
        "failed_calls_by_start_state": by_state,
        "failed_calls_by_operation": by_op,
        "failed_growing_assign_on_heap_strings": {k: n for k, n in failed.items() if k.startswith("heap_") and "ASSIGN" in k and "GROW" in k},
    }


def run(tier, args):
    chk = common.Check("C15", tier, level="fault_enumeration")
    exe = build_exe()
    R = Runner(chk, exe, chk.seed)
    scale = args.scale
    counts, cold_counts = {}, {}

    if args.replay:
        rp = json.load(open(args.replay))
        argv = rp["case"]["argv"]
        w = argv[argv.index("--workload") + 1]
        cls = argv[argv.index("--class") + 1]
        if "--cold" in argv:
            R.run_cold(w, cls, int(argv[argv.index("--from") + 1]))
        else:
            mode = argv[argv.index("--mode") + 1]
            tail = [a for a in argv[argv.index("--mode") + 2:] if True]
            tail = [a for i, a in enumerate(argv) if i > argv.index("--mode") + 1 and not (a == "--seed" or argv[i - 1] == "--seed")]
            R.seed = int(argv[argv.index("--seed") + 1]) if "--seed" in argv else R.seed
            R.run_job(w, cls, [mode] + tail)
    else:
        # ---- 1. counting runs --------------------------------------------------------------------------------
        workloads = WORKLOADS
        cres = common.parallel_map(lambda w: (w, R.count(w)), workloads)
        counts = {w: r["N"] for w, r in cres}
        if sum(r["heap_wrapper_calls"] for w, r in cres) == 0 or not any(r["N"]["heap"] for w, r in cres):
            raise common.HarnessError("the malloc wrappers never saw a call: --wrap does not intercept asmjit in this build")
        cold_counts = dict(common.parallel_map(lambda w: (w, R.count(w, cold=True)["N"]), COLD))
        for w, r in cres:
            r["_count_only"] = True
            R.results.append(r)

        # ---- 2. job list ---------------------------------------------------------------------------------------
        jobs = []
        batch = 400
        shapes = [(chk.seed, counts)]
        if tier == "thorough":
            # the same enumeration for two more workload shapes (program sizes, register counts, ... derive from the seed)
            for extra_seed in (chk.seed + 1000, chk.seed + 2000):
                cr = common.parallel_map(lambda w: (w, R.count(w, seed=extra_seed)), workloads)
                shapes.append((extra_seed, {w: r["N"] for w, r in cr}))
        for sd, cnt in shapes:
            for w in workloads:
                for cls in CLASSES:
                    n = cnt[w][cls]
                    if not n:
                        continue
                    lim = n if scale >= 1 else max(1, int(n * scale))
                    for mode in ("single", "sticky", "twin"):
                        a = 1
                        while a <= lim:
                            b = min(lim, a + batch - 1)
                            jobs.append((b - a + 1, w, cls, [mode, "--from", str(a), "--to", str(b)], (), sd))
                            a = b + 1
                    npat = {"quick": 60, "thorough": 8000}[tier] if cls != "vm" else {"quick": 40, "thorough": 800}[tier]
                    npat = max(1, int(npat * scale))
                    if n >= 2:
                        chunk = 500
                        for skip in range(0, npat, chunk):
                            jobs.append((min(chunk, npat - skip), w, cls, ["pattern", "--cases", str(min(npat, skip + chunk)), "--skip", str(skip)], (), sd))
                    if tier == "thorough":
                        # every k once more as a caller that stops at the first error it sees
                        a = 1
                        while a <= lim:
                            b = min(lim, a + batch - 1)
                            jobs.append((b - a + 1, w, cls, ["single", "--from", str(a), "--to", str(b)], ("--stop", "1"), sd))
                            a = b + 1
        cold_jobs = [(w, "vm", k) for w in COLD for k in range(1, cold_counts[w]["vm"] + 1)]
        jobs.sort(key=lambda j: -j[0])

        def one(job):
            if len(job) == 3:
                R.run_cold(*job)
            else:
                R.run_job(job[1], job[2], job[3], extra=job[4], seed=job[5])

        import time as _t
        t_jobs = _t.time()
        common.parallel_map(one, jobs + cold_jobs)
        chk.note("jobs: %d (+%d cold) in %.1fs, children=%d, cases killed by a sanitizer=%d" % (len(jobs), len(cold_jobs), _t.time() - t_jobs, R.children, len(R.crashes)))

    # ---- 3. symbolise --------------------------------------------------------------------------------------------
    pcs = set()
    for res in R.results:
        for s in res.get("sites", []):
            pcs.update(p for p in s["pc"] if p)
        for v in res.get("violations", []):
            pcs.update(p for p in v["site"] if p)
    for c in R.crashes:
        if c["site"]:
            pcs.update(p for p in c["site"] if p)
        if c["rep"]:
            pcs.update(p for p in c["rep"]["offs"] if p)
    R.sym.resolve(pcs)

    # ---- 4. verdicts ----------------------------------------------------------------------------------------------
    by_key = {}
    for c in R.crashes:
        rep = c["rep"]
        kind = crash_kind(rep, c["tail"])
        crash_in = crash_function(R.sym, rep)
        if crash_in == "?" and c["site"]:
            # the report's stack has harness frames only: the caller touched, after the refused request, what the failed call left behind
            crash_in = "caller-after-failed-" + site_function(R.sym, c["site"])
        key = "%s:%s:%s:%s" % (crash_in, kind, c["cls"], group_of(c["w"]))
        by_key.setdefault(key, []).append(c)
    for key in sorted(by_key):
        lst = by_key[key]
        # prefer single-failure witnesses, smallest pattern; confirm the witness alone in a fresh process
        lst.sort(key=lambda c: (c["mode"] != "single", len(c["pattern"]), c["pattern"]))
        c = lst[0]
        alone = R.confirm(c) if not args.replay else True
        fn = site_function(R.sym, c["site"]) if c["site"] else "?"
        rep = c["rep"]
        what = ("%s, %s class, %s failure pattern %s (%d cases died like this): request failed in %s [%s]; then %s; stack: %s%s" %
                (c["w"], c["cls"], c["mode"], c["pattern"], len(lst), fn, site_chain(R.sym, c["site"] or []),
                 rep["kind"] if rep else "worker died without a report: " + c["tail"][-200:], report_frames(R.sym, rep),
                 "" if alone else " (did not die when re-run alone: depends on the preceding cases of its batch)"))
        chk.violation(key, what, None if args.replay else {"argv": c["argv"], "cases": len(lst)})

    equivalent_layouts = 0
    order = {"single": 0, "twin": 1, "sticky": 2, "pattern": 3}
    flat = [(order.get(v["mode"], 4), i, res, v) for i, res in enumerate(R.results) for v in res.get("violations", [])]
    flat.sort(key=lambda t: (t[0], t[2]["workload"], len(t[3]["pattern"]), t[3]["pattern"]))
    seen_kcg = set()
    for _, _, res, v in flat:
        if True:
            if v["kind"] in ("silent-wrong-output", "wrong-code-after-refused-call") and v.get("got_main") and arch_of(res["workload"]):
                if same_code_up_to_stack_layout(arch_of(res["workload"]), v["got_main"], v["clean_main"]):
                    equivalent_layouts += 1      # "completes correctly": spill slots were created in another order
                    continue
            fn = site_function(R.sym, v["site"]) if any(v["site"]) else "?"
            kcg = (v["kind"], v["class"], group_of(res["workload"]))
            if v.get("api") and not (v.get("api_first_kind") and v["mode"] != "single"):
                # the workload names the call whose post-condition failed (W8) / the one call that was refused (W1c, single failure):
                # that, not the first refused request, is the call site
                key = "%s:%s:%s:%s" % (v["api"], v["kind"], v["class"], group_of(res["workload"]))
            elif v["mode"] in ("pattern", "sticky") or v.get("api_first_kind"):
                # several failures: the first failed request says little about the cause; one key per (kind, class, group),
                # and only when no single-failure witness of the same kind exists there
                if kcg in seen_kcg:
                    continue
                key = "multi-failure:%s:%s:%s" % kcg
            elif v["kind"] == "wrong-release-call":
                key = "%s:%s:%s:%s" % (release_function(R.sym, v["site"]), v["kind"], v["class"], group_of(res["workload"]))
            elif v["kind"] in ("wrong-code-after-refused-call", "one-shot-state-survives-refused-emit", "refused-call-left-state-behind"):
                # the emitter method in progress (vaddps, mov, ...) says nothing: name the function whose failure path is at fault
                key = "%s:%s:%s:%s" % (fn, v["kind"], v["class"], group_of(res["workload"]))
            else:
                key = "%s:%s:%s:%s" % (api_function(R.sym, v["site"]) if any(v["site"]) else "?", v["kind"], v["class"], group_of(res["workload"]))
            seen_kcg.add(kcg)
            argv = ["--workload", res["workload"], "--class", v["class"], "--seed", str(res.get("seed", chk.seed))]
            if v["mode"] == "pattern":
                argv += ["--mode", "pattern", "--pat", v["pattern"]]
            else:
                argv += ["--mode", v["mode"], "--from", v["pattern"], "--to", v["pattern"]]
            if res.get("cold"):
                argv += ["--cold"]
            what = "%s, %s class, %s failure pattern %s: request failed in %s [%s]: %s" % (
                res["workload"], v["class"], v["mode"], v["pattern"], fn, site_chain(R.sym, v["site"]), v["what"])
            chk.violation(key, what, None if args.replay else {"argv": argv})

    # ---- 5. evidence ----------------------------------------------------------------------------------------------
    tot = {k: 0 for k in ("cases", "fired_cases", "reported", "tolerated", "not_fired", "retry_ok", "requests_failed", "continue_ok", "emits_refused",
                          "hugetlb_mmaps", "reinit_compiler_rounds_after_failure", "first_report_after_the_refusing_call_returned",
                          "static_arena_cases", "static_arena_cases_grown")}
    per = {}
    failing_sites = {}
    request_sites = set()
    errors = {}
    strmodel = {}
    cont, constpool, vm_releases = {}, {}, 0
    ra_targets = {t: 0 for t in RA_TARGETS}
    ctors = {}      # (workload, constructor) -> {"requests": [per class], "fired": [...], "fired_first": [...]}
    ctor_cases = {c: {"cases_first_refused_request_inside_a_constructor": 0, "of_which_the_first_request_of_that_constructor": 0} for c in CLASSES}
    for res in R.results:
        w, cls, mode = res["workload"], res["class"], res["mode"]
        if not res.get("_count_only"):
            for i, c in enumerate(CLASSES):
                ctor_cases[c]["cases_first_refused_request_inside_a_constructor"] += res.get("ctor_cases", [0, 0, 0])[i]
                ctor_cases[c]["of_which_the_first_request_of_that_constructor"] += res.get("ctor_cases_first_request", [0, 0, 0])[i]
        for name, c in res.get("ctors", {}).items():
            ent = ctors.setdefault((w, name), {"requests": [0, 0, 0], "fired": [0, 0, 0], "fired_first": [0, 0, 0]})
            if res.get("_count_only") and res.get("seed", chk.seed) == chk.seed:
                ent["requests"] = [max(a, b) for a, b in zip(ent["requests"], c["requests"])]
            elif not res.get("_count_only"):
                # (every child repeats the counting runs: its "requests" are the same numbers again)
                ent["fired"] = [a + b for a, b in zip(ent["fired"], c["fired"])]
                ent["fired_first"] = [a + b for a, b in zip(ent["fired_first"], c["fired_first"])]
        if not res.get("_count_only"):
            for k in tot:
                tot[k] += res.get(k, 0)
            _merge_counts(strmodel, res.get("strmodel", {}))
            _merge_counts(cont, {w: res["cont"]} if res.get("cont") else {})
            _merge_counts(constpool, res.get("constpool", {}))
            vm_releases += res.get("vm_releases_checked", 0)
            d = per.setdefault(w, {}).setdefault(cls, {})
            d[mode] = d.get(mode, 0) + res["cases"] + res.get("workers_killed", 0)
            for e, n in res.get("errors", {}).items():
                errors[e] = errors.get(e, 0) + n
        for s in res.get("sites", []):
            cname = CLASSES[s["c"]]
            chain = tuple(p for p in s["pc"] if p and not R.sym.cache.get(p, [("??", "??")])[0][0].startswith(HARNESS_FRAMES))
            fn = site_function(R.sym, s["pc"])
            if s["f"]:
                on_chain = {f for f, _ in R.sym.frames(s["pc"])}
                for t in RA_TARGETS:
                    if t in on_chain:
                        ra_targets[t] += s["n"]
                key = (group_of(w), cname, fn, chain[0] if chain else 0)
                ent = failing_sites.setdefault(key, {"n": 0, "workloads": set(), "chain": site_chain(R.sym, s["pc"])})
                ent["n"] += s["n"]
                ent["workloads"].add(w)
            else:
                request_sites.add((group_of(w), cname, fn, chain[0] if chain else 0))
    if not args.replay and scale >= 1:
        gaps = ctor_first_request_gaps(ctors)
        if gaps:
            raise common.HarnessError("the enumeration never refused the first request of: " + ", ".join(gaps))
        # every added dimension must have observed something
        seen_kinds = set()
        for w, d in cont.items():
            seen_kinds.update(k for k, n in d.get("refused_by_kind", {}).items() if n)
        missing = [k for k in CONT_KINDS if k not in seen_kinds]
        idle = [w for w in ("W1c", "W2c", "W3c") if not cont.get(w, {}).get("cases_with_refused_call")]
        if missing or idle or not tot["continue_ok"]:
            raise common.HarnessError("continue recovery (W1c/W2c): no call of kind %s was ever refused and skipped; workloads without a refused call: %s "
                                      "(cases compared with their reference: %d)" % (missing, idle, tot["continue_ok"]))
        for k in ("refused", "refused_with_padding_pending", "refused_with_gaps_registered", "adds_after_refused", "retries_of_refused", "checks"):
            if not constpool.get(k):
                raise common.HarnessError("ConstPool model (W5c): counter %s is zero" % k)
        if not vm_releases:
            raise common.HarnessError("no munmap / close / unlink of a tracked mapping, descriptor or name was checked")
        unreached = [t for t, n in ra_targets.items() if not n]
        if unreached:
            raise common.HarnessError("no refused request had %s on its call chain" % unreached)
        if not tot.get("hugetlb_mmaps"):
            raise common.HarnessError("no mmap(MAP_HUGETLB) request was seen: the large-page workloads did not reach VirtMem's large-page path")
        if not tot.get("static_arena_cases_grown"):
            raise common.HarnessError("no armed case ran on an arena that starts in static memory and grew behind it")
        if not tot.get("reinit_compiler_rounds_after_failure"):
            raise common.HarnessError("W1r never compiled a function with the Compiler after a refused request")
    distinct_fn = {(g, c, fn) for (g, c, fn, pc) in failing_sites}
    by_class = {}
    for (g, c, fn) in distinct_fn:
        by_class[c] = by_class.get(c, 0) + 1
    samples = []
    seen_gc = set()
    for (g, c, fn, pc), ent in sorted(failing_sites.items(), key=lambda kv: (kv[0][1], kv[0][0], -kv[1]["n"])):
        if (g, c) in seen_gc or len(samples) >= 10:
            continue
        seen_gc.add((g, c))
        samples.append({"workload_group": g, "class": c, "failed_request_in": fn, "call_chain": ent["chain"], "times_failed": ent["n"]})
    chk.coverage.update({
        "evaluations": tot["cases"] + len(R.crashes),
        "distinct_nontrivial": len(distinct_fn),
        "rule": "one evaluation = one workload run with one failure pattern armed (phase 1), followed by reset/reinit + retry on the same "
                "objects and destruction with balance checks; distinct_nontrivial = distinct (workload group, fault class, function "
                "containing the failed request - call chain of the failed request from backtrace(), symbolised with addr2line, generic "
                "allocation helpers skipped) in which a failure was really injected",
        "samples": samples,
        "N_requests_per_workload_and_class": counts,
        "N_vm_requests_cold_process": {w: n["vm"] for w, n in cold_counts.items()},
        "cases_by_workload_class_mode": per,
        "distinct_failing_call_sites_by_return_address": len(failing_sites),
        "distinct_failing_functions_by_class": by_class,
        "request_sites_in_failure_free_runs": len(request_sites),
        "cases_where_a_failure_fired": tot["fired_cases"],
        "cases_error_reported": tot["reported"],
        "cases_failure_tolerated_output_identical": tot["tolerated"],
        "cases_pattern_not_reached": tot["not_fired"],
        "cases_different_bytes_same_code_up_to_spill_slot_placement": equivalent_layouts,
        "data_behind_the_last_return_compared_bytewise_in_those_cases": dict(TAILS),
        "retries_identical_to_failure_free": tot["retry_ok"],
        "continue_mode_emit_calls_refused_and_skipped": tot["emits_refused"],
        "continue_mode_cases_identical_to_reference_without_the_refused_calls": tot["continue_ok"],
        "requests_failed_total": tot["requests_failed"],
        "first_error_codes_reported": errors,
        "cases_killed_by_sanitizer": len(R.crashes),
        "string_model_workload_W8": strmodel_evidence(strmodel, counts),
        "continue_recovery_every_call_kind_W1c_W2c": {
            "cases_with_a_refused_call": {w: d.get("cases_with_refused_call", 0) for w, d in cont.items()},
            "calls_made_after_a_refused_call_same_objects": {w: d.get("calls_after_refused", 0) for w, d in cont.items()},
            "refused_and_skipped_calls_by_kind": {w: d.get("refused_by_kind", {}) for w, d in cont.items()},
        },
        "constpool_model_W5c": {
            "add_calls": constpool.get("adds", 0),
            "refused_adds": constpool.get("refused", 0),
            "refused_adds_with_alignment_padding_pending": constpool.get("refused_with_padding_pending", 0),
            "refused_adds_with_gap_records_registered": constpool.get("refused_with_gaps_registered", 0),
            "adds_into_the_same_pool_after_a_refused_add": constpool.get("adds_after_refused", 0),
            "refused_constants_added_again": constpool.get("retries_of_refused", 0),
            "consistency_checks_fill_bounds_alignment": constpool.get("checks", 0),
            "pool_resets_with_the_arena_kept": constpool.get("pool_resets", 0),
        },
        "vm_release_calls_checked_length_result_repetition": vm_releases,
        "mmap_MAP_HUGETLB_requests_seen": tot["hugetlb_mmaps"],
        "armed_cases_on_an_arena_that_starts_in_static_memory": tot["static_arena_cases"],
        "of_which_had_heap_blocks_chained_behind_the_static_block": tot["static_arena_cases_grown"],
        "functions_compiled_in_W1r_after_a_refused_request_reinit_with_compiler": tot["reinit_compiler_rounds_after_failure"],
        "cases_first_report_came_from_a_later_call_than_the_refusing_one": tot["first_report_after_the_refusing_call_returned"],
        "refused_requests_below_register_allocator_special_paths": ra_targets,
        "constructors": dict(ctor_evidence(ctors), cases_per_class=ctor_cases),
        "child_processes": R.children,
        "exhaustive": False,
    })
    chk.assumptions += [
        "ASan+UBSan(+LSan at worker exit) build of /repo's working tree with -DASMJIT_VERIF; arena failures are injected through hook H1, heap "
        "and virtual-memory failures through link-time --wrap (checked at run time: the wrappers count asmjit's malloc calls under ASan)",
        "a request fails only while a workload's asmjit calls are in progress; munmap/close/unlink/free never fail (releases, only accounted)",
        "single and sticky enumeration cover EVERY k in 1..N of the failure-free run of each listed workload; exhaustive for these workloads "
        "and this seed's workload shapes only, not for all programs",
        "caller model: emission calls are not checked one by one (ErrorHandler + returned codes are recorded); before finalize / flatten / "
        "JitRuntime::add the caller stops if anything was reported; 'stop at first error' callers are the odd sticky k and the thorough tier",
        "process-wide lazily initialised state (CpuInfo::host, VirtMem::info, hardened-runtime and anonymous-memory-strategy detection) is warmed "
        "up before faults are injected, except in the 'cold' vm cases (one fresh process per k) of " + ",".join(COLD),
        "an unreported failure inside the register allocator that changes bytes is accepted as 'completes correctly' only if objdump / llvm-mc "
        "decode both images to the same instruction stream up to a bijective renaming of sp/fp-relative displacements; ConstPool offsets are "
        "judged semantically (aligned, content present), their exact values only in the retry",
        "W7 (continue recovery): an emit call that returns kOutOfMemory is skipped and the same emitter is used on; phase-1 output must equal "
        "a failure-free run on fresh objects that omits exactly those calls; after every refused emit inst_options()==kNone, no extra "
        "register and no inline comment may remain (Assembler, Builder, Compiler; x86-64)",
        "W1c / W2c (continue recovery for every kind of call, x86-64 Assembler / Builder+finalize; W1cst: holder over 2 KiB of static arena memory): "
        "a call refused with kOutOfMemory (new_section, new_label, new_named_label, section, align, embed, embed_label, embed_label_delta, "
        "embed_data_array, comment, emits with label / absolute-address operands) is dropped, the caller carries on with the same objects; the "
        "image, label offsets, section layout - or the error flatten / resolve_cross_section_fixups / relocate_to_base / copy_flattened_data return "
        "without a refused request inside them - must equal a failure-free run on fresh objects that omits exactly the refused calls; a refused "
        "new_named_label must not resolve by name to an id the holder does not have and is made again. Not judged: refusals of composite calls",
        "W3c: the same continue recovery for an x86-64 Compiler function (virtual registers, a stack area, labels, an invoke with register / "
        "immediate / stack arguments, instructions): what was refused is dropped with what needs it, finalize() runs with memory available, the "
        "image must equal the reference without those calls (or decode to the same code up to spill-slot placement); constants are not part of it",
        "W5c (ConstPool against a model, continue recovery): mixed sizes 1..64, equal and shared constants, two pool epochs over one arena; after a "
        "refused add() the caller goes on with the same pool (gives the constant up / adds it again / adds constants that fit the padding first / "
        "adds two of the padding's size afterwards); judged whether or not an error was reported: every accepted constant aligned, inside "
        "[0, size()), reproduced by fill(), fill() writes nothing behind size(), alignment() >= largest accepted constant. W5 judges its pool the same way",
        "who reports: when every request refused so far was refused in a call that has since returned, and the first thing the caller is told "
        "(returned error or ErrorHandler) is an error other than kOutOfMemory, the refusing call neither reported nor completed (violation "
        "failure-not-reported-by-the-failing-call); not applied when a request was refused inside a constructor (is_initialized() is the report)",
        "release calls are checked, not only counted: munmap of a tracked mapping must have the mmap length (page rounded) and return 0, no munmap "
        "inside a tracked mapping, no second close / unlink / shm_unlink of a descriptor / name asmjit obtained and released in the same case",
        "W3 additionally compiles: invoke arguments that are immediates (register and stack passed; 64-bit values; x86-32 all on the stack), float / "
        "double returned by the function itself (x86-32: st0, temporary memory), Win64 by-reference vector arguments (register passed only: a "
        "by-reference vector argument on the stack is refused with kInvalidAssignment - not a C15 matter), vp2intersectd (k, k+1) and AArch64 "
        "ld2 / st2 / tbl register lists (consecutive registers); W1r additionally reuses the holder with an x86::Compiler (reinit / reset + init + "
        "attach under failure, then a function with virtual registers is compiled); W1rst / W1cst / W5sst start their arena in static memory; "
        "W4large / W4largefill (mmap(MAP_HUGETLB) is served with regular pages by the wrapper: success path) / W4largefb and W9's seventh allocator "
        "(the real mmap decides: fall-back path) use kUseLargePages | kAlignBlockSizeToLargePage",
        "log text is compared in the retry only: logging is best effort and not part of 'the code'",
        "W9 (objects whose construction met the refused request; W4 likewise for its JitRuntime): JitAllocator x6 CreateParams (default, dual "
        "mapping, pools|fill|immediate release, dual|fill|custom pattern 128K/128, no padding|pools, dual|pools|immediate|no padding 64K/256), "
        "JitRuntime x2, CodeHolder()+init(), x86/a64 Assembler/Builder/Compiler constructed with the holder. The workloads bracket constructor "
        "calls; the evidence counts, per class, the cases whose refused request was inside one and was its first. Afterwards the same calls as "
        "in the failure-free run (alloc / write / query / shrink / scoped write / release / statistics, add / call / release, emit / bind / "
        "embed / finalize): an object that is not initialised must refuse (a constructor failure is learnt from is_initialized() and counts as "
        "reported); then a menu from the case RNG (nothing, reset soft, reset hard, twice, reset-calls-reset, calls-reset-calls-reset-reset), "
        "recover (reset as documented; a JitAllocator / JitRuntime that is not initialised is reset soft / hard / both or not at all, then "
        "replaced - there is no re-init API; CodeHolder::init + attach again), the same calls again, destruction. Not called on an empty "
        "CodeHolder: new_section / new_label_id (they do not look at is_initialized() on a fresh holder either)",
        "W8 (String / StringTmp<32|256> / ArenaString<16|32|64> against a std::string model): after kOk the object holds the model's content; after "
        "an error it holds what it held before the call (string.cpp obtains the new buffer before it touches the old one) - except a failed "
        "assign_format(), whose content is accepted as unspecified because _op_vformat() formats in place first; in every case data() != null, "
        "size() <= capacity() and data()[size()] == 0. After a failed call the same object is read completely, gets a growing assign and an append "
        "with memory available, and the script goes on (reset, re-assign, ...); 'stop at first error' callers reset / swap out / destroy it as it "
        "is. Start states: SSO, heap with capacity == size, heap after growth, heap with >= 128 bytes free, external (StringTmp), external with "
        ">= 128 bytes free, StringTmp moved to the heap; every script from every start state, then seeded free-running sequences",
        "the retry output is compared with the retry of a failure-free run using the same recover strategy (reset soft / reinit / reset hard); "
        "a reinit of a holder that never completed relocate_to_base() is compared with a first run (reinit keeps the base address: documented)",
        "neutralised in the harness because they are not allocation-failure matters (reported to the lead): BaseCompiler keeps _jump_annotations "
        "across reset/reinit (C16); a jump/call to a label already bound in ANOTHER section corrupts the label offset (C03); "
        "finalize()/serialize_to() on a builder without nodes dereferences null (C14); new_inst_node() leaves operands uninitialised",
    ]
    return chk.finish()
