"""C18 - arena-backed containers and strings behave like their abstract data types.

Runtime monitor: drv_containers (ASan+UBSan build, fault hook H1) runs random operation scripts that interleave
ArenaVector/ArenaHash/ArenaTree/ArenaList/ArenaBitSet/bit_vector_* primitives/ArenaPool/ArenaString/String and raw
arena blocks on ONE Arena, compares every container with its std:: model after every step, walks the structural
invariants and keeps a live-block interval map. This module shards the scripts, restarts a shard behind a script that
died under a sanitizer, merges what the monitors saw and turns it into a verdict.

Round 11 additions (all in the same driver): operations whose argument is the container itself, move construction of hash/tree/
list, impossible sizes for Arena/ArenaBitSet/String (overflow guards and sizes that malloc itself refuses), bit primitives on
32-bit words and the BitOps span helpers, directed scripts above Globals::kGrowThreshold and over the hash prime table
(--directed 1 on a spread of shards), and shards whose allocator refuses everything above 1 MiB (--real-oom 1). Every
dimension has a measured counter with a floor: a run in which one of them observed nothing is inconclusive (exit 2)."""
import json
import re

from vlib import build, common

MAX_RESTARTS = 40


def make_jobs(tier, seed, scale):
    """(scripts, max_ops) shards; every shard gets its own seed drawn from the run seed."""
    rng = common.Rng(seed).fork("c18")
    plan = []
    if tier == "quick":
        plan += [(int(250 * scale) or 1, 500)] * 64        # the bulk: 16 000 scripts of up to 500 ops
        plan += [(int(400 * scale) or 1, 40)] * 16         # many short scripts (10..40 ops)
        plan += [(int(5 * scale) or 1, 10000)] * 16        # a few long ones (up to 10^4 ops)
    else:
        plan += [(int(800 * scale) or 1, 500)] * 256
        plan += [(int(2000 * scale) or 1, 40)] * 32
        plan += [(int(150 * scale) or 1, 2000)] * 64
        plan += [(int(12 * scale) or 1, 10000)] * 96
    jobs = []
    for scripts, max_ops in plan:
        jobs.append(["--mode", "random", "--scripts", str(scripts), "--max-ops", str(max_ops),
                     "--seed", str(rng.next() % (1 << 40))])
    # shards whose allocator refuses every malloc above 1 MiB (see child_env): long scripts, so that the arena wants blocks
    # of that size and malloc really returns null inside Arena::_alloc_oneshot/_alloc_reusable on the ordinary paths
    real = [(int(12 * scale) or 1, 10000)] * 8 if tier == "quick" else [(int(40 * scale) or 1, 10000)] * 24
    for scripts, max_ops in real:
        jobs.append(["--mode", "random", "--scripts", str(scripts), "--max-ops", str(max_ops),
                     "--seed", str(rng.next() % (1 << 40)), "--real-oom", "1"])
    # longest first so that the tail of the pool is short
    jobs.sort(key=lambda a: -int(a[3]) * int(a[5]))
    # directed scripts (containers above Globals::kGrowThreshold, hash prime table up to 10^6..10^7 buckets) ride on a spread of the
    # shards: each costs ~100-300 MB and ~1 s, so 16 (quick) / 32 (thorough) of them with different seeds
    want = 16 if tier == "quick" else 32
    plain = [j for j in jobs if "--real-oom" not in j]
    step = max(1, len(plain) // want)
    for i in range(len(plain) - 1, -1, -step):
        plain[i] += ["--directed", "1", "--prime-max", "42" if tier == "quick" else "48"]
    return jobs


def child_env(argv):
    """Environment of one shard: the --real-oom shards get an allocator limit of 1 MiB on top of the common sanitizer options."""
    if "--real-oom" not in argv:
        return None
    return {"ASAN_OPTIONS": common.SAN_ENV["ASAN_OPTIONS"] + ":max_allocation_size_mb=1"}


def sanitizer_key(rep):
    """Stable key for a sanitizer report: tool + error class + innermost asmjit function (no addresses, numbers, paths)."""
    kind = rep["kind"]
    m = re.match(r"(\w+Sanitizer): ([A-Za-z_\- ]+?)(?: on | in |:|\[|\(|$)", kind)
    if m:
        cls = "%s: %s" % (m.group(1), m.group(2).strip())
    else:
        cls = re.sub(r"0x[0-9a-fA-F]+|\d+", "N", kind.split(" @")[0])[:70]
    top = next((f for f in rep["frames"] if "asmjit" in f), rep["frames"][0] if rep["frames"] else "?")
    m2 = re.search(r"((?:asmjit::|Arena|String)[\w:~]*)", top.split(" /")[0])
    fn = m2.group(1) if m2 else top.split(" /")[0].split("(")[0].split(" ")[-1]
    fn = fn[:80]
    return "sanitizer:%s:%s" % (cls, fn)


def last_script(stderr):
    idx = None
    for line in stderr.decode("utf-8", "replace").splitlines():
        if line.startswith("@script "):
            try:
                idx = int(line.split()[1])
            except ValueError:
                pass
    return idx


def run(tier, args):
    chk = common.Check("C18", tier)
    exe = build.build_driver("drv_containers", "asan")
    if args.replay:
        rp = json.load(open(args.replay))
        jobs = [rp["case"]["argv"]]
    else:
        jobs = make_jobs(tier, chk.seed, args.scale)

    def one(argv):
        """Runs one shard to completion; a script that dies under a sanitizer is reported and skipped."""
        results, crashes = [], []
        cur = list(argv)
        for _ in range(MAX_RESTARTS):
            rc, out, err = common.run_child([exe] + cur, timeout=3000, env=child_env(cur))
            rep = common.sanitizer_report(err)
            res = None
            try:
                res = json.loads(out.decode().strip().splitlines()[-1])
            except Exception:
                res = None
            if res is not None:
                results.append(res)
                if rep:
                    crashes.append((rep, None))
                break
            if not rep:
                raise common.HarnessError("driver %s rc=%s produced no summary: %s" % (cur, rc, err[-600:]))
            died = last_script(err)
            crashes.append((rep, died))
            if died is None or "--only" in cur:
                break
            cur = [a for a in argv]
            cur += ["--from", str(died + 1)]
        return argv, results, crashes

    ctr_keys = ["scripts", "nontrivial_scripts", "ops_total", "compares", "walks", "arena_walks", "inj_armed", "inj_fired",
                "arena_requests", "resets_soft", "resets_hard", "reuse_observed", "static_arenas", "skip_events", "stamp_bytes",
                "huge_rejected", "sso_to_heap", "fmt_exact_fit"]
    tot = {k: 0 for k in ctr_keys}
    extra = {}
    mx = {"max_blocks": 0, "max_live_blocks": 0}
    fam, names = {}, {}
    distinct = set()
    distinct_all = 0
    samples = []
    viol_counts = {}
    for argv, results, crashes in common.parallel_map(one, jobs):
        base = [a for a in argv]
        if "--only" in base:
            i = base.index("--only")
            base = base[:i] + base[i + 2:]
        for rep, died in crashes:
            key = sanitizer_key(rep)
            replay = base + (["--only", str(died)] if died is not None else [])
            chk.violation(key, "sanitizer report in script %s of shard %s: %s %s" % (died, argv, rep["kind"], rep["frames"][:6]),
                          {"argv": replay})
        for res in results:
            for v in res["violations"]:
                viol_counts[v["key"]] = viol_counts.get(v["key"], 0) + v.get("count", 1)
                chk.violation(v["key"], v["what"], {"argv": base + ["--only", str(v["script"]), "--verbose"]})
            for k in ctr_keys:
                tot[k] += res[k]
            for k in mx:
                mx[k] = max(mx[k], res[k])
            for k, v in res["ops_by_family"].items():
                fam[k] = fam.get(k, 0) + v
            for k, v in res.get("extra", {}).items():
                extra[k] = max(extra.get(k, 0), v) if k == "prime_indices" else extra.get(k, 0) + v
            for k, v in res["ops_by_name"].items():
                names[k] = names.get(k, 0) + v
            distinct.update(res["distinct"])
            distinct_all += res["distinct_all"]
            if len(samples) < 4 and res["samples"]:
                samples.append(res["samples"][0])

    chk.coverage.update({
        "evaluations": tot["scripts"],
        "distinct_nontrivial": len(distinct),
        "rule": "one evaluation = one operation script (10..10^4 ops) on containers sharing one Arena, every touched container "
                "compared with its std:: model after each step; distinct = distinct fnv1a hash of the executed (container, op, "
                "arguments) sequence; non-trivial = operations on >= 3 container families interleaved (>= 6 switches between "
                "families) in that script",
        "samples": samples,
        "operations_total": tot["ops_total"],
        "operations_by_container_family": fam,
        "operations_by_name": names,
        "model_comparisons": tot["compares"],
        "structural_invariant_walks": tot["walks"],
        "arena_block_list_walks": tot["arena_walks"],
        "arena_requests_seen_by_hook": tot["arena_requests"],
        "injected_failures_armed": tot["inj_armed"],
        "injected_failures_fired": tot["inj_fired"],
        "impossible_size_requests_rejected": tot["huge_rejected"],
        "arena_soft_resets": tot["resets_soft"],
        "arena_hard_resets": tot["resets_hard"],
        "scripts_on_static_buffer_arenas": tot["static_arenas"],
        "soft_reset_block_skips_observed": tot["skip_events"],
        "released_memory_reuse_observed": tot["reuse_observed"],
        "live_block_stamp_bytes_verified": tot["stamp_bytes"],
        "string_small_to_heap_transitions": tot["sso_to_heap"],
        "string_format_exact_fit_cases": tot["fmt_exact_fit"],
        # round 11 dimensions
        "self_aliased_string_ops": extra.get("self_alias_string", 0),            # s.append(s) / s.assign(s) / s.assign(s.data()+k, n)
        "self_aliased_string_appends_that_must_grow": extra.get("self_alias_string_grow", 0),
        "self_aliased_vector_ops": extra.get("self_alias_vector", 0),            # concat / concat_unchecked / assign_unchecked with itself
        "self_aliased_bitset_ops": extra.get("self_alias_bitset", 0),            # and_/and_not/or_/copy_from with itself
        "self_swaps": extra.get("self_swaps", 0),
        "operations_probed_in_forked_child": extra.get("child_probes", 0),
        "forked_probes_ended_by_sanitizer": extra.get("child_probe_deaths", 0),
        "hash_move_constructions": extra.get("moves_hash", 0),
        "hash_move_constructions_with_embedded_bucket": extra.get("moves_hash_embedded", 0),
        "tree_move_constructions": extra.get("moves_tree", 0),
        "list_move_constructions": extra.get("moves_list", 0),
        "impossible_size_requests_rejected_arena": extra.get("huge_arena", 0),
        "impossible_size_requests_rejected_bitset": extra.get("huge_bitset", 0),
        "impossible_size_requests_rejected_string": extra.get("huge_string", 0),
        "requests_refused_by_malloc_itself": extra.get("malloc_refused", 0),     # sizes of 2^41..2^63 bytes: past the guards, malloc says no
        "arena_requests_refused_by_malloc_with_retained_blocks": extra.get("malloc_refused_after_soft_reset", 0),
        "vector_growths_above_grow_threshold": extra.get("big_vec_growths", 0),
        "string_growths_above_grow_threshold": extra.get("big_string_growths", 0),
        "bitset_growths_above_grow_threshold": extra.get("big_bitset_growths", 0),
        "bytes_verified_in_containers_above_grow_threshold": extra.get("big_bytes_verified", 0),
        "bitops_span_helper_calls": extra.get("bitops_calls", 0),
        "bit_primitive_ops_on_32bit_words": extra.get("bitvec32_ops", 0),
        "bit_word_iterator_runs": extra.get("bitword_iter", 0),
        "scripts_run_with_1MiB_malloc_limit": extra.get("real_oom_scripts", 0),
        "real_malloc_failures_inside_arena_reported_cleanly": extra.get("real_oom_failures", 0),
        "hash_prime_indices_evaluated": extra.get("prime_indices", 0),
        "hash_bucket_index_range_checks": extra.get("calc_mod_checks", 0),
        "hash_growths_triggered_by_insert": extra.get("natural_rehashes", 0),
        "small_api_checks": extra.get("small_api_checks", 0),
        "max_managed_blocks": mx["max_blocks"],
        "max_live_blocks_in_interval_map": mx["max_live_blocks"],
        "distinct_scripts_all": distinct_all,
        "violation_occurrences_by_key": viol_counts,
        "exhaustive": False,
        "shards": len(jobs),
    })
    if not args.replay:
        # every dimension must have been observed, otherwise the run says nothing about it: inconclusive, not "held"
        floors = ["self_alias_string", "self_alias_string_grow", "self_alias_vector", "self_alias_bitset", "self_swaps", "child_probes",
                  "moves_hash", "moves_hash_embedded", "moves_tree", "moves_list", "huge_arena", "huge_bitset", "huge_string",
                  "malloc_refused", "malloc_refused_after_soft_reset", "big_vec_growths", "big_string_growths", "big_bitset_growths",
                  "bitops_calls", "bitvec32_ops", "bitword_iter", "prime_indices", "calc_mod_checks", "natural_rehashes", "small_api_checks", "real_oom_scripts", "real_oom_failures"]
        dead = [k for k in floors if not extra.get(k)]
        if dead and not chk.violations:
            raise common.HarnessError("dimension(s) never observed in this run: %s" % ", ".join(dead))
    chk.assumptions += [
        "ASan/UBSan instrumented static build of /repo's working tree with -DASMJIT_VERIF; allocation failures come from three "
        "sources: hook H1 (asmjit_verif_arena_fail_fn, refuses at the front door), requests of 2^41..2^63 bytes that ASan's malloc "
        "refuses by itself (allocator_may_return_null=1; reaches the code behind the guards in Arena and String), and the "
        "--real-oom shards whose allocator refuses everything above 1 MiB (max_allocation_size_mb=1: Arena only, String stays small)",
        "an operation whose argument is the container itself (s.append(s), s.assign(s), s.assign(s.data()+k,n), v.concat(v), "
        "b.and_not(b), x.swap(x), ...) must give what the textbook type gives; String's self-aliased calls run in a forked copy of "
        "the driver first so that a sanitizer abort is reported once (key string:<op>-self:<asan class>) without losing the shard",
        "moved-from objects are not judged (only ArenaVector and String promise an empty source and are checked for it); the "
        "move-constructed object must hold the content after the source object's storage has been overwritten",
        "ArenaVector::operator=(ArenaVector&&), ArenaHash(ArenaHash&&) and BitOps::set_bit/clear_bit/or_bit/xor_bit cannot be "
        "instantiated (compile errors in the headers), so they cannot be driven; the hash move path is driven through "
        "ArenaHashBase(ArenaHashBase&&)",
        "hash bucket growth on insert is a performance matter: it is measured (coverage floor), not judged; for the prime table "
        "the oracle is _calc_mod(h) < bucket count (equivalent to h % count for a reciprocal) for prime indices 0..42 (quick) / "
        "0..48 (thorough); higher indices would need > 100 MB bucket arrays and are not reached",
        "a conversion failure inside vsnprintf (%ls with a wide character that has no multibyte form in the C locale) must be "
        "reported; a failed append must keep the content, a failed assign may keep it or leave the empty string",
        "the integer-formatting oracle encodes: sign, then '0'/'0x' prefix (kAlternate), then zero padding to `width` digits "
        "(width clamped to 256), then upper-case digits; bases other than 0/2/8/10/16 must be refused",
        "ArenaHash may hold duplicate keys: get() may return any node stored under the key; a refused rehash is tolerated (the "
        "table only degrades) as the source documents",
        "freed arena blocks are recognised through ASan's poisoning (quarantine keeps them poisoned); after reporting a dangling "
        "block link the harness repairs the link to keep exploring the rest of the script",
        "requests of >= 2^32 elements / near SIZE_MAX bytes are only issued where an overflow guard or the allocator must refuse "
        "them; bit sets of 2^32..2^44 bits are not attempted (no guard of its own for the 32-bit size field, memory would be real); "
        "Arena::dup(data, huge) is not attempted (the caller would have to own that many bytes)",
    ]
    return chk.finish()
