"""C18 - arena-backed containers and strings behave like their abstract data types.

Runtime monitor: drv_containers (ASan+UBSan build, fault hook H1) runs random operation scripts that interleave
ArenaVector/ArenaHash/ArenaTree/ArenaList/ArenaBitSet/bit_vector_* primitives/ArenaPool/ArenaString/String and raw
arena blocks on ONE Arena, compares every container with its std:: model after every step, walks the structural
invariants and keeps a live-block interval map. This module shards the scripts, restarts a shard behind a script that
died under a sanitizer, merges what the monitors saw and turns it into a verdict."""
import json
import re

from vlib import build, common

MAX_RESTARTS = 40


def make_jobs(tier, seed, scale):
    """(scripts, max_ops) shards; every shard gets its own seed drawn from the run seed."""
    rng = common.Rng(seed).fork("c18")
    plan = []
    if tier == "quick":
        plan += [(int(250 * scale) or 1, 500)] * 64        # the bulk: 16 000 scripts of up to 500 ops
        plan += [(int(400 * scale) or 1, 40)] * 16         # many short scripts (10..40 ops)
        plan += [(int(5 * scale) or 1, 10000)] * 16        # a few long ones (up to 10^4 ops)
    else:
        plan += [(int(800 * scale) or 1, 500)] * 256
        plan += [(int(2000 * scale) or 1, 40)] * 32
        plan += [(int(150 * scale) or 1, 2000)] * 64
        plan += [(int(12 * scale) or 1, 10000)] * 96
    jobs = []
    for scripts, max_ops in plan:
        jobs.append(["--mode", "random", "--scripts", str(scripts), "--max-ops", str(max_ops),
                     "--seed", str(rng.next() % (1 << 40))])
    # longest first so that the tail of the pool is short
    jobs.sort(key=lambda a: -int(a[3]) * int(a[5]))
    return jobs


def sanitizer_key(rep):
    """Stable key for a sanitizer report: tool + error class + innermost asmjit function (no addresses, numbers, paths)."""
    kind = rep["kind"]
    m = re.match(r"(\w+Sanitizer): ([A-Za-z_\- ]+?)(?: on | in |:|\[|\(|$)", kind)
    if m:
        cls = "%s: %s" % (m.group(1), m.group(2).strip())
    else:
        cls = re.sub(r"0x[0-9a-fA-F]+|\d+", "N", kind.split(" @")[0])[:70]
    top = next((f for f in rep["frames"] if "asmjit" in f), rep["frames"][0] if rep["frames"] else "?")
    m2 = re.search(r"((?:asmjit::|Arena|String)[\w:~]*)", top.split(" /")[0])
    fn = m2.group(1) if m2 else top.split(" /")[0].split("(")[0].split(" ")[-1]
    fn = fn[:80]
    return "sanitizer:%s:%s" % (cls, fn)


def last_script(stderr):
    idx = None
    for line in stderr.decode("utf-8", "replace").splitlines():
        if line.startswith("@script "):
            try:
                idx = int(line.split()[1])
            except ValueError:
                pass
    return idx


def run(tier, args):
    chk = common.Check("C18", tier)
    exe = build.build_driver("drv_containers", "asan")
    if args.replay:
        rp = json.load(open(args.replay))
        jobs = [rp["case"]["argv"]]
    else:
        jobs = make_jobs(tier, chk.seed, args.scale)

    def one(argv):
        """Runs one shard to completion; a script that dies under a sanitizer is reported and skipped."""
        results, crashes = [], []
        cur = list(argv)
        for _ in range(MAX_RESTARTS):
            rc, out, err = common.run_child([exe] + cur, timeout=3000)
            rep = common.sanitizer_report(err)
            res = None
            try:
                res = json.loads(out.decode().strip().splitlines()[-1])
            except Exception:
                res = None
            if res is not None:
                results.append(res)
                if rep:
                    crashes.append((rep, None))
                break
            if not rep:
                raise common.HarnessError("driver %s rc=%s produced no summary: %s" % (cur, rc, err[-600:]))
            died = last_script(err)
            crashes.append((rep, died))
            if died is None or "--only" in cur:
                break
            cur = [a for a in argv]
            cur += ["--from", str(died + 1)]
        return argv, results, crashes

    ctr_keys = ["scripts", "nontrivial_scripts", "ops_total", "compares", "walks", "arena_walks", "inj_armed", "inj_fired",
                "arena_requests", "resets_soft", "resets_hard", "reuse_observed", "static_arenas", "skip_events", "stamp_bytes",
                "huge_rejected", "sso_to_heap", "fmt_exact_fit"]
    tot = {k: 0 for k in ctr_keys}
    mx = {"max_blocks": 0, "max_live_blocks": 0}
    fam, names = {}, {}
    distinct = set()
    distinct_all = 0
    samples = []
    viol_counts = {}
    for argv, results, crashes in common.parallel_map(one, jobs):
        base = [a for a in argv]
        if "--only" in base:
            i = base.index("--only")
            base = base[:i] + base[i + 2:]
        for rep, died in crashes:
            key = sanitizer_key(rep)
            replay = base + (["--only", str(died)] if died is not None else [])
            chk.violation(key, "sanitizer report in script %s of shard %s: %s %s" % (died, argv, rep["kind"], rep["frames"][:6]),
                          {"argv": replay})
        for res in results:
            for v in res["violations"]:
                viol_counts[v["key"]] = viol_counts.get(v["key"], 0) + v.get("count", 1)
                chk.violation(v["key"], v["what"], {"argv": base + ["--only", str(v["script"]), "--verbose"]})
            for k in ctr_keys:
                tot[k] += res[k]
            for k in mx:
                mx[k] = max(mx[k], res[k])
            for k, v in res["ops_by_family"].items():
                fam[k] = fam.get(k, 0) + v
            for k, v in res["ops_by_name"].items():
                names[k] = names.get(k, 0) + v
            distinct.update(res["distinct"])
            distinct_all += res["distinct_all"]
            if len(samples) < 4 and res["samples"]:
                samples.append(res["samples"][0])

    chk.coverage.update({
        "evaluations": tot["scripts"],
        "distinct_nontrivial": len(distinct),
        "rule": "one evaluation = one operation script (10..10^4 ops) on containers sharing one Arena, every touched container "
                "compared with its std:: model after each step; distinct = distinct fnv1a hash of the executed (container, op, "
                "arguments) sequence; non-trivial = operations on >= 3 container families interleaved (>= 6 switches between "
                "families) in that script",
        "samples": samples,
        "operations_total": tot["ops_total"],
        "operations_by_container_family": fam,
        "operations_by_name": names,
        "model_comparisons": tot["compares"],
        "structural_invariant_walks": tot["walks"],
        "arena_block_list_walks": tot["arena_walks"],
        "arena_requests_seen_by_hook": tot["arena_requests"],
        "injected_failures_armed": tot["inj_armed"],
        "injected_failures_fired": tot["inj_fired"],
        "impossible_size_requests_rejected": tot["huge_rejected"],
        "arena_soft_resets": tot["resets_soft"],
        "arena_hard_resets": tot["resets_hard"],
        "scripts_on_static_buffer_arenas": tot["static_arenas"],
        "soft_reset_block_skips_observed": tot["skip_events"],
        "released_memory_reuse_observed": tot["reuse_observed"],
        "live_block_stamp_bytes_verified": tot["stamp_bytes"],
        "string_small_to_heap_transitions": tot["sso_to_heap"],
        "string_format_exact_fit_cases": tot["fmt_exact_fit"],
        "max_managed_blocks": mx["max_blocks"],
        "max_live_blocks_in_interval_map": mx["max_live_blocks"],
        "distinct_scripts_all": distinct_all,
        "violation_occurrences_by_key": viol_counts,
        "exhaustive": False,
        "shards": len(jobs),
    })
    chk.assumptions += [
        "ASan/UBSan instrumented static build of /repo's working tree with -DASMJIT_VERIF; allocation failures are injected only "
        "through hook H1 (asmjit_verif_arena_fail_fn); String uses malloc directly, so only its overflow guards are exercised",
        "the integer-formatting oracle encodes: sign, then '0'/'0x' prefix (kAlternate), then zero padding to `width` digits "
        "(width clamped to 256), then upper-case digits; bases other than 0/2/8/10/16 must be refused",
        "ArenaHash may hold duplicate keys: get() may return any node stored under the key; a refused rehash is tolerated (the "
        "table only degrades) as the source documents",
        "freed arena blocks are recognised through ASan's poisoning (quarantine keeps them poisoned); after reporting a dangling "
        "block link the harness repairs the link to keep exploring the rest of the script",
        "requests of >= 2^32 elements / near SIZE_MAX bytes are only issued where an overflow guard must refuse them; bit sets "
        "of >= 2^32 bits are not attempted (512 MiB per try)",
    ]
    return chk.finish()
