"""C06 - Arguments and return values follow the target calling convention.

Runtime monitor in three workloads (see DESIGN.md "C06"):
  A  classification: drv_func --mode classify prints FuncDetail's answer for generated signatures; the oracle is what
     gcc 12 and clang 14 really do with the same C signature (vlib/abiprobe.py), ambiguous signatures excluded.
  B  native interop on the host (x86-64): x86::Compiler invoke -> gcc-compiled C callees, C callers -> JIT functions,
     SysV and ms_abi; light-call conventions as JIT caller/JIT callee pairs. Every JIT function is entered through a
     guard thunk that loads the callee-saved registers of its convention with sentinels and compares them (and rsp)
     after the return.
  C  entry shuffling: random FuncArgsAssignment, emit_prolog + emit_args_assignment executed natively on x86-64 and
     (through a 64->32 far-call gate) on x86-32 with a full machine image; after the return the trampoline dumps the
     register file again: the preserved set of the convention must hold what it held at the call, sp must be back.
     An enumerated sub-workload (drv_func --savar) walks {SA register: default / each callee-saved GP / a scratch} x
     {dynamic alignment} x {preserved FP} per convention for signatures with stack arguments, plus i386 conventions
     whose scratch registers all hold arguments. The emitted bytes of every case (x86-64, x86-32, AArch64) are also
     disassembled by objdump / llvm-objdump and executed symbolically here; the same text gives the static rule
     `a preserved register written by the prolog / argument shuffle is in FuncFrame::saved_regs() and was stored before`.
  D  call sites (drv_func --mode invoke): for every target (x86-64, x86-32, AArch64 Linux and Apple) and every convention a Compiler
     function of convention A loads values, invokes a callee of convention B (registers, stack, by reference, immediates, variadic,
     register or immediate target), stores the returned value and some of the arguments again, and returns a value of its own.
     The bytes are disassembled and executed symbolically: at the call instruction every location FuncDetail names must hold its
     argument, sp is aligned, no store leaves the call area; the call then changes everything the callee's ABI lets it change;
     at the return the bound return registers, the values used after the call, the caller's own return value, its preserved
     registers (ABI table) and sp are compared. B runs the x86-64 part of this natively as well (values live across calls, a JIT
     function of one convention calling a helper of the other that really changes every volatile register, register targets).
     Refused call sites / functions are keyed by what in the signature explains the refusal.
"""
import json
import os
import re
import subprocess
import tempfile

from vlib import abiprobe as ap
from vlib import build, common

# ---------------------------------------------------------------------------------------------
# Workload A: signatures
# ---------------------------------------------------------------------------------------------

FULL = ["i8", "u8", "i16", "u16", "i32", "u32", "i64", "u64", "f32", "f64", "f32x4", "i32x4", "f64x2",
        "f32x8", "i32x8", "f32x16", "mmx64", "f32x2", "k16"]
RED = ["i32", "i64", "i8", "u16", "f32", "f64", "f32x4", "f32x8"]
A64_FULL = ["i8", "u8", "i16", "u16", "i32", "u32", "i64", "u64", "f32", "f64", "f32x4", "i32x4", "f64x2", "f32x2", "i8x8", "i32x2"]
A64_RED = ["i32", "i64", "i8", "u16", "f32", "f64", "f32x4", "f32x2"]
VA_TYPES_ALL = ["i32", "i64", "f64", "f32x4", "u32", "f32x8"]
RAND_POOL = ["i8", "u8", "i16", "u16", "i32", "i32", "u32", "i64", "i64", "u64", "f32", "f32", "f64", "f64",
             "f32x4", "f32x4", "i32x4", "f64x2", "f32x8", "i32x8", "f32x16", "mmx64", "f32x2", "k8", "k16", "k32", "k64"]
A64_RAND_POOL = ["i8", "u8", "i16", "u16", "i32", "i32", "u32", "i64", "i64", "u64", "f32", "f32", "f64", "f64",
                 "f32x4", "f32x4", "i32x4", "f64x2", "f32x2", "i8x8"]

# (environment, convention, varargs supported, weight of the enumerated part)
CONVS = [
    ("x64-linux", "sysv64", True, 1.0), ("x64-linux", "win64", True, 1.0), ("x64-win", "cdecl", False, 0.15),
    ("x64-win", "vectorcall", False, 1.0), ("x64-linux", "stdcall", False, 0.05),
    ("x86-linux", "cdecl", True, 1.0), ("x86-linux", "stdcall", False, 1.0), ("x86-linux", "fastcall", False, 1.0),
    ("x86-linux", "regparm1", False, 0.5), ("x86-linux", "regparm2", False, 0.5), ("x86-linux", "regparm3", False, 1.0),
    ("x86-win", "thiscall", False, 1.0), ("x86-win", "vectorcall", False, 0.5), ("x86-win", "cdecl", True, 0.3),
    ("x86-win", "stdcall", False, 0.3), ("x86-win", "fastcall", False, 0.3),
    ("a64-linux", "cdecl", True, 1.0), ("a64-apple", "cdecl", True, 1.0),
    ("x64-linux", "lightcall2", False, 0.2), ("x64-linux", "lightcall3", False, 0.2), ("x64-linux", "lightcall4", False, 0.2),
    ("x86-linux", "lightcall2", False, 0.2), ("x86-linux", "lightcall3", False, 0.2), ("x86-linux", "lightcall4", False, 0.2),
]


def conv_key(env, conv):
    if env.startswith("x64"):
        if conv == "vectorcall":
            return "vectorcall64"
        if conv.startswith("lightcall"):
            return "x64-" + conv
        if conv == "win64" or (env == "x64-win" and conv != "sysv64"):
            return "win64"
        return "sysv64"
    if env == "x86-linux":
        return "x86-" + conv
    if env == "x86-win":
        return "x86win-" + conv
    if conv.startswith("lightcall"):
        return env + "-" + conv
    return env


def gen_signatures(tier, seed, scale):
    """-> list of (env, conv, va, ret, args tuple, origin)"""
    sigs = []
    rng = common.Rng(seed).fork("c06-sigs")
    nrand = int((120 if tier == "quick" else 5000) * scale)
    for env, conv, has_va, weight in CONVS:
        a64 = env.startswith("a64")
        full = A64_FULL if a64 else FULL
        red = A64_RED if a64 else RED
        pool = A64_RAND_POOL if a64 else RAND_POOL
        light = conv.startswith("lightcall")
        r = rng.fork(env + conv)

        def add(ret, args, va=None, origin="enum"):
            sigs.append((env, conv, va, ret, tuple(args), origin))

        if weight >= 0.5 or light:
            # exhaustive: every return type, every signature of <= 2 arguments over the full alphabet, <= 3 over the reduced one
            for t in full:
                add(t, [])
                add(t, [t])
                add("void", [t])
            for t1 in full:
                for t2 in full:
                    add("void", [t1, t2])
            if weight >= 1.0:
                for t1 in red:
                    for t2 in red:
                        for t3 in red:
                            add("void", [t1, t2, t3])
            else:
                for t1 in red[:5]:
                    for t2 in red[:5]:
                        for t3 in red[:5]:
                            add("void", [t1, t2, t3])
        else:
            for t in full:
                add(t, [t])
            for t1 in red:
                for t2 in red:
                    add("void", [t1, t2])
        # families: saturate one register class, then another
        if weight >= 0.3:
            for t1 in red:
                for t2 in red:
                    add("void", [t1] * 9 + [t2] * 9 + ["i32"], origin="family")
            for t in full:
                for k in (4, 5, 6, 7, 8, 9, 10, 13, 17):
                    add("void", [t] * k, origin="family")
        # random, up to 32 arguments
        n = max(1, int(nrand * max(weight, 0.2)))
        for i in range(n):
            k = r.choice([r.range(4, 8), r.range(4, 16), r.range(8, 32)])
            args = [r.choice(pool) for _ in range(k)]
            ret = r.choice(["void", "void", "i32", "i64", "f32", "f64", "f32x4", "u8"])
            add(ret, args, origin="random")
        if has_va and not light:
            # 256-bit vectors exist as variadic arguments on x86 only (AArch64 has no 256-bit vector type; AsmJit rejects them there)
            VA_TYPES = [t for t in VA_TYPES_ALL if not (a64 and ap.type_size(t) > 16)]
            for n0 in (1, 2):
                named = ["i32", "f64"][:n0]
                for t1 in VA_TYPES:
                    add("i32", named + [t1], va=n0, origin="va")
                    for t2 in VA_TYPES:
                        add("i32", named + [t1, t2], va=n0, origin="va")
                        if n0 == 1:
                            for t3 in VA_TYPES:
                                add("i32", named + [t1, t2, t3], va=n0, origin="va")
            for i in range(max(1, n // 3)):
                k = r.range(3, 14)
                n0 = r.range(1, min(k, 4))
                args = [r.choice(["i32", "i64", "f64", "u8", "f32"]) for _ in range(n0)] + [r.choice(VA_TYPES) for _ in range(k - n0)]
                add("i32", args, va=n0, origin="va")
    return sigs


def sig_text(s):
    env, conv, va, ret, args, _ = s
    a = list(args)
    if va is not None:
        a = a[:va] + ["..."] + a[va:]
    return "%s/%s %s(%s)" % (env, conv, ret, ",".join(a))


def driver_line(s):
    env, conv, va, ret, args, _ = s
    return "%s %s %s %s %s" % (env, conv, "-" if va is None else va, ret, " ".join(args))


# ---------------------------------------------------------------------------------------------
# Location canonicalisation
# ---------------------------------------------------------------------------------------------

def loc_tuple(l, delta=0):
    if l["k"] == "reg":
        return ("reg", l["g"], l["id"], delta)
    if l["k"] == "stack":
        return ("stack", l["off"] + delta)
    if l["k"] == "ind":
        return ("ind", loc_tuple(l["ptr"]), l.get("disp", 0) + delta)
    if l["k"] == "sret":
        return ("sret", loc_tuple(l["ptr"]), l.get("disp", 0) + delta)
    return ("?",)


def canon_callee(parts, size):
    """parts [(off,w,loc)] -> {chunk byte offset: loc tuple}; None when a chunk is not covered"""
    out = {}
    for b in [0] + list(range(4, size, 4)):
        hit = None
        for off, w, l in parts:
            if off <= b < off + max(w, 1):
                hit = loc_tuple(l, b - off)
        if hit is None:
            return None
        out[b] = hit
    return out


def canon_caller(cands, size):
    """cands [(off, loc)] -> {chunk: set(loc tuples)}"""
    out = {}
    for off, l in cands:
        out.setdefault(off, set()).add(loc_tuple(l))
    return out


def coarse(t):
    c = ap.type_class(t)
    return "int" if re.match(r"^i\d+$", c) else c


def fmt_loc(t):
    if t is None:
        return "?"
    if t[0] == "reg":
        return "%s%d%s" % (t[1], t[2], "+%d" % t[3] if t[3] else "")
    if t[0] == "stack":
        return "[%d]" % t[1]
    if t[0] in ("ind", "sret"):
        return ("*" if t[0] == "ind" else "sret*") + fmt_loc(t[1]) + ("+%d" % t[2] if t[2] else "")
    if t[0] == "none":
        return "none"
    return str(t)


def kind_of(t):
    if t is None:
        return "?"
    if t[0] == "reg":
        return "reg-" + t[1]
    if t[0] == "stack":
        return "stack"
    if t[0] == "ind":
        return "ind-" + ("reg" if t[1][0] == "reg" else "stack")
    return t[0]


def aj_loc(v):
    if v["k"] == "reg":
        base = ("reg", v["g"], v["id"], 0)
    elif v["k"] == "stack":
        base = ("stack", v["off"])
    else:
        return ("none",)
    if v.get("ind"):
        return ("ind", base, 0)
    return base


def aj_arg_chunks(vals):
    """AsmJit FuncValue pack -> {chunk: loc}"""
    if len(vals) == 2:
        return {0: aj_loc(vals[0]), 4: aj_loc(vals[1])}
    if len(vals) == 1:
        return {0: aj_loc(vals[0])}
    return {0: ("none",)}


# ---------------------------------------------------------------------------------------------
# ABI table written from the ABI documents (confirmed by clobber / red-zone probes at run time)
# ---------------------------------------------------------------------------------------------

def san_key(prefix, rep):
    """stable key for a sanitizer report: kind + first AsmJit frame that is not a tiny support helper (function name only, no paths)"""
    frames = [f for f in rep["frames"] if "drv_func" not in f]
    pick = next((f for f in frames if "asmjit" in f and "support.h" not in f and "operand.h" not in f), frames[0] if frames else "?")
    fn = pick.split(" /")[0].split("(")[0].replace("asmjit::v1_21::", "").strip()
    kind = re.sub(r"\s*@.*$", "", rep["kind"].split(" on ")[0])[:70]
    return "%s:sanitizer:%s:%s" % (prefix, kind, fn[:80])


def bits(*ids):
    m = 0
    for i in ids:
        m |= 1 << i
    return m


ABI_TABLE = {
    # key: (preserved gp, preserved vec, red zone, spill zone, ignore gp mask)
    "sysv64": (bits(3, 5, 12, 13, 14, 15), 0, 128, 0, bits(4)),
    "win64": (bits(3, 5, 6, 7, 12, 13, 14, 15), bits(*range(6, 16)), 0, 32, bits(4)),
    "vectorcall64": (bits(3, 5, 6, 7, 12, 13, 14, 15), bits(*range(6, 16)), 0, 32, bits(4)),
    "x86": (bits(3, 5, 6, 7), 0, 0, 0, bits(4)),
    "a64-linux": (bits(*range(19, 30)), bits(*range(8, 16)), 0, 0, bits(18, 30, 31)),
    "a64-apple": (bits(*range(19, 30)), bits(*range(8, 16)), 128, 0, bits(18, 30, 31)),
}


# stack alignment at a call instruction: x86-64 (SysV 3.2.2, Microsoft x64) and AArch64 (AAPCS64 6.4.5.1, Apple) say 16.
# i386: the original psABI and Windows say 4, gcc/clang on Linux maintain 16 since gcc 4.5 - both are accepted (see assumptions)
ABI_STACK_ALIGNMENT = {"sysv64": (16,), "win64": (16,), "vectorcall64": (16,), "x86": (4, 16), "a64-linux": (16,), "a64-apple": (16,)}

REG_TYPE_BYTES = {"gp8": 1, "gp16": 2, "gp32": 4, "gp64": 8, "vec32": 4, "vec64": 8, "vec128": 16, "vec256": 32, "vec512": 64, "k": 8, "mm": 8, "st": 10}


def expected_value_types(t, is_ret, env):
    """the TypeIds FuncDetail documents for one signature type: a 64-bit integer is a (lo u32, hi) pack on x86-32; return values narrower
    than 32 bits are reported as 32-bit integers of the same signedness; everything else keeps its type"""
    if env.startswith("x86") and t in ("i64", "u64"):
        return ["u32", "i32" if t == "i64" else "u32"]
    if is_ret and t in ("i8", "i16", "i32"):
        return ["i32"]
    if is_ret and t in ("u8", "u16", "u32"):
        return ["u32"]
    return [t]


def check_value_types(s, rec, ck):
    """FuncValue::type_id() / reg_type() of every argument and return value (the locations are judged elsewhere)"""
    env, conv, va, ret, args, origin = s
    viol = []
    text = sig_text(s)
    items = [(k, t, rec["args"][k], False) for k, t in enumerate(args)]
    if ret != "void":
        items.append((-1, ret, rec["rets"], True))
    for k, t, vals, is_ret in items:
        if not vals:
            continue
        want = expected_value_types(t, is_ret, env)
        name = "return value" if is_ret else "argument %d" % k
        got = [v["t"] for v in vals]
        if got != want:
            viol.append(("classify:%s:%stype-id:%s" % (ck, "ret:" if is_ret else "", coarse(t)),
                         "%s: %s (%s): FuncValue::type_id() is %s, expected %s" % (text, name, t, "/".join(got), "/".join(want))))
            continue
        for v in vals:
            if v["k"] != "reg" or v.get("ind"):
                continue
            have = REG_TYPE_BYTES.get(v["rt"])
            if have is None or have < ap.type_size(v["t"]):
                viol.append(("classify:%s:%sreg-type:%s" % (ck, "ret:" if is_ret else "", coarse(t)),
                             "%s: %s (%s) is assigned %s%d with FuncValue::reg_type() = %s, which cannot hold %d bytes" % (
                                 text, name, t, v["g"], v["id"], v["rt"], ap.type_size(v["t"]))))
                break
    return viol


def check_structure(s, rec, ck):
    """facts that hold whatever the ABI says: no register holds two arguments, stack arguments do not overlap and lie inside arg_stack_size"""
    env, conv, va, ret, args, origin = s
    viol = []
    text = sig_text(s)
    used = {}
    spans = []
    for k, t in enumerate(args):
        vals = rec["args"][k]
        for v in vals:
            if v["k"] == "reg":
                key = (v["g"], v["id"])
                if key in used and used[key] != k:
                    viol.append(("classify:%s:register-assigned-twice" % ck, "%s: arguments %d and %d both in %s%d" % (text, used[key], k, v["g"], v["id"])))
                used[key] = k
            elif v["k"] == "stack":
                size = (4 if env.startswith("x86") else 8) if v.get("ind") else (ap.type_size(t) if len(vals) == 1 else 4)
                spans.append((v["off"], v["off"] + size, k))
    spans.sort()
    for (a0, a1, ka), (b0, b1, kb) in zip(spans, spans[1:]):
        if b0 < a1:
            viol.append(("classify:%s:stack-arguments-overlap" % ck, "%s: arguments %d [%d,%d) and %d [%d,%d)" % (text, ka, a0, a1, kb, b0, b1)))
    if spans and spans[-1][1] > rec["stack"]:
        viol.append(("classify:%s:arg-stack-size" % ck, "%s: stack arguments extend to %d, arg_stack_size=%d" % (text, spans[-1][1], rec["stack"])))
    return viol


def abi_row(ck):
    if "lightcall" in ck:
        return None
    if ck.startswith("x86"):
        return ABI_TABLE["x86"]
    return ABI_TABLE.get(ck)


# ---------------------------------------------------------------------------------------------
# Workload A: run + compare
# ---------------------------------------------------------------------------------------------

def run_classify(exe, sigs, chk, stats):
    """-> list of driver records (None where the driver aborted on that line)"""
    lines = [driver_line(s) for s in sigs]
    shards = 16
    parts = [list(range(i, len(lines), shards)) for i in range(shards)]
    results = [None] * len(lines)

    def one(idx):
        pos = 0
        restarts = 0
        out_recs = []
        while pos < len(idx):
            inp = ("\n".join(lines[i] for i in idx[pos:]) + "\n").encode()
            rc, out, err = common.run_child([exe, "--mode", "classify"], input=inp, timeout=1200)
            recs = []
            for ln in out.decode("utf-8", "replace").splitlines():
                try:
                    d = json.loads(ln)
                except ValueError:
                    continue
                if d.get("summary"):
                    continue
                recs.append(d)
            for k, d in enumerate(recs):
                if pos + k < len(idx):
                    out_recs.append((idx[pos + k], d, None))
            pos += len(recs)
            if pos >= len(idx):
                break
            rep = common.sanitizer_report(err)
            bad = idx[pos]
            out_recs.append((bad, None, rep or {"kind": "driver died rc=%s" % rc, "frames": [err.decode("utf-8", "replace")[-300:]]}))
            pos += 1
            restarts += 1
            if restarts > 400:
                break
        return out_recs

    for recs in common.parallel_map(one, parts):
        for i, d, rep in recs:
            results[i] = (d, rep)
    return results


def compare_signature(s, rec, oracle_results, oracles, acc):
    """Judge one signature. Where the compilers disagree with each other there is no single ABI answer, but AsmJit must still do what one of
    them does (its whole view of the signature must equal one compiler's whole view), and the structural facts hold regardless."""
    acc["last_ambiguous_class"] = "?"
    viol, verdict = compare_signature_1(s, rec, oracle_results, oracles, acc)
    ck = conv_key(s[0], s[1])
    if verdict in ("judged", "ambiguous") and rec is not None and rec["err"] == 0:
        viol = viol + check_structure(s, rec, ck)
        if verdict == "judged":
            viol = viol + check_value_types(s, rec, ck)
            acc["value_types_checked"] = acc.get("value_types_checked", 0) + len(s[4]) + (s[3] != "void")
    if verdict != "ambiguous" or s[2] is not None or rec is None or rec["err"] != 0 or len(oracles) < 2:
        return viol, verdict
    # "equals one compiler's whole view" is only a fair demand when a single disputed kind of type is involved: with two of them
    # (say a 64-bit integer and an 8-byte vector on i386) following gcc for one and clang for the other is a defensible choice
    unusual = set()
    for t in list(s[4]) + ([s[3]] if s[3] != "void" else []):
        c = ap.type_class(t)
        if c in ("mmx", "mask", "v32", "v64", "v256", "v512") or (s[0].startswith("x86") and c in ("i64", "v128")):
            unusual.add(c)
    if len(unusual) > 1:
        acc["ambiguous_with_several_disputed_types"] = acc.get("ambiguous_with_several_disputed_types", 0) + 1
        return viol, verdict
    per = []
    for orc, r in zip(oracles, oracle_results):
        scratch = {"unparsed": 0, "ambiguous": 0, "asmjit_rejected": 0, "judged": 0, "unparsed_samples": [], "ambiguous_samples": [], "ambiguous_by_type": {}}
        v1, verdict1 = compare_signature_1(s, rec, [r], [orc], scratch, sub=True)
        if verdict1 != "judged":
            return viol, verdict
        per.append((orc, v1))
    acc["ambiguous_judged_against_each_compiler"] = acc.get("ambiguous_judged_against_each_compiler", 0) + 1
    if any(not v1 for _, v1 in per):
        acc["ambiguous_matching_one_compiler"] = acc.get("ambiguous_matching_one_compiler", 0) + 1
        return viol, verdict
    # which deviation names the class: an argument without any location explains everything after it; otherwise the compiler AsmJit follows longest
    def dev_pos(v1):
        m = re.search(r": argument (\d+) ", v1[0][1])
        return int(m.group(1)) if m else 99
    un = [v1[0] for _, v1 in per if v1[0][0].endswith(":unassigned")]
    key0, what0 = un[0] if un else max((v1 for _, v1 in per), key=dev_pos)[0]
    if key0.endswith(":unassigned"):
        viol.append((key0, what0))
    else:
        viol.append(("classify:%s:matches-neither:%s" % (ck, acc["last_ambiguous_class"]),
                     "the compilers disagree on this signature (on a %s) and AsmJit does what none of them does | " % acc["last_ambiguous_class"] + " || ".join("vs %s: %s" % (o.compiler, v1[0][1]) for o, v1 in per)))
    return viol, verdict


def compare_signature_1(s, rec, oracle_results, oracles, acc, sub=False):
    """Judge one signature. acc: dict of counters/lists. Returns list of (key, what)."""
    env, conv, va, ret, args, origin = s
    ck = conv_key(env, conv)
    viol = []
    text = sig_text(s)
    # ---- oracle agreement ----
    # 4- and 8-byte generic vectors do not exist in MSVC (only __m64 does): for the Windows-only conventions, where clang is the
    # single oracle, what clang does with them is not a platform ABI -> no verdict (DESIGN "Limits": exotic combinations)
    if len(oracles) == 1 and "win" in oracles[0].name and (not sub or s[0].endswith("-win")):
        for t in list(args) + [ret]:
            if t != "void" and ap.type_class(t) in ("v32", "v64"):
                acc["ambiguous"] += 1
                acc["ambiguous_by_type"]["exotic:" + ap.type_class(t)] = acc["ambiguous_by_type"].get("exotic:" + ap.type_class(t), 0) + 1
                return viol, "ambiguous"
    usable = []
    for orc, r in zip(oracles, oracle_results):
        if r is None or "unparsed" in r:
            acc["unparsed"] += 1
            if len(acc["unparsed_samples"]) < 12:
                acc["unparsed_samples"].append("%s [%s]: %s" % (text, orc.name, (r or {}).get("unparsed")))
            return viol, "unparsed"
        usable.append(r)
    caller_side = va is not None
    per_arg = []       # per argument: {chunk: loc} (callee side) or {chunk: set(loc)} (caller side)
    for k, t in enumerate(args):
        size = ap.type_size(t)
        views = []
        for r in usable:
            if caller_side:
                views.append(canon_caller(r["args"][k], size))
            else:
                c = canon_callee(r["args"][k], size)
                if c is None:
                    acc["unparsed"] += 1
                    return viol, "unparsed"
                views.append(c)
        if caller_side:
            # every view is the set of places that hold the value at the call instruction: the real location(s) plus, possibly,
            # registers the compiler used as temporaries. Memory locations are never temporaries (copies made for passing by
            # reference are removed by the probe reader), so: if every compiler wrote the value to the outgoing area they
            # must agree on where, and then only those memory locations count; registers count only when no compiler used memory.
            merged = {}
            bad = None
            for b in views[0]:
                sets = [v.get(b, set()) for v in views]
                mems = [set(x for x in s_ if x[0] != "reg") for s_ in sets]
                if all(mems):
                    common_mem = set.intersection(*mems)
                    if not common_mem and b == 0:
                        bad = "memory locations differ"
                    merged[b] = common_mem
                elif any(mems):
                    if b == 0:
                        bad = "one compiler uses memory, another registers"
                    merged[b] = set()
                else:
                    merged[b] = set.intersection(*sets)
            if bad or not merged.get(0):
                acc["ambiguous"] += 1
                acc["ambiguous_by_type"]["va:" + ap.type_class(t)] = acc["ambiguous_by_type"].get("va:" + ap.type_class(t), 0) + 1
                if len(acc["ambiguous_samples"]) < 12:
                    acc["ambiguous_samples"].append("%s arg %d (%s): %s" % (text, k, bad or "no common location", " vs ".join("%s=%s" % (o.compiler, sorted(fmt_loc(x) for x in v.get(0, []))) for o, v in zip(oracles, views))))
                return viol, "ambiguous"
            per_arg.append(merged)
        else:
            if any(v != views[0] for v in views[1:]):
                acc["ambiguous"] += 1
                acc["last_ambiguous_class"] = ap.type_class(t)
                acc["ambiguous_by_type"][ap.type_class(t)] = acc["ambiguous_by_type"].get(ap.type_class(t), 0) + 1
                if len(acc["ambiguous_samples"]) < 12:
                    acc["ambiguous_samples"].append("%s arg %d (%s): %s" % (text, k, t, " vs ".join("%s=%s" % (o.compiler, fmt_loc(v.get(0))) for o, v in zip(oracles, views))))
                return viol, "ambiguous"
            per_arg.append(views[0])
    # return value + callee pops
    ret_view = None
    if ret != "void":
        rviews = []
        for r in usable:
            if r.get("ret") is None:
                rviews.append(None)
            else:
                rviews.append(tuple(sorted((off, loc_tuple(l)) for off, l in r["ret"])))
        if caller_side:
            rviews = [v for v in rviews if v is not None]
        if rviews and any(v != rviews[0] for v in rviews[1:]):
            acc["ambiguous"] += 1
            acc["last_ambiguous_class"] = "ret:" + ap.type_class(ret)
            acc["ambiguous_by_type"]["ret:" + ap.type_class(ret)] = acc["ambiguous_by_type"].get("ret:" + ap.type_class(ret), 0) + 1
            if len(acc["ambiguous_samples"]) < 12:
                acc["ambiguous_samples"].append("%s return: %s" % (text, " vs ".join(str([(o, fmt_loc(l)) for o, l in (v or ())]) for v in rviews)))
            return viol, "ambiguous"
        ret_view = rviews[0] if rviews else None
    pops = None
    if not caller_side:
        ps = set(r["pop"] for r in usable)
        if len(ps) != 1:
            acc["ambiguous"] += 1
            acc["last_ambiguous_class"] = "callee-pops"
            return viol, "ambiguous"
        pops = ps.pop()

    # ---- AsmJit's answer ----
    if rec is None:
        return viol, "driver-abort"
    if rec["err"] != 0:
        acc["asmjit_rejected"] += 1
        return viol, "rejected"
    acc["judged"] += 1
    sfx = ":va" if caller_side else ""
    first_dev = None
    stack_like = []    # (arg index, class, kind) of previous stack/indirect arguments
    for k, t in enumerate(args):
        ajc = aj_arg_chunks(rec["args"][k])
        orc = per_arg[k]
        tc = coarse(t)
        dev = None
        for b in sorted(ajc):
            a = ajc[b]
            if caller_side:
                cand = orc.get(b, set())
                if b != 0 and not cand:
                    continue
                if a not in cand:
                    same = [c for c in cand if kind_of(c) == kind_of(a)]
                    nonreg = [c for c in cand if c[0] != "reg"]
                    o = sorted(same or nonreg or cand, key=str)[0] if cand else None
                    dev = (b, a, o)
                    break
            else:
                o = orc.get(b)
                if o is None:
                    continue
                if a != o:
                    dev = (b, a, o)
                    break
        if dev and first_dev is None:
            b, a, o = dev
            ak, ok = kind_of(a), kind_of(o)
            after = "first"
            if stack_like:
                after = "after-%s" % stack_like[-1][2]
            if ak == "none":
                what = "%s:unassigned" % tc
            elif ak == "stack" and ok == "stack":
                what = "%s:stack-offset:%s" % (tc, after)
            elif ak == ok and ak.startswith("ind-"):
                what = "%s:%s-location:%s" % (tc, ak, after)
            elif ak == ok:
                what = "%s:%s-id" % (tc, ak)
            else:
                what = "%s:%s-vs-%s" % (tc, ak, ok)
            if b:
                what += ":hi"
            first_dev = ("classify:%s%s:%s" % (ck, sfx, what),
                         "%s: argument %d (%s)%s: AsmJit %s, compilers %s | AsmJit all: %s | %s: %s" % (
                             text, k, t, " high half" if b else "", fmt_loc(a), fmt_loc(o),
                             " ".join("/".join(fmt_loc(aj_loc(v)) for v in vs) or "none" for vs in rec["args"]),
                             "+".join(o_.compiler for o_ in oracles),
                             " ".join(("/".join(sorted(set(fmt_loc(x) for x in per_arg[j].get(0, ())))) if caller_side else "/".join(fmt_loc(per_arg[j][bb]) for bb in sorted(per_arg[j]) if bb in (0, 4) and (bb == 0 or len(rec["args"][j]) == 2))) for j in range(len(args)))))
        a0 = ajc.get(0)
        ak0 = kind_of(a0)
        ok0 = None
        if not caller_side:
            ok0 = kind_of(orc.get(0))
        if ak0 in ("stack", "ind-reg", "ind-stack") or (ok0 in ("stack", "ind-reg", "ind-stack")):
            stack_like.append((k, tc, ak0 if ak0 != "none" else "none"))
    if first_dev:
        viol.append(first_dev)
    else:
        # whole-signature facts are only judged when every argument agreed
        if pops is not None:
            aj_pops = rec["stack"] if rec["pops"] else 0
            if aj_pops != pops:
                viol.append(("classify:%s:callee-pops" % ck, "%s: compilers end with `ret %d`, AsmJit: callee-pops=%d arg_stack_size=%d" % (text, pops, rec["pops"], rec["stack"])))
        # stack area must cover every stack argument the compilers use
        if not caller_side:
            need = 0
            for k, t in enumerate(args):
                o = per_arg[k].get(0)
                if o and o[0] == "stack":
                    need = max(need, o[1] + ap.type_size(t))
                elif o and o[0] == "ind" and o[1][0] == "stack":
                    need = max(need, o[1][1] + (4 if env.startswith("x86") else 8))
            if rec["stack"] < need:
                viol.append(("classify:%s:arg-stack-size" % ck, "%s: stack arguments extend to byte %d, AsmJit arg_stack_size=%d" % (text, need, rec["stack"])))
    if ret != "void" and ret_view is not None:
        ajr = rec["rets"]
        aj = {}
        if len(ajr) == 2:
            aj = {0: aj_loc(ajr[0]), 4: aj_loc(ajr[1])}
        elif len(ajr) == 1:
            aj = {0: aj_loc(ajr[0])}
        else:
            aj = {0: ("none",)}
        o = {}
        for off, l in ret_view:
            o.setdefault(off, []).append(l)
        for b in sorted(aj):
            if b not in o:
                continue
            if aj[b] not in o[b]:
                oo = o[b][0]
                viol.append(("classify:%s%s:ret:%s:%s-vs-%s%s" % (ck, sfx, coarse(ret), kind_of(aj[b]), kind_of(oo) if oo[0] != "sret" else "memory", ":hi" if b else ""),
                             "%s: return value%s: AsmJit %s, compilers %s" % (text, " high half" if b else "", fmt_loc(aj[b]), "/".join(fmt_loc(x) for x in o[b]))))
                break
    return viol, "judged"


def check_lightcall(s, rec):
    """no platform ABI: internal consistency of FuncDetail only"""
    env, conv, va, ret, args, origin = s
    ck = conv_key(env, conv)
    viol = []
    text = sig_text(s)
    if rec is None or rec["err"] != 0:
        return viol
    used = {}
    spans = []
    for k, t in enumerate(args):
        vals = rec["args"][k]
        if not vals or any(v["k"] == "none" for v in vals):
            viol.append(("classify:%s:%s:unassigned" % (ck, coarse(t)), "%s: argument %d (%s) has no location" % (text, k, t)))
            continue
        for v in vals:
            if v["k"] == "reg":
                key = (v["g"], v["id"])
                if key in used:
                    viol.append(("classify:%s:register-assigned-twice" % ck, "%s: arguments %d and %d both in %s%d" % (text, used[key], k, v["g"], v["id"])))
                used[key] = k
                gi = {"gp": 0, "vec": 1, "k": 2, "mm": 3}.get(v["g"])
                if gi is not None and not (rec["passed"][gi] >> v["id"]) & 1:
                    viol.append(("classify:%s:register-not-in-passed-set" % ck, "%s: argument %d in %s%d" % (text, k, v["g"], v["id"])))
            else:
                size = ap.type_size(t) if len(vals) == 1 else 4
                spans.append((v["off"], v["off"] + size, k))
    spans.sort()
    for (a0, a1, ka), (b0, b1, kb) in zip(spans, spans[1:]):
        if b0 < a1:
            viol.append(("classify:%s:stack-arguments-overlap" % ck, "%s: arguments %d [%d,%d) and %d [%d,%d)" % (text, ka, a0, a1, kb, b0, b1)))
    if spans and spans[-1][1] > rec["stack"]:
        viol.append(("classify:%s:arg-stack-size" % ck, "%s: stack arguments extend to %d, arg_stack_size=%d" % (text, spans[-1][1], rec["stack"])))
    viol += check_value_types(s, rec, ck)
    for v in rec["rets"]:
        if v["k"] == "reg":
            gi = {"gp": 0, "vec": 1, "k": 2, "mm": 3}.get(v["g"])
            if gi is not None and (rec["pres"][gi] >> v["id"]) & 1:
                viol.append(("classify:%s:return-register-is-callee-saved:%s" % (ck, v["g"]),
                             "%s: return value in %s%d which the same convention lists as preserved by the callee (mask 0x%x): "
                             "a callee that honours the preserved set destroys its own return value" % (text, v["g"], v["id"], rec["pres"][gi])))
    return viol


def workload_a(chk, exe, tier, scale, cov):
    sigs = gen_signatures(tier, chk.seed, scale)
    stats = ap.Stats()
    recs = run_classify(exe, sigs, chk, stats)
    acc = {"unparsed": 0, "ambiguous": 0, "asmjit_rejected": 0, "judged": 0, "unparsed_samples": [], "ambiguous_samples": [],
           "ambiguous_by_type": {}}
    # sanitizer aborts
    aborted = 0
    for s, r in zip(sigs, recs):
        if r is None:
            continue
        d, rep = r
        if rep is not None:
            aborted += 1
            chk.violation(san_key("classify", rep),
                          "sanitizer report while classifying %s: %s %s" % (sig_text(s), rep["kind"], rep["frames"][:4]),
                          {"part": "classify", "line": driver_line(s)})
    # group by oracle set
    groups = {}
    for i, s in enumerate(sigs):
        orcs = ap.oracles_for(s[0], s[1])
        groups.setdefault(tuple(o.name for o in orcs), (orcs, []))[1].append(i)
    judged_by_conv = {}
    distinct = set()
    light_checked = 0
    samples = []
    for names, (orcs, idxs) in groups.items():
        if not orcs:
            for i in idxs:
                rec = recs[i][0] if recs[i] else None
                for key, what in check_lightcall(sigs[i], rec):
                    chk.violation(key, what, {"part": "classify", "line": driver_line(sigs[i])})
                if rec is not None and rec["err"] == 0:
                    light_checked += 1
            continue
        psigs = [(sigs[i][3], sigs[i][4], sigs[i][2]) for i in idxs]
        per_orc = [ap.probe_many(o, psigs, stats) for o in orcs]
        for n, i in enumerate(idxs):
            rec = recs[i][0] if recs[i] else None
            viol, verdict = compare_signature(sigs[i], rec, [po[n] for po in per_orc], orcs, acc)
            if verdict == "judged":
                ck = conv_key(sigs[i][0], sigs[i][1])
                judged_by_conv[ck] = judged_by_conv.get(ck, 0) + 1
                distinct.add((ck, sigs[i][2], sigs[i][3], sigs[i][4]))
                if len(samples) < 5 and sigs[i][5] == "random" and not viol:
                    samples.append({"signature": sig_text(sigs[i]), "asmjit": " ".join("/".join(fmt_loc(aj_loc(v)) for v in vs) for vs in rec["args"]),
                                    "stack": rec["stack"], "verdict": "agrees with " + "+".join(o.compiler for o in orcs)})
            for key, what in viol:
                chk.violation(key, what, {"part": "classify", "line": driver_line(sigs[i])})

    # ---- convention records: preserved sets, red zone, spill zone ----
    conv_checked = 0
    nsa_checked = {}
    seen = set()
    for i, s in enumerate(sigs):
        env, conv = s[0], s[1]
        ck = conv_key(env, conv)
        if ck in seen or recs[i] is None or recs[i][0] is None or recs[i][0]["err"] != 0:
            continue
        row = abi_row(ck)
        if row is None:
            continue
        seen.add(ck)
        rec = recs[i][0]
        pg, pv, red, spill, ign = row
        # confirm the table by probes
        for orc in ap.oracles_for(env, conv):
            cp = ap.clobber_probe(orc)
            stats.compiler_invocations += 1
            if cp is not None:
                got_g = sum(1 << x for x in cp["gp"]) & ~ign
                got_v = sum(1 << x for x in cp["vec"])
                if got_g != pg & ~ign or got_v != pv:
                    chk.note("ABI table vs %s clobber probe differ for %s: table gp=0x%x vec=0x%x, probe gp=0x%x vec=0x%x (table kept)" % (orc.name, ck, pg & ~ign, pv, got_g, got_v))
            rz = ap.redzone_probe(orc)
            stats.compiler_invocations += 6
            if rz is not None and (rz > 0) != (red > 0) and not ck.startswith("a64-apple"):
                chk.note("ABI table vs %s red-zone probe differ for %s: table %d, probe keeps up to %d bytes below sp" % (orc.name, ck, red, rz))
        conv_checked += 1
        if (rec["pres"][0] & ~ign) != (pg & ~ign):
            chk.violation("classify:%s:preserved:gp" % ck, "%s: AsmJit preserved GP mask 0x%x, ABI 0x%x (ignoring 0x%x)" % (ck, rec["pres"][0], pg, ign), {"part": "classify", "line": driver_line(s)})
        if rec["pres"][1] != pv:
            chk.violation("classify:%s:preserved:vec" % ck, "%s: AsmJit preserved vector mask 0x%x, ABI 0x%x" % (ck, rec["pres"][1], pv), {"part": "classify", "line": driver_line(s)})
        if rec["red"] > red:
            chk.violation("classify:%s:red-zone" % ck, "%s: AsmJit red zone %d, ABI %d" % (ck, rec["red"], red), {"part": "classify", "line": driver_line(s)})
        elif rec["red"] < red:
            chk.note("%s: AsmJit uses a smaller red zone (%d) than the ABI grants (%d) - safe" % (ck, rec["red"], red))
        nsa_ok = ABI_STACK_ALIGNMENT["x86" if ck.startswith("x86") else ck]
        nsa_checked[ck] = rec["nsa"]
        if rec["nsa"] not in nsa_ok:
            chk.violation("classify:%s:natural-stack-alignment" % ck, "%s: CallConv::natural_stack_alignment() is %d, the ABI keeps the stack pointer %s-byte aligned at calls (frames that rely on less "
                          "re-align for nothing, frames that rely on more fault in real callers)" % (ck, rec["nsa"], " or ".join(str(x) for x in nsa_ok)), {"part": "classify", "line": driver_line(s)})
        if rec["spill"] != spill:
            chk.violation("classify:%s:spill-zone" % ck, "%s: AsmJit spill zone %d, ABI %d" % (ck, rec["spill"], spill), {"part": "classify", "line": driver_line(s)})

    cov.update({
        "signatures_classified": len(sigs),
        "signatures_judged_against_compilers": acc["judged"],
        "judged_by_convention": judged_by_conv,
        "ambiguous_signatures_excluded": acc["ambiguous"],
        "ambiguous_by_type": acc["ambiguous_by_type"],
        "ambiguous_samples": acc["ambiguous_samples"][:8],
        "unparsed_probes_excluded": acc["unparsed"],
        "unparsed_samples": acc["unparsed_samples"][:6],
        "asmjit_rejected_signatures": acc["asmjit_rejected"],
        "lightcall_signatures_checked_for_internal_consistency": light_checked,
        "convention_records_checked": conv_checked,
        "natural_stack_alignment_compared": nsa_checked,
        "value_type_ids_and_register_types_checked": acc.get("value_types_checked", 0),
        "ambiguous_signatures_compared_with_each_compiler": acc.get("ambiguous_judged_against_each_compiler", 0),
        "ambiguous_signatures_matching_one_compiler": acc.get("ambiguous_matching_one_compiler", 0),
        "ambiguous_signatures_with_several_disputed_types_not_compared": acc.get("ambiguous_with_several_disputed_types", 0),
        "probe_functions_compiled": stats.compiled_functions,
        "probe_cache_hits": stats.cache_hits,
        "compiler_invocations": stats.compiler_invocations,
        "classify_driver_aborts": aborted,
    })
    if not nsa_checked:
        raise common.HarnessError("classification: no convention record reached the natural-stack-alignment comparison")
    if not acc.get("value_types_checked"):
        raise common.HarnessError("classification: no FuncValue type/register type was checked")
    if acc["ambiguous"] and not acc.get("ambiguous_judged_against_each_compiler"):
        raise common.HarnessError("classification: %d signatures are ambiguous between the compilers but none was compared with each compiler separately" % acc["ambiguous"])
    return len(distinct), samples, len(sigs)



# ---------------------------------------------------------------------------------------------
# Workload C: symbolic execution of the emitted entry sequence (bytes -> objdump / llvm-objdump -> byte-level symbols)
# ---------------------------------------------------------------------------------------------

TYPE_SIGNED = {"i8": True, "i16": True, "i32": True, "i64": True, "u8": False, "u16": False, "u32": False, "u64": False}


def tsize(t):
    return ap.type_size(t) if t != "void" else 0


class Inconclusive(Exception):
    pass


_garbage = [0]


def G():
    _garbage[0] += 1
    return ("g", _garbage[0])


def disassemble(blobs, arch):
    """blobs: list of bytes -> list of [(mnemonic, operand string)] per blob (one objdump run)"""
    if not blobs:
        return []
    pad = b"\x90" if arch != "a64" else b"\x1f\x20\x03\xd5"
    offs, buf = [], b""
    for b in blobs:
        offs.append((len(buf), len(buf) + len(b)))
        buf += b
        while len(buf) % 16:
            buf += pad
        buf += pad * (16 // len(pad))
    out = [[] for _ in blobs]
    with tempfile.TemporaryDirectory(dir=os.path.join(common.VERIF, ".cache")) as td:
        if arch != "a64":
            path = os.path.join(td, "b.bin")
            with open(path, "wb") as fh:
                fh.write(buf)
            m = "i386:x86-64" if arch == "x64" else "i386"
            p = subprocess.run(["objdump", "-D", "-b", "binary", "-m", m, "-M", "intel", "-w", path], stdout=subprocess.PIPE, stderr=subprocess.PIPE, text=True)
            text = p.stdout
        else:
            spath, opath = os.path.join(td, "b.s"), os.path.join(td, "b.o")
            with open(spath, "w") as fh:
                fh.write(".text\n")
                for i in range(0, len(buf), 4):
                    fh.write(".inst 0x%08x\n" % int.from_bytes(buf[i:i + 4], "little"))
            p = subprocess.run(["llvm-mc", "-triple=aarch64", "-filetype=obj", "-o", opath, spath], stdout=subprocess.PIPE, stderr=subprocess.PIPE, text=True)
            if p.returncode != 0:
                raise common.HarnessError("llvm-mc failed: " + p.stderr[-300:])
            p = subprocess.run(["llvm-objdump", "-d", "--no-show-raw-insn", opath], stdout=subprocess.PIPE, stderr=subprocess.PIPE, text=True)
            text = p.stdout
    k = 0
    for ln in text.splitlines():
        m = re.match(r"^\s*([0-9a-f]+):\s+(.*)$", ln)
        if not m:
            continue
        addr = int(m.group(1), 16)
        rest = m.group(2)
        if arch != "a64":
            parts = rest.split("\t")
            if len(parts) < 2:
                continue       # continuation line of a long instruction
            ins = parts[-1].strip()
        else:
            ins = rest.strip().replace("\t", " ")
        while k < len(offs) and addr >= offs[k][1]:
            k += 1
        if k >= len(offs):
            break
        if addr < offs[k][0]:
            continue
        sp = ins.split(None, 1)
        out[k].append((sp[0].lower(), sp[1].strip() if len(sp) > 1 else ""))
    return out


class SymState:
    """byte-level symbolic machine state shared by the x86 and AArch64 interpreters"""

    def __init__(self, case):
        self.case = case
        self.arch = case["arch"]
        self.W = {"x64": 8, "x86": 4, "a64": 0}[self.arch]
        self.P = 4 if self.arch == "x86" else 8
        self.reg = {}           # (grp,id) -> list of byte symbols (gp: 8, vec: 64, k: 8, mm: 8)
        self.writer = {}        # (grp,id) -> mnemonic of the last write
        self.mem = {}           # (region, off) -> byte symbol
        self.memwriter = {}
        self.sp = ("in", 0)
        self.align = None
        self.stores = []        # (region, off, width, mnemonic, phase)
        self.misaligned = []
        self.phase = "prolog"
        for vi, v in enumerate(case["vals"]):
            s = v["src"]
            n = tsize(s["t"])
            if s.get("ind"):
                continue
            if s["k"] == "reg":
                r = self.getreg((s["g"], s["id"]))
                for i in range(min(n, len(r))):
                    r[i] = ("a", vi, i)
            elif s["k"] == "stack":
                for i in range(n):
                    self.mem[("in", self.W + s["off"] + i)] = ("a", vi, i)

    def width(self, g):
        return 64 if g == "vec" else 8

    def getreg(self, key):
        if key not in self.reg:
            self.reg[key] = [G() for _ in range(self.width(key[0]))]
        return self.reg[key]

    def setreg(self, key, data, mn, keep_upper=False):
        r = self.getreg(key)
        w = self.width(key[0])
        new = list(data) + ([("z",)] * (w - len(data)) if not keep_upper else r[len(data):])
        self.reg[key] = new[:w]
        self.writer[key] = mn

    def ptr_value(self, region, off):
        return [("p", region, off, i) for i in range(self.P)] + [("z",)] * (8 - self.P)

    def as_ptr(self, key):
        r = self.getreg(key)
        b = r[0]
        if b[0] == "p" and all(x[0] == "p" and x[1] == b[1] and x[2] == b[2] and x[3] == i for i, x in enumerate(r[:self.P])):
            return (b[1], b[2])
        return None

    def load(self, addr, n):
        return [self.mem.get((addr[0], addr[1] + i)) or G() for i in range(n)]

    def store(self, addr, data, mn):
        for i, b in enumerate(data):
            self.mem[(addr[0], addr[1] + i)] = b
            self.memwriter[(addr[0], addr[1] + i)] = mn
        self.stores.append((addr[0], addr[1], len(data), mn, self.phase))


X86_VEC_MOV = {"movaps": 1, "movups": 0, "movapd": 1, "movupd": 0, "movdqa": 1, "movdqu": 0, "movdqa32": 1, "movdqa64": 1, "movdqu32": 0,
               "movdqu64": 0, "movdqu8": 0, "movdqu16": 0}


def imm_byte(value, i):
    b = (value >> (8 * i)) & 0xFF
    return ("i", b) if b else ("z",)


def x86_run(st, insts, stop_at=None):
    sim = ap.X86Sim(64 if st.arch == "x64" else 32)
    spk = ("gp", 4)

    def sp_of():
        return st.sp

    def addr_of(m):
        _, base, disp, sym, index, size = m
        if index or sym is not None or base is None:
            raise Inconclusive("address form")
        if (base[0], base[1]) == spk:
            if st.sp is None:
                raise Inconclusive("sp unknown")
            return (st.sp[0], st.sp[1] + disp)
        p = st.as_ptr((base[0], base[1]))
        if p is None:
            raise Inconclusive("memory through a non-pointer register")
        return (p[0], p[1] + disp)

    def check_align(addr, n, mn):
        # 16-byte alignment is what both the ABI (x86-64) and an `and sp,-N` guarantee at least
        if addr[0] == "al":
            ok = addr[1] % min(n, st.align or 16) == 0
        elif st.arch == "x64":
            if addr[1] >= 8:
                ok = (addr[1] - 8) % min(n, 64) == 0 if n >= 16 else True    # stack argument: the caller aligns the area to the largest argument
            else:
                ok = (addr[1] - 8) % 16 == 0 if n >= 16 else True
        else:
            return
        if not ok:
            st.misaligned.append((mn, addr, n, st.phase))

    for idx, (mn, opstr) in enumerate(insts):
        ops = [o.strip() for o in ap.split_ops(opstr.lower())] if opstr else []
        vex = mn.startswith("v") and mn[1:] in (set(X86_VEC_MOV) | {"movd", "movq", "movss", "movsd", "movlps", "cvtss2sd", "cvtsd2ss", "cvtps2pd", "cvtpd2ps"})
        base_mn = mn[1:] if vex else mn
        if mn in ("nop", "endbr64", "endbr32", "vzeroupper", "emms"):
            continue
        if mn.startswith("rex") and opstr:
            sp2 = opstr.split(None, 1)       # objdump prints a redundant REX prefix as a word of its own
            mn, opstr = sp2[0].lower(), (sp2[1].strip() if len(sp2) > 1 else "")
            ops = [o.strip() for o in ap.split_ops(opstr.lower())] if opstr else []
            base_mn = mn
        if mn == "movabs":
            mn = base_mn = "mov"
        if base_mn == "movlps" and len(ops) == 2:
            d, s = sim.parse_op(ops[0]), sim.parse_op(ops[1])
            if d[0] == "r" and s[0] == "m":
                st.setreg((d[1][0], d[1][1]), st.load(addr_of(s), 8), mn, keep_upper=True)
                continue
            if d[0] == "m" and s[0] == "r":
                st.store(addr_of(d), st.getreg((s[1][0], s[1][1]))[:8], mn)
                continue
            raise Inconclusive("movlps form")
        if mn == "call":
            if not hasattr(st, "on_call"):
                raise Inconclusive("instruction call")
            st.on_call(sim.parse_op(ops[0]) if ops and not re.match(r"^0x[0-9a-f]+$", ops[0]) else ("i", 0))
            continue
        if mn == "ret":
            if not hasattr(st, "on_ret"):
                raise Inconclusive("instruction ret")
            st.on_ret(int(ops[0], 0) if ops else 0)
            return
        if mn == "pop":
            o = sim.parse_op(ops[0])
            if o[0] != "r" or (o[1][0], o[1][1]) == spk:
                raise Inconclusive("pop operand")
            data = st.load(st.sp, st.P)
            st.setreg((o[1][0], o[1][1]), data + [("z",)] * (8 - st.P), mn)
            st.sp = (st.sp[0], st.sp[1] + st.P)
            continue
        if mn == "leave":
            p = st.as_ptr(("gp", 5))
            if p is None:
                raise Inconclusive("leave with a non-pointer frame register")
            st.sp = p
            st.setreg(("gp", 5), st.load(st.sp, st.P) + [("z",)] * (8 - st.P), mn)
            st.sp = (st.sp[0], st.sp[1] + st.P)
            continue
        if mn in ("xor", "pxor", "xorps", "vpxor", "vxorps") and len(ops) >= 2 and len(set(ops)) == 1 and ops[0] in ap.X86REG:
            r = ap.X86REG[ops[0]]
            st.setreg((r[0], r[1]), [("z",)] * (8 if r[0] == "gp" else 16), mn, keep_upper=(r[0] == "vec" and not mn.startswith("v")))
            continue
        if mn == "fld" and hasattr(st, "on_call"):
            d = sim.parse_op(ops[0])
            if d[0] != "m" or not d[5]:
                raise Inconclusive("x87 load form")
            st.setreg(("st", 0), st.load(addr_of(d), d[5]), mn)
            continue
        if mn in ("fstp", "fst") and hasattr(st, "on_call"):
            d = sim.parse_op(ops[0])
            if d[0] != "m" or not d[5]:
                raise Inconclusive("x87 store form")
            st.store(addr_of(d), st.getreg(("st", 0))[:d[5]], mn)
            continue
        if mn == "push":
            o = sim.parse_op(ops[0])
            if o[0] != "r":
                raise Inconclusive("push operand")
            st.sp = (st.sp[0], st.sp[1] - st.P)
            st.store(st.sp, st.getreg((o[1][0], o[1][1]))[:st.P], mn)
            continue
        if mn in ("sub", "add") and ops[0] in ("rsp", "esp"):
            o = sim.parse_op(ops[1])
            if o[0] != "i":
                raise Inconclusive("sp arithmetic")
            st.sp = (st.sp[0], st.sp[1] + (o[1] if mn == "add" else -o[1]))
            continue
        if mn == "and" and ops[0] in ("rsp", "esp"):
            o = sim.parse_op(ops[1])
            v = o[1] & 0xFFFFFFFF
            st.align = (~v + 1) & 0xFFFFFFFF
            st.sp = ("al", 0)
            continue
        if mn == "lea":
            d = sim.parse_op(ops[0])
            s = sim.parse_op(ops[1])
            a = addr_of(s)
            if (d[1][0], d[1][1]) == spk:
                st.sp = a
            else:
                st.setreg((d[1][0], d[1][1]), st.ptr_value(a[0], a[1]), mn)
            continue
        if mn == "xchg":
            a, b = sim.parse_op(ops[0]), sim.parse_op(ops[1])
            if a[0] != "r" or b[0] != "r":
                raise Inconclusive("xchg with memory")
            ka, kb = (a[1][0], a[1][1]), (b[1][0], b[1][1])
            w = a[1][2]
            ra, rb = st.getreg(ka), st.getreg(kb)
            if w == 8:
                na, nb = rb[:8], ra[:8]
            elif w == 4:
                na, nb = rb[:4] + [("z",)] * 4, ra[:4] + [("z",)] * 4
            else:
                na, nb = rb[:w] + ra[w:8], ra[:w] + rb[w:8]
            st.setreg(ka, na, mn)
            st.setreg(kb, nb, mn)
            continue
        if mn in ("mov", "movzx", "movsx", "movsxd"):
            d, s = sim.parse_op(ops[0]), sim.parse_op(ops[1])
            if d[0] == "r":
                dk = (d[1][0], d[1][1])
                dw = d[1][2]
                if s[0] == "r":
                    sk = (s[1][0], s[1][1])
                    sw = s[1][2]
                    if sk == spk:
                        if dk == spk:
                            continue
                        st.setreg(dk, st.ptr_value(st.sp[0], st.sp[1]), mn)
                        continue
                    if dk == spk:
                        p = st.as_ptr(sk)
                        if p is None:
                            raise Inconclusive("sp loaded from a non-pointer")
                        st.sp = p
                        continue
                    data = st.getreg(sk)[:sw]
                elif s[0] == "m":
                    sw = s[5] or dw
                    data = st.load(addr_of(s), sw)
                    if dk == spk:
                        b = data[0]
                        if not (b and b[0] == "p" and all(x and x[0] == "p" and x[1:3] == b[1:3] and x[3] == i for i, x in enumerate(data[:st.P]))):
                            raise Inconclusive("sp loaded from memory that holds no saved stack pointer")
                        st.sp = (b[1], b[2])
                        continue
                elif s[0] == "i":
                    data = [imm_byte(s[1], i) for i in range(dw)]
                    sw = dw
                else:
                    raise Inconclusive("mov source")
                if mn == "mov":
                    data = data[:dw]
                elif mn == "movzx":
                    data = data[:sw] + [("z",)] * (dw - sw)
                else:
                    data = data[:sw] + [("s", data[sw - 1])] * (dw - sw)
                if dw == 4 and st.arch == "x64":
                    data = data + [("z",)] * 4
                if dw in (1, 2):
                    old = st.getreg(dk)
                    data = data + old[dw:8]
                st.setreg(dk, data[:8], mn)
                continue
            if d[0] == "m":
                if s[0] == "r":
                    sk = (s[1][0], s[1][1])
                    w = d[5] or s[1][2]
                    if sk == spk:
                        data = st.ptr_value(st.sp[0], st.sp[1])[:w]
                    else:
                        data = st.getreg(sk)[:w]
                    st.store(addr_of(d), data, mn)
                    continue
                if s[0] == "i":
                    w = d[5] or 4
                    st.store(addr_of(d), [imm_byte(s[1], i) for i in range(w)], mn)
                    continue
            raise Inconclusive("mov form")
        if base_mn in X86_VEC_MOV or base_mn in ("movd", "movq", "movss", "movsd") or mn in ("kmovb", "kmovw", "kmovd", "kmovq", "movq2dq", "movdq2q"):
            d, s = sim.parse_op(ops[0]), sim.parse_op(ops[1])
            if len(ops) != 2:
                raise Inconclusive("3-operand move")
            n_by_mn = {"movd": 4, "movss": 4, "movq": 8, "movsd": 8, "kmovb": 1, "kmovw": 2, "kmovd": 4, "kmovq": 8, "movq2dq": 8, "movdq2q": 8}
            if d[0] == "r":
                dk = (d[1][0], d[1][1])
                if s[0] == "r":
                    sk = (s[1][0], s[1][1])
                    n = n_by_mn.get(base_mn if base_mn in n_by_mn else mn, min(d[1][2], s[1][2]))
                    data = st.getreg(sk)[:n]
                    merge = base_mn in ("movss", "movsd") and s[1][0] == "vec"
                else:
                    n = n_by_mn.get(base_mn if base_mn in n_by_mn else mn, s[5] or d[1][2])
                    a = addr_of(s)
                    if X86_VEC_MOV.get(base_mn):
                        check_align(a, n, mn)
                    data = st.load(a, n)
                    merge = False
                if d[1][0] == "vec":
                    if merge:
                        st.setreg(dk, data, mn, keep_upper=True)
                    elif vex or s[0] == "m" or base_mn in ("movd", "movq", "movq2dq"):
                        # VEX zeroes everything above; legacy SSE loads / movd / movq zero bits up to 127 and keep the rest
                        old = st.getreg(dk)
                        new = data + [("z",)] * (16 - len(data)) if len(data) < 16 else data
                        if not vex:
                            new = new + old[len(new):]
                        st.setreg(dk, new, mn)
                    else:
                        st.setreg(dk, data, mn, keep_upper=True)
                elif d[1][0] == "gp":
                    st.setreg(dk, data + [("z",)] * (8 - len(data)), mn)
                else:
                    st.setreg(dk, data + [("z",)] * (8 - len(data)), mn)
                continue
            if d[0] == "m" and s[0] == "r":
                sk = (s[1][0], s[1][1])
                n = n_by_mn.get(base_mn if base_mn in n_by_mn else mn, d[5] or s[1][2])
                a = addr_of(d)
                if X86_VEC_MOV.get(base_mn):
                    check_align(a, n, mn)
                st.store(a, st.getreg(sk)[:n], mn)
                continue
            raise Inconclusive("vector move form")
        if base_mn in ("cvtss2sd", "cvtsd2ss", "cvtps2pd", "cvtpd2ps"):
            d, s = sim.parse_op(ops[0]), sim.parse_op(ops[-1])
            src_n = {"cvtss2sd": 4, "cvtsd2ss": 8, "cvtps2pd": 8, "cvtpd2ps": 16}[base_mn]
            dst_n = {"cvtss2sd": 8, "cvtsd2ss": 4, "cvtps2pd": 16, "cvtpd2ps": 8}[base_mn]
            data = st.getreg((s[1][0], s[1][1]))[:src_n] if s[0] == "r" else st.load(addr_of(s), src_n)
            res = [("cvt", base_mn, tuple(data), i) for i in range(dst_n)]
            st.setreg((d[1][0], d[1][1]), res, mn, keep_upper=True)
            continue
        raise Inconclusive("instruction " + mn)


def a64_run(st, insts):
    def reg(tok):
        r = ap.a64_reg(tok)
        if r is None:
            raise Inconclusive("operand " + tok)
        return r

    def addr(base, disp):
        if base[0] == "sp":
            return (st.sp[0], st.sp[1] + disp)
        p = st.as_ptr(("gp", base[1]))
        if p is None:
            raise Inconclusive("memory through a non-pointer register")
        return (p[0], p[1] + disp)

    sim = ap.A64Sim()
    for mn, opstr in insts:
        ops = [o.strip() for o in ap.split_ops(opstr)] if opstr else []
        if mn in ("nop", "bti", "paciasp", "autiasp"):
            continue
        if mn in ("blr", "bl"):
            if not hasattr(st, "on_call"):
                raise Inconclusive("instruction " + mn)
            r = ap.a64_reg(ops[0]) if mn == "blr" else None
            st.on_call(("r", r) if r else ("i", 0))
            continue
        if mn == "ret":
            if not hasattr(st, "on_ret"):
                raise Inconclusive("instruction ret")
            st.on_ret(0)
            return
        if mn in ("mov", "movz", "movn", "movk") and len(ops) >= 2 and ops[1].startswith("#"):
            d = reg(ops[0])
            if d[0] != "gp":
                raise Inconclusive("immediate move to " + ops[0])
            v = int(ops[1][1:], 0)
            sh = 0
            if len(ops) > 2:
                m = re.match(r"lsl #(\d+)", ops[2])
                if not m:
                    raise Inconclusive("immediate move modifier " + ops[2])
                sh = int(m.group(1))
            if mn == "movk":
                old = list(st.getreg(("gp", d[1])))
                new = old[:]
                for i in range(2):
                    new[sh // 8 + i] = imm_byte(v, i)
                st.setreg(("gp", d[1]), new[:d[2]] + [("z",)] * (8 - d[2]), mn)
                continue
            v = (~(v << sh) if mn == "movn" else (v << sh)) & ((1 << (8 * d[2])) - 1)
            st.setreg(("gp", d[1]), [imm_byte(v, i) for i in range(d[2])] + [("z",)] * (8 - d[2]), mn)
            continue
        if mn in ("sub", "add") and len(ops) >= 3 and ops[0] != "sp" and ops[2].startswith("#") and ops[0].startswith("x"):
            d, s_ = reg(ops[0]), ap.a64_reg(ops[1])
            imm = int(ops[2].lstrip("#"), 0)
            if len(ops) > 3:
                m = re.match(r"lsl #(\d+)", ops[3])
                if not m:
                    raise Inconclusive("add modifier")
                imm <<= int(m.group(1))
            if mn == "sub":
                imm = -imm
            if s_ is None:
                raise Inconclusive("add source " + ops[1])
            p = (st.sp if s_[0] == "sp" else st.as_ptr(("gp", s_[1])))
            if p is None:
                raise Inconclusive("arithmetic on a non-pointer")
            st.setreg(("gp", d[1]), st.ptr_value(p[0], p[1] + imm), mn)
            continue
        if mn in ("sub", "add") and len(ops) >= 3 and ops[0] == "sp" and ops[1] == "sp":
            imm = int(ops[2].lstrip("#"), 0)
            if len(ops) > 3:
                m = re.match(r"lsl #(\d+)", ops[3])
                if m:
                    imm <<= int(m.group(1))
            st.sp = (st.sp[0], st.sp[1] + (imm if mn == "add" else -imm))
            continue
        if mn == "and" and ops[0] == "sp":
            m = re.match(r"#(-?0x[0-9a-f]+|-?\d+)", ops[2])
            v = int(m.group(1), 0) & 0xFFFFFFFFFFFFFFFF
            st.align = (~v + 1) & 0xFFFFFFFF
            st.sp = ("al", 0)
            continue
        if mn in ("mov", "fmov") and len(ops) == 2:
            d, s = reg(ops[0]), ap.a64_reg(ops[1])
            if s is None:
                raise Inconclusive("mov source " + ops[1])
            if s[0] == "sp":
                st.setreg(("gp", d[1]), st.ptr_value(st.sp[0], st.sp[1]), mn)
                continue
            if d[0] == "sp":
                p = st.as_ptr(("gp", s[1]))
                if p is None:
                    raise Inconclusive("sp from a non-pointer")
                st.sp = p
                continue
            if s[0] == "zr":
                st.setreg((d[0], d[1]), [("z",)] * 8, mn)
                continue
            w = min(d[2], s[2])
            data = st.getreg((s[0], s[1]))[:w]
            st.setreg((d[0], d[1]), data + [("z",)] * ((8 if d[0] == "gp" else 16) - w), mn)
            continue
        ld = re.match(r"^(ldr|ldur)(b|h|sb|sh|sw)?$", mn)
        stq = re.match(r"^(str|stur)(b|h)?$", mn)
        if ld or stq:
            r = reg(ops[0])
            base, disp, sym, wb, post = sim.parse_mem(", ".join(ops[1:]))
            suf = (ld or stq).group(2)
            w = r[2]
            if suf:
                w = {"b": 1, "h": 2, "sb": 1, "sh": 2, "sw": 4}[suf]
            if wb == "pre":
                if base[0] != "sp":
                    raise Inconclusive("writeback")
                st.sp = (st.sp[0], st.sp[1] + disp)
                disp = 0
            a = addr(base, disp)
            if ld:
                data = st.load(a, w)
                full = 8 if r[0] == "gp" else 16
                if suf in ("sb", "sh", "sw"):
                    data = data + [("s", data[-1])] * (r[2] - w) + [("z",)] * (full - r[2])
                else:
                    data = data + [("z",)] * (full - w)
                st.setreg((r[0], r[1]), data, mn)
            else:
                st.store(a, st.getreg((r[0], r[1]))[:w] if r[0] != "zr" else [("z",)] * w, mn)
            if wb == "post":
                if base[0] != "sp":
                    raise Inconclusive("writeback")
                st.sp = (st.sp[0], st.sp[1] + post)
            continue
        if mn in ("stp", "ldp"):
            r1, r2 = reg(ops[0]), reg(ops[1])
            base, disp, sym, wb, post = sim.parse_mem(", ".join(ops[2:]))
            if wb == "pre":
                if base[0] != "sp":
                    raise Inconclusive("writeback")
                st.sp = (st.sp[0], st.sp[1] + disp)
                disp = 0
            for i, r in enumerate((r1, r2)):
                a = addr(base, disp + i * r[2])
                if mn == "stp":
                    st.store(a, st.getreg((r[0], r[1]))[:r[2]], mn)
                else:
                    st.setreg((r[0], r[1]), st.load(a, r[2]), mn)
            if wb == "post":
                st.sp = (st.sp[0], st.sp[1] + post)
            continue
        if mn in ("sxtb", "sxth", "sxtw", "uxtb", "uxth"):
            d, s = reg(ops[0]), reg(ops[1])
            n = {"b": 1, "h": 2, "w": 4}[mn[3]]
            data = st.getreg((s[0], s[1]))[:n]
            fill = ("s", data[-1]) if mn[0] == "s" else ("z",)
            st.setreg((d[0], d[1]), data + [fill] * (d[2] - n) + [("z",)] * (8 - d[2]), mn)
            continue
        raise Inconclusive("instruction " + mn)


def slot_size(arch, size):
    al = 64 if size >= 64 else 32 if size >= 32 else 16 if size >= 16 else 8 if size >= 8 else 4
    if arch != "x86" and al < 8:
        al = 8
    return max(size, al)


def norm_mn(mn):
    m = mn[1:] if mn.startswith("v") and mn != "vzeroupper" else mn
    m = re.sub(r"(32|64|8|16)$", "", m) if m.startswith("movdq") else m
    if m in ("movaps", "movapd", "movdqa"):
        return "aligned-vector-move"
    if m in ("movups", "movupd", "movdqu"):
        return "unaligned-vector-move"
    if re.match(r"^(ldr|ldur)", m):
        return "ldr"
    if re.match(r"^(str|stur)", m):
        return "str"
    return m


def cls_of(t):
    if t in TYPE_SIGNED:
        return "int"
    return coarse(t)


X86_NO_WRITE = {"cmp", "test", "push", "nop", "ret", "jmp", "call", "endbr64", "endbr32", "vzeroupper", "emms", "ucomiss", "ucomisd", "comiss", "comisd"}
A64_NO_WRITE = {"cmp", "cmn", "tst", "nop", "bti", "ret", "b", "br", "blr", "bl", "paciasp", "autiasp", "fcmp"}


def reg_events(arch, insts):
    """What the instruction stream does to registers, in program order: (index, 'w', grp, id, mnemonic) = the instruction writes the
    register, (index, 's', grp, id, mnemonic) = it stores the register to memory (push / mov [m],r / str / stp). Purely syntactic (works on
    every instruction objdump / llvm-objdump printed, also where the symbolic run gives up); the stack pointer is not reported."""
    ev = []
    if arch != "a64":
        for i, (mn, opstr) in enumerate(insts):
            ops = [o.strip() for o in ap.split_ops(opstr.lower())] if opstr else []
            regs = [ap.X86REG.get(o) for o in ops]
            if mn == "push":
                if regs and regs[0]:
                    ev.append((i, "s", regs[0][0], regs[0][1], mn))
                continue
            if mn == "pop":
                if regs and regs[0]:
                    ev.append((i, "w", regs[0][0], regs[0][1], mn))
                continue
            if mn in X86_NO_WRITE or not ops:
                continue
            if mn == "mov" and len(ops) == 2 and ops[0] == ops[1] and regs[0] is not None and not (arch == "x64" and regs[0][2] == 4):
                continue       # `mov r, r` changes nothing (except the 32-bit form in 64-bit mode, which clears the upper half)
            if regs[0] is not None:
                if not (regs[0][0] == "gp" and regs[0][1] == 4):
                    ev.append((i, "w", regs[0][0], regs[0][1], mn))
                if mn == "xchg" and len(regs) > 1 and regs[1] is not None and not (regs[1][0] == "gp" and regs[1][1] == 4):
                    ev.append((i, "w", regs[1][0], regs[1][1], mn))
            elif "[" in ops[0] and len(regs) > 1 and regs[1] is not None and (mn.startswith(("mov", "vmov", "kmov"))):
                ev.append((i, "s", regs[1][0], regs[1][1], mn))
        return ev
    for i, (mn, opstr) in enumerate(insts):
        ops = [o.strip() for o in ap.split_ops(opstr)] if opstr else []
        if mn in A64_NO_WRITE or not ops:
            continue
        if re.match(r"^(stp|str|stur|strb|strh|sturb|sturh|stnp)$", mn):
            for o in ops[:2 if mn in ("stp", "stnp") else 1]:
                r = ap.a64_reg(o)
                if r and r[0] in ("gp", "vec"):
                    ev.append((i, "s", r[0], r[1], mn))
            continue
        if mn == "mov" and len(ops) == 2 and ops[0] == ops[1] and ops[0].startswith("x"):
            continue           # `mov xN, xN` changes nothing
        for o in ops[:2 if mn in ("ldp", "ldnp", "ldpsw") else 1]:
            r = ap.a64_reg(o)
            if r and r[0] in ("gp", "vec"):
                ev.append((i, "w", r[0], r[1], mn))
    return ev


def reg_name(arch, grp, rid):
    if grp == "gp":
        return ap.GP64[rid] if arch == "x64" else ap.GP32[rid] if arch == "x86" else "x%d" % rid
    if grp == "vec":
        return ("xmm%d" if arch != "a64" else "v%d") % rid
    return "%s%d" % (grp, rid)


def clobber_role(case, grp, rid):
    """which job the register has in this case: identifies the input class (part of the violation key)"""
    sp = 31 if case["arch"] == "a64" else 4
    if grp == "gp":
        if rid == case.get("sa_reg", -1) and rid != sp:
            return "sa-base:" + ("requested" if rid in (case.get("sa_out", -1), case.get("sa_preset", -1)) else "picked")
        if rid == case.get("sa_out", -1):
            return "sa-out-differs-from-frame-sa"
    for v in case["vals"]:
        d = v.get("dst")
        if d and d["k"] == "reg" and d["g"] == grp and d["id"] == rid:
            return "argument-destination"
    return "scratch"


def frame_text(case):
    return "frame: preserved_fp=%d local alignment=%d dynamic alignment=%s FuncArgsAssignment::sa_reg_id=%s FuncFrame::set_sa_reg_id=%s -> frame.sa_reg_id()=%s saved_regs gp=0x%x vec=0x%x dirty gp=0x%x" % (
        case["fp"], case["align"], case.get("da", "?"), case.get("sa_out", -1), case.get("sa_preset", -1), case.get("sa_reg", "?"),
        case.get("saved", [0, 0])[0], case.get("saved", [0, 0])[1], case.get("dirty", [0, 0])[0])


def judge_preserved(case, insts, ctext):
    """-> (violations, number of written preserved registers verified) : native sentinel comparison + the static rule `a preserved register the
    prolog / argument shuffle writes is in FuncFrame::saved_regs() and has been stored by the prolog before`"""
    arch = case["arch"]
    viol = []
    seen = set()
    names = {"x64": "x86-64", "x86": "i386", "a64": "AArch64"}
    for g, rid, before, after in case.get("pres_bad", []):
        role = clobber_role(case, g, rid)
        key = "shuffle:%s:callee-saved-clobbered:%s" % (arch, role)
        if key in seen:
            continue
        seen.add(key)
        viol.append((key, "native run (%s, %s): callee-saved %s held %s at the call and %s after the function returned; role of the register: %s | %s | %s" % (
            names[arch], case["conv"], reg_name(arch, g, rid), before, after, role, frame_text(case), ctext)))
    if "sp_bad" in case:
        viol.append(("shuffle:%s:stack-pointer-not-restored" % arch, "native run: the stack pointer after the return is off by %d bytes from what the convention prescribes | %s | %s" % (case["sp_bad"], frame_text(case), ctext)))
    if "apres" not in case or "saved" not in case:
        return viol, 0
    pres = {"gp": case["apres"][0], "vec": case["apres"][1]}
    saved = {"gp": case["saved"][0], "vec": case["saved"][1]}
    stored = set()
    verified = set()
    nprolog = case["_split"]
    for i, kind, g, rid, mn in reg_events(arch, insts):
        if g not in pres or rid >= 32 or not (pres[g] >> rid) & 1:
            continue
        if kind == "s":
            if i < nprolog:
                stored.add((g, rid))
            continue
        if (g, rid) in verified:
            continue
        verified.add((g, rid))
        role = clobber_role(case, g, rid)
        where = "prolog" if i < nprolog else "argument shuffle"
        if not (saved[g] >> rid) & 1:
            key = "shuffle:%s:preserved-register-not-saved:%s" % (arch, role)
            if key not in seen:
                seen.add(key)
                viol.append((key, "%s/%s: the %s writes %s (`%s %s`), which the convention preserves, but FuncFrame::saved_regs() does not contain it (the epilog cannot restore it); role of the register: %s | %s | %s" % (
                    case["env"], case["conv"], where, reg_name(arch, g, rid), insts[i][0], insts[i][1], role, frame_text(case), ctext)))
        elif (g, rid) not in stored:
            key = "shuffle:%s:preserved-register-not-stored-by-prolog:%s" % (arch, role)
            if key not in seen:
                seen.add(key)
                viol.append((key, "%s/%s: the %s writes %s (`%s %s`), which the convention preserves and FuncFrame::saved_regs() lists, but no earlier prolog instruction stores it | %s | %s" % (
                    case["env"], case["conv"], where, reg_name(arch, g, rid), insts[i][0], insts[i][1], frame_text(case), ctext)))
    return viol, len(verified)


def case_text(case):
    return "%s/%s %s shape=%s fp=%d align=%d case %d seed-arg %s" % (case["env"], case["conv"], ",".join(case["sig"]), case["shape"], case["fp"], case["align"], case["i"], case.get("_argv", ""))


def judge_case(case, insts):
    """-> (list of (key, what), verdict) for one emitted case"""
    arch = case["arch"]
    st = SymState(case)
    nprolog = None
    # split the instruction list at the prolog boundary by byte length: we only know lengths in bytes, so re-disassemble
    # boundaries are carried in case["_split"] (number of instructions that belong to the prolog)
    nprolog = case["_split"]
    try:
        st.phase = "prolog"
        (x86_run if arch != "a64" else a64_run)(st, insts[:nprolog])
        st.phase = "assign"
        (x86_run if arch != "a64" else a64_run)(st, insts[nprolog:])
    except (Inconclusive, ap.Unparsed, ValueError, IndexError, KeyError, TypeError) as e:
        return [], "inconclusive: %s" % (str(e)[:80])
    viol = []
    native = {n[0]: n for n in case.get("nat", [])}
    ctext = case_text(case)
    slots = []
    for vi, v in enumerate(case["vals"]):
        if "dst" not in v:
            continue
        s, d = v["src"], v["dst"]
        stype, dtype = s["t"], v["eff"]
        ssz, dsz = tsize(stype), tsize(dtype)
        if d["k"] == "reg":
            got = st.getreg((d["g"], d["id"]))
            writer = st.writer.get((d["g"], d["id"]), "nothing")
        else:
            a = (st.sp[0], st.sp[1] + d["off"])
            got = st.load(a, max(dsz, ssz))
            writer = st.memwriter.get((a[0], a[1]), "nothing")
            slots.append((d["off"], slot_size(arch, max(dsz, ssz)), vi))
        kind = "move"
        exp = [("a", vi, i) for i in range(min(ssz, dsz))]
        if v.get("cvt"):
            kind = "convert"
            want = "cvtss2sd" if stype == "f32" else "cvtsd2ss"
            src_bytes = tuple(("a", vi, i) for i in range(ssz))
            exp = [("cvt", want, src_bytes, i) for i in range(dsz if dsz <= 8 else (8 if stype == "f32" else 4))]
            # packed forms would be fine too as long as lane 0 is converted from the right source type
        elif stype in TYPE_SIGNED and dtype in TYPE_SIGNED and dsz > ssz:
            kind = "sext" if TYPE_SIGNED[stype] else "zext"
            fill = ("s", ("a", vi, ssz - 1)) if TYPE_SIGNED[stype] else ("z",)
            exp = exp + [fill] * (dsz - ssz)
        ok = True
        for i, e in enumerate(exp):
            g = got[i] if i < len(got) else None
            if g == e:
                continue
            if kind == "convert" and g and g[0] == "cvt" and g[1].replace("ps2pd", "ss2sd").replace("pd2ps", "sd2ss") == e[1] and g[2][:len(e[2])] == e[2] and g[3] == e[3]:
                continue
            ok = False
            break
        nat_bad = vi in native
        nat_note = ""
        if ok and not nat_bad:
            continue
        sk, dk = s["k"], d["k"]
        conf = ""
        if case.get("native") not in (None,) and not case.get("native", "").startswith("crash"):
            if ok and nat_bad:
                conf = ":native-only"
            elif not ok and not nat_bad:
                conf = ""
                nat_note = " | the native run did not expose it (the junk happened to equal the expected bytes)"
        key = "shuffle:%s:%s:%s:%s->%s:via-%s%s" % (arch, kind, cls_of(stype), sk, dk, norm_mn(writer), conf)
        nat_txt = nat_note
        if nat_bad:
            nat_txt = " | native run: expected %s got %s" % (native[vi][2], native[vi][3])
        viol.append((key, "argument %d.%d %s %s -> %s %s (type %s): destination holds %s, expected %s%s | %s" % (
            v["a"], v["v"], stype, fmt_loc(aj_loc(s)), fmt_loc(aj_loc(d)), "", dtype,
            " ".join(fmt_sym(x) for x in got[:max(len(exp), 1)]), " ".join(fmt_sym(x) for x in exp), nat_txt, ctext)))
    # stores of the assignment phase must stay inside the destination slot they start in
    overrun = False
    if st.sp is not None:
        for region, off, width, mn, phase in st.stores:
            if phase != "assign" or region != st.sp[0]:
                continue
            rel = off - st.sp[1]
            hit = [sl for sl in slots if sl[0] <= rel < sl[0] + sl[1]]
            if hit and rel + width > hit[0][0] + hit[0][1]:
                v = case["vals"][hit[0][2]]
                overrun = True
                viol.append(("shuffle:%s:store-overruns-destination-slot:%s" % (arch, cls_of(v["src"]["t"])),
                             "argument %d (%s) assigned to a %d-byte stack slot at [sp+%d] is stored with a %d-byte `%s`, overwriting what follows the slot | %s" % (
                                 v["a"], v["src"]["t"], tsize(v["eff"]), hit[0][0], width, mn, ctext)))
                break
    for mn, a, n, phase in st.misaligned:
        if phase == "assign" and not (overrun and a[0] == st.sp[0] and a[1] < (st.W if a[0] == "in" else 1 << 30) and not (a[0] == "in" and a[1] >= st.W)):
            what = "stack-argument" if a[0] == "in" and st.sp and (a[0] != st.sp[0] or a[1] >= st.sp[1] + case.get("lso", 0) + 1024) else "frame"
            if a[0] == "in" and a[1] >= st.W:
                what = "stack-argument"
            elif a[0] == "in":
                what = "frame"
            viol.append(("shuffle:%s:aligned-move-on-unaligned-address:%s" % (arch, what),
                         "`%s` of %d bytes at %s%+d which is not %d-byte aligned (would fault) | %s" % (mn, n, "entry_sp" if a[0] == "in" else "aligned_sp", a[1], min(n, 16), ctext)))
            break
    if case.get("sa_out", -1) >= 0:
        p = st.as_ptr(("gp", case["sa_out"]))
        want = ("in", st.W - case["sa_off_sa"])
        if p != want or case.get("sa_bad"):
            viol.append(("shuffle:%s:sa-register-wrong" % arch, "stack-argument base register %d holds %s, expected entry_sp%+d%s | %s" % (
                case["sa_out"], p, want[1], " (native run disagrees too)" if case.get("sa_bad") else "", ctext)))
    if case.get("native", "").startswith("crash") and not viol:
        viol.append(("shuffle:%s:crash-unexplained" % arch, "native run crashed (%s) but the symbolic run found nothing | %s" % (case["native"], ctext)))
    return viol, "checked"


def fmt_sym(b):
    if b is None:
        return "?"
    if b[0] == "a":
        return "a%d.%d" % (b[1], b[2])
    if b[0] == "z":
        return "00"
    if b[0] == "s":
        return "sx(%s)" % fmt_sym(b[1])
    if b[0] == "g":
        return "junk"
    if b[0] == "p":
        return "ptr"
    if b[0] == "cvt":
        return "%s(%s)[%d]" % (b[1], fmt_sym(b[2][0]), b[3])
    if b[0] == "i":
        return "%02x" % b[1]
    if b[0] == "r":
        return "ret.%d" % b[1]
    if b[0] == "cr":
        return "val.%d" % b[1]
    if b[0] == "e":
        return "entry(%s%d).%d" % (b[1], b[2], b[3])
    if b[0] == "clob":
        return "changed-by-callee(%s%d)" % b[1]
    return str(b[0])


def shape_of(case):
    """assignment shape for the evidence: cycle lengths, stack moves, extensions"""
    roles = {}
    ext = 0
    moves = {"reg->stack": 0, "stack->reg": 0, "stack->stack": 0, "reg->reg": 0}
    for v in case["vals"]:
        if "dst" not in v:
            continue
        moves["%s->%s" % (v["src"]["k"], v["dst"]["k"])] += 1
        r = v.get("role")
        if r:
            roles[r] = roles.get(r, 0) + 1
        if tsize(v["eff"]) > tsize(v["src"]["t"]) and v["src"]["t"] in TYPE_SIGNED:
            ext += 1
    return (tuple(sorted(roles.items())), tuple(sorted(moves.items())), min(ext, 3), case.get("sa_out", -1) >= 0, bool(case.get("da")), bool(case.get("fp")))


def nontrivial_shape(sh):
    roles = dict(sh[0])
    moves = dict(sh[1])
    return any(k.startswith("cycle") or k in ("swap", "chain", "self") for k in roles) or moves["reg->stack"] or moves["stack->reg"] or moves["stack->stack"] or sh[2]


def run_shuffle_job(exe, argv, with_restart):
    """-> (cases, summary dicts, sanitizer reports [(case index, report)])"""
    cases, reports, summaries = [], [], []
    first = int(argv[argv.index("--first") + 1]) if "--first" in argv else 0
    count = int(argv[argv.index("--count") + 1])
    end = first + count
    pos = first
    restarts = 0
    base = [a for a in argv]
    while pos < end:
        av = list(base)
        av[av.index("--first") + 1] = str(pos)
        av[av.index("--count") + 1] = str(end - pos)
        # no stack traces here: symbolising one per abort costs seconds; one trace per distinct report is fetched later
        rc, out, err = common.run_child([exe] + av, timeout=1800, env={"UBSAN_OPTIONS": "print_stacktrace=0:halt_on_error=1:exitcode=67"} if with_restart else None)
        last = pos - 1
        done = False
        for ln in out.decode("utf-8", "replace").splitlines():
            try:
                d = json.loads(ln)
            except ValueError:
                continue
            if d.get("summary"):
                summaries.append(d)
                done = True
                continue
            if "i" in d:
                last = d["i"]
                d["_argv"] = " ".join(av)
                cases.append(d)
        if done:
            break
        if cases and cases[-1].get("err") == "hang" and cases[-1]["i"] == last:
            pos = last + 1       # the driver gave up after a watchdog firing (ASan flavour exits instead of leaking)
            restarts += 1
            if restarts > 60:
                break
            continue
        rep = common.sanitizer_report(err)
        bad = last + 1
        reports.append((bad, rep or {"kind": "driver died rc=%s" % rc, "frames": [err.decode("utf-8", "replace")[-400:]]}, av))
        pos = bad + 1
        restarts += 1
        if not with_restart or restarts > 60:
            break
    return cases, summaries, reports


def workload_c(chk, exe_plain, exe_asan, tier, scale, cov):
    seed = chk.seed
    if tier == "quick":
        n64, n32, na64, nsan, ncvt = int(2400 * scale), int(1200 * scale), int(1000 * scale), int(500 * scale), int(150 * scale)
    else:
        n64, n32, na64, nsan, ncvt = int(60000 * scale), int(30000 * scale), int(20000 * scale), int(6000 * scale), int(1500 * scale)
    jobs = []
    per = 400

    def add_jobs(exe, arch, total, extra, restart, tag):
        k = 0
        while k < total:
            c = min(per, total - k)
            jobs.append((exe, ["--mode", "shuffle", "--arch", arch, "--seed", str(seed), "--first", str(k), "--count", str(c)] + extra, restart, tag))
            k += c

    add_jobs(exe_plain, "x64", max(n64, 1), ["--exec", "1"], False, "plain")
    add_jobs(exe_plain, "x86", max(n32, 1), ["--exec", "1"], False, "plain")     # executed through the 64->32 far-call gate
    add_jobs(exe_plain, "a64", max(na64, 1), [], False, "plain")
    add_jobs(exe_plain, "x64", max(ncvt, 1), ["--exec", "1", "--convert", "1", "--seed", str(seed + 7777)], False, "plain")
    # enumerated frame/assignment variants for signatures with stack-passed arguments (drv_func --savar): SA register x dynamic alignment x
    # preserved FP per convention; one round = 64 variants (72 on i386: + conventions whose scratch registers all hold arguments) per convention
    rounds = (2, 1, 2) if tier == "quick" else (40, 20, 30)
    nv64, nv32, nva64 = int(64 * 3 * rounds[0] * scale), int(72 * 8 * rounds[1] * scale), int(64 * 2 * rounds[2] * scale)
    add_jobs(exe_plain, "x64", max(nv64, 1), ["--exec", "1", "--savar", "1", "--seed", str(seed + 4242)], False, "plain")
    add_jobs(exe_plain, "x86", max(nv32, 1), ["--exec", "1", "--savar", "1", "--seed", str(seed + 4242)], False, "plain")
    add_jobs(exe_plain, "a64", max(nva64, 1), ["--savar", "1", "--seed", str(seed + 4242)], False, "plain")
    # the same generator under ASan+UBSan (no native execution): sanitizer reports inside FuncArgsContext / emit helpers
    sper = 100
    for arch in ("x64", "x86", "a64"):
        k = 0
        while k < max(nsan // 3, 1):
            c = min(sper, max(nsan // 3, 1) - k)
            jobs.append((exe_asan, ["--mode", "shuffle", "--arch", arch, "--seed", str(seed), "--first", str(k), "--count", str(c), "--exec", "0"], True, "asan"))
            k += c

    def one(job):
        exe, argv, restart, tag = job
        cases, sums, reps = run_shuffle_job(exe, argv, restart)
        return job, cases, sums, reps

    tot = {"cases": 0, "emitted": 0, "executed": 0, "executed_x86": 0, "crashed": 0, "rejected": 0}
    rejects = {}
    shapes = set()
    shapes_nt = set()
    inconclusive = {}
    checked = 0
    san_aborts = 0
    samples = []
    rejected_samples = []
    refused = {}
    san_kinds = set()
    pres = {"native_cases": 0, "native_registers_compared": 0, "static_cases": 0, "static_written_preserved_registers_verified": 0}
    variants = {}
    variant_combos = set()
    variant_samples = []
    regfile_moves = {}
    for job, cases, sums, reps in common.parallel_map(one, jobs):
        exe, argv, restart, tag = job
        arch = argv[argv.index("--arch") + 1]
        for bad, rep, av in reps:
            san_aborts += 1
            kind = rep["kind"].split(" on ")[0][:70]
            if kind in san_kinds:
                continue
            san_kinds.add(kind)
            only = av + ["--only", str(bad)]
            rc2, out2, err2 = common.run_child([exe] + only, timeout=600)
            rep2 = common.sanitizer_report(err2) or rep
            chk.violation(san_key("shuffle", rep2),
                          "sanitizer report in case %d of `%s`: %s %s" % (bad, " ".join(av), rep2["kind"], rep2["frames"][:5]),
                          {"part": "shuffle", "flavour": tag, "argv": only})
        if tag == "asan":
            continue
        for sm in sums:
            tot["cases"] += sm["cases"]
            tot["emitted"] += sm["emitted"]
            tot["executed" if arch != "x86" else "executed_x86"] += sm["executed"]
            tot["crashed"] += sm["crashed"]
            for k, v in sm["rejects"].items():
                rejects[k] = rejects.get(k, 0) + v
        todo = [c for c in cases if "code" in c]
        for c in cases:
            if "err" in c and "vals" in c and not c["err"].startswith("detail:"):
                feats = set()
                byte_hi = False
                for v in c["vals"]:
                    if "dst" not in v:
                        continue
                    r = v.get("role", "")
                    if r.startswith("cycle"):
                        feats.add("cycle-of-3-or-more:" + v["src"]["g"])
                    if v["src"]["k"] == "stack" and v["dst"]["k"] == "stack" and cls_of(v["src"]["t"]) in ("f32", "f64"):
                        feats.add("stack->stack:" + cls_of(v["src"]["t"]))
                    if v.get("cvt"):
                        feats.add("convert")
                    if arch == "x86" and min(tsize(v["src"]["t"]), tsize(v["eff"])) == 1 and (
                            (v["src"]["k"] == "reg" and v["src"]["g"] == "gp" and v["src"]["id"] >= 4) or
                            (v["dst"]["k"] == "reg" and v["dst"]["g"] == "gp" and v["dst"]["id"] >= 4) or
                            (v["src"]["k"] == "stack" and v["dst"]["k"] == "stack")):
                        # sil/dil/bpl do not exist in 32-bit mode; a byte copied stack->stack goes through a scratch register the shuffler
                        # picks itself - with InvalidRexPrefix that was esi/edi/ebp (same defect: the 8-bit view is used unconditionally)
                        byte_hi = True
                vec_srcs = set(v["src"]["id"] for v in c["vals"] if v["src"]["k"] == "reg" and v["src"]["g"] == "vec" and not v["src"].get("ind"))
                vec_moved = any("dst" in v and v["src"]["k"] == "reg" and v["src"]["g"] == "vec" and v["dst"]["k"] == "reg" and v["dst"]["id"] != v["src"]["id"] for v in c["vals"])
                if len(vec_srcs) >= {"x86": 8, "x64": 16, "a64": 32}[arch] and vec_moved and c["err"].endswith("InvalidState"):
                    feats = {"all-vector-registers-hold-arguments"}    # no scratch register exists; swapping without one is not implemented
                gp_used = set()
                for v in c["vals"]:
                    if v["src"]["k"] == "reg" and v["src"]["g"] == "gp" and not v["src"].get("ind"):
                        gp_used.add(v["src"]["id"])
                    if "dst" in v and v["dst"]["k"] == "reg" and v["dst"]["g"] == "gp":
                        gp_used.add(v["dst"]["id"])
                for extra in (c.get("sa_out", -1), c.get("sa_preset", -1)):
                    if extra >= 0:
                        gp_used.add(extra)
                gp_allocable = {"x86": 7, "x64": 15, "a64": 29}[arch] - (1 if c.get("fp") else 0)
                mem2mem_gp = any("dst" in v and v["src"]["k"] == "stack" and v["dst"]["k"] == "stack" and max(tsize(v["src"]["t"]), tsize(v["eff"])) <= (4 if arch == "x86" else 8) for v in c["vals"])
                if mem2mem_gp and len(gp_used) >= gp_allocable and c["err"].endswith("InvalidState"):
                    feats = {"every-gp-register-in-use:stack->stack-copy"}    # true exhaustion: no register is free at any point of the sequence
                if not feats and c.get("sa_out", -1) >= 0:
                    feats.add("sa-register-requested")
                if c["err"].endswith("InvalidRexPrefix") and byte_hi:
                    feats = {"byte-argument-in-esi-edi-ebp"}     # the error code itself says: an 8-bit view of esi/edi/ebp was needed
                feat = sorted(feats)[0] if feats else "other"
                if c["err"] == "hang":
                    feat = "does-not-terminate"
                moves = ["%s %s->%s %s%s" % (v["src"]["t"], fmt_loc(aj_loc(v["src"])), fmt_loc(aj_loc(v["dst"])), v["eff"], (" (" + v["role"] + ")") if v.get("role") else "") for v in c["vals"] if "dst" in v]
                refused.setdefault((arch, feat, c["err"]), []).append((len(moves), c, moves))
            if "err" in c and len(rejected_samples) < 6 and "vals" in c:
                rejected_samples.append({"case": c["i"], "arch": arch, "conv": c["conv"], "err": c["err"], "sig": ",".join(c["sig"]),
                                         "moves": ["%s->%s" % (fmt_loc(aj_loc(v["src"])), fmt_loc(aj_loc(v["dst"]))) for v in c["vals"] if "dst" in v][:12]})
        if not todo:
            continue
        full = disassemble([bytes.fromhex(c["code"]) for c in todo], arch)
        pro = disassemble([bytes.fromhex(c["code"])[:c["plen"]] for c in todo], arch)
        for c, insts, pins in zip(todo, full, pro):
            c["_split"] = len(pins)
            # preserved registers: native sentinel comparison + static rule (independent of whether the symbolic run below is conclusive)
            pviol, nver = judge_preserved(c, insts, case_text(c))
            pres["static_cases"] += 1
            pres["static_written_preserved_registers_verified"] += nver
            if "pres_bad" in c:
                pres["native_cases"] += 1
                pres["native_registers_compared"] += c.get("pres_checked", 0)
            if "var" in c:
                v = c["var"]
                d = variants.setdefault(arch, {})
                k = "%s%s%s%s" % (v["sa"], ":da" if c.get("da") else "", ":fp" if v["fp"] else "", ":executed" if "pres_bad" in c else "")
                d[k] = d.get(k, 0) + 1
                variant_combos.add((arch, c["conv"], v["sa"], v["reg"] if v["sa"] == "callee-saved" else -1, v["via"], bool(c.get("da")), v["fp"], c["shape"] == "scratch-exhaust"))
                want = [("x64", "callee-saved"), ("x86", "default"), ("a64", "callee-saved")][len(variant_samples)] if len(variant_samples) < 3 else None
                if want and arch == want[0] and v["sa"] == want[1] and c.get("da") and not pviol and (arch != "x86" or c["shape"] == "scratch-exhaust"):
                    variant_samples.append({"case": "%s/%s %s" % (c["env"], c["conv"], ",".join(c["sig"])), "variant": v, "shape": c["shape"],
                                            "frame_sa_reg": reg_name(arch, "gp", c["sa_reg"]), "saved_regs_gp": "0x%x" % c["saved"][0],
                                            "prolog": [" ".join(x) for x in insts[:c["_split"]]],
                                            "verdict": ("executed: every preserved register held its sentinel after the return; " if "pres_bad" in c else "") +
                                                       "%d written preserved register(s) are in saved_regs() and stored by the prolog" % nver})
            for key, what in pviol:
                av = c["_argv"].split() + ["--only", str(c["i"])]
                chk.violation(key, what, {"part": "shuffle", "flavour": "plain", "argv": av})
            viol, verdict = judge_case(c, insts)
            if verdict != "checked":
                inconclusive[verdict] = inconclusive.get(verdict, 0) + 1
                continue
            checked += 1
            for v in c["vals"]:
                if "dst" in v and v["dst"]["k"] == "reg" and v["dst"]["g"] in ("k", "mm") and v["src"]["k"] == "stack":
                    kk = "stack->%s%s" % (v["dst"]["g"], ":executed" if "native" in c else "")
                    regfile_moves[kk] = regfile_moves.get(kk, 0) + 1
            sh = shape_of(c)
            shapes.add((arch, sh))
            if nontrivial_shape(sh):
                shapes_nt.add((arch, sh))
            if len(samples) < 4 and not viol and nontrivial_shape(sh) and len(c["vals"]) <= 8:
                samples.append({"case": "%s/%s %s" % (c["env"], c["conv"], ",".join(c["sig"])),
                                "moves": ["%s %s->%s %s%s" % (v["src"]["t"], fmt_loc(aj_loc(v["src"])), fmt_loc(aj_loc(v["dst"])), v["eff"], (" (" + v["role"] + ")") if v.get("role") else "") for v in c["vals"] if "dst" in v],
                                "code": [" ".join(x) for x in insts][:24], "verdict": "every destination holds its argument" + ("; native run agrees" if c.get("native") == "ok" else "")})
            for key, what in viol:
                av = c["_argv"].split() + ["--only", str(c["i"])]
                chk.violation(key, what, {"part": "shuffle", "flavour": "plain", "argv": av})
    merged = {}
    for (arch, feat, err), lst in refused.items():
        merged.setdefault((arch, feat, err if feat == "other" or err == "hang" else "*"), []).extend(lst)
    for (arch, feat, err_), lst in sorted(merged.items()):
        err = lst[0][1]["err"]
        lst.sort(key=lambda x: x[0])
        n, c, moves = lst[0]
        chk.violation(("shuffle:%s:refused:%s" % (arch, feat if feat != "other" else "other:" + err.split(":")[-1])) if err != "hang" else "shuffle:%s:hang:emit-does-not-terminate" % arch,
                      "%s %s for a valid assignment, %d such cases; smallest: %s/%s %s: %s (fp=%d align=%d sa_out=%d) case %d of `%s`" % (
                          "update_func_frame" if err.startswith("update") else "emit_prolog/emit_args_assignment",
                          ("returned %s (no code generated)" % err.split(":")[-1]) if err != "hang" else "did not return within 400 ms while emitting instructions without bound (watchdog)",
                          len(lst), c["env"], c["conv"], ",".join(c["sig"]), "; ".join(moves),
                          c["fp"], c["align"], c["sa_out"], c["i"], c["_argv"]),
                      {"part": "shuffle", "flavour": "plain", "argv": c["_argv"].split() + ["--only", str(c["i"])]})
    cov.update({
        "shuffle_cases_generated": tot["cases"],
        "shuffle_cases_emitted": tot["emitted"],
        "shuffle_cases_executed_natively_x64": tot["executed"],
        "shuffle_cases_executed_natively_x86_32": tot["executed_x86"],
        "shuffle_native_crashes": tot["crashed"],
        "shuffle_cases_checked_symbolically": checked,
        "shuffle_symbolic_inconclusive": inconclusive,
        "shuffle_rejected_by_asmjit": rejects,
        "shuffle_rejected_samples": rejected_samples,
        "shuffle_distinct_assignment_shapes": len(shapes),
        "shuffle_sanitizer_aborts": san_aborts,
        "shuffle_functions_executed_with_sentinel_check": pres["native_cases"],
        "shuffle_preserved_registers_compared_natively": pres["native_registers_compared"],
        "shuffle_static_prolog_checks": pres["static_cases"],
        "shuffle_static_written_preserved_registers_verified": pres["static_written_preserved_registers_verified"],
        "shuffle_sa_register_variants": variants,
        "shuffle_sa_register_variant_combinations": len(variant_combos),
        "shuffle_sa_register_variant_samples": variant_samples,
        "shuffle_stack_arguments_loaded_into_mask_or_mmx_registers": regfile_moves,
    })
    for kk in ("stack->k", "stack->mm"):
        if not any(k.startswith(kk) for k in regfile_moves):
            raise common.HarnessError("shuffle workload: no checked case moved a stack argument into a %s register" % kk.split(">")[1])
    return len(shapes_nt), samples, checked


# ---------------------------------------------------------------------------------------------
# Workload D: call sites (Compiler invoke) of every target, executed symbolically: marshalling, the call, the return
# ---------------------------------------------------------------------------------------------

PRES_VEC_BYTES = {"win64": 16, "vectorcall64": 16, "a64-linux": 8, "a64-apple": 8}


class ClobberUse(Exception):
    def __init__(self, key):
        Exception.__init__(self, "%s%d" % key)
        self.key = key


def preserved_view(case, which):
    """-> (gp mask, vec mask, vec bytes, k mask, mm mask) the callee (`which`="conv") or the caller (`which`="cconv") convention preserves:
    the ABI table for platform conventions, the convention's own record for AsmJit's light-call conventions"""
    ck = conv_key(case["env"], case[which])
    row = abi_row(ck)
    if row is None:
        pres = case["pres"] if which == "conv" else case["cpres"] + [0, 0]
        return pres[0], pres[1], 16, pres[2], pres[3]
    sp = 31 if case["arch"] == "a64" else 4
    return row[0] & ~(1 << sp), row[1], PRES_VEC_BYTES.get(ck, 0), 0, 0


class InvokeState(SymState):
    """the caller function of drv_func --mode invoke: entry state, what a call does to the machine, and the verdicts"""

    def __init__(self, case):
        self.case = case
        self.arch = case["arch"]
        self.W = {"x64": 8, "x86": 4, "a64": 0}[self.arch]
        self.P = 4 if self.arch == "x86" else 8
        self.reg, self.writer, self.mem, self.memwriter = {}, {}, {}, {}
        self.sp = ("in", 0)
        self.align = None
        self.stores, self.misaligned = [], []
        self.phase = "marshal"
        self.calls = 0
        self.returned = False
        self.viol = []
        self.ck = conv_key(case["env"], case["conv"])
        self.cck = conv_key(case["env"], case["cconv"])
        self.text = invoke_text(case)
        self.facts = {"args": 0, "arg_bytes": 0, "stack_args": 0, "imm_args": 0, "indirect_args": 0, "ret_bytes": 0, "live_bytes": 0, "preserved_regs": 0,
                      "caller_return_bytes": 0, "caller_return_pairs": 0}
        for n, region in ((0, "gin"), (1, "gout")):
            loc = case["cargs"][n][0]
            pv = self.ptr_value(region, 0)
            if loc["k"] == "reg":
                self.setreg((loc["g"], loc["id"]), pv, "entry")
            else:
                for i in range(self.P):
                    self.mem[("in", self.W + loc["off"] + i)] = pv[i]
        for v in case["vals"]:
            if "imm" in v:
                continue
            for b in range(tsize(v["t"])):
                self.mem[("gin", 64 * v["a"] + v["off"] + b)] = ("a", v["a"], v["off"] + b)
        for b in range(self.P):
            self.mem[("gin", 4000 + b)] = ("t", b)
        for r in case.get("crvals", []):
            for b in range(tsize(r["t"])):
                self.mem[("gin", 3072 + r["off"] + b)] = ("cr", r["off"] + b)

    # ---- registers: entry symbols, and what a call leaves behind ----
    def after_call(self, key, cur):
        gp, vec, vbytes, km, mm = self.callee_pres
        g, rid = key
        if g == "gp":
            keep = 8 if (gp >> rid) & 1 else 0
        elif g == "vec":
            keep = vbytes if (vec >> rid) & 1 else 0
        elif g == "k":
            keep = 8 if (km >> rid) & 1 else 0
        elif g == "mm":
            keep = 8 if (mm >> rid) & 1 else 0
        else:
            keep = 0
        return cur[:keep] + [("clob", key)] * (len(cur) - keep)

    def getreg(self, key):
        if key not in self.reg:
            w = self.width(key[0])
            ent = [("e", key[0], key[1], i) for i in range(w)]
            self.reg[key] = self.after_call(key, ent) if self.calls else ent
        return self.reg[key]

    def as_ptr(self, key):
        r = self.getreg(key)
        if r[0][0] == "clob":
            raise ClobberUse(key)
        return SymState.as_ptr(self, key)

    def bytes_ptr(self, data):
        b = data[0]
        if b and b[0] == "p" and all(x and x[0] == "p" and x[1] == b[1] and x[2] == b[2] and x[3] == i for i, x in enumerate(data[:self.P])):
            return (b[1], b[2])
        return None

    def aligned(self, addr, n):
        n = min(n, 64)
        if addr[0] == "al":
            return (self.align or 0) >= n and addr[1] % n == 0
        if addr[0] == "in":
            if self.arch == "x64":
                return n <= 16 and (addr[1] - 8) % n == 0
            if self.arch == "a64":
                return n <= 16 and addr[1] % n == 0
            return n <= 4 and addr[1] % n == 0
        return False

    def bad(self, key, what):
        if not any(k == key for k, _ in self.viol):
            self.viol.append((key, what + " | " + self.text))

    # ---- the call instruction ----
    def on_call(self, target):
        case = self.case
        self.calls += 1
        if self.calls > 1:
            raise Inconclusive("second call")
        ck = self.ck
        sp = self.sp
        # stack pointer alignment at the call (x86-64 and AArch64 ABIs: 16 bytes; i386: not judged, see assumptions)
        if self.arch != "x86" and not self.aligned(sp, 16):
            self.bad("invoke:%s:sp-misaligned-at-call" % ck, "the stack pointer at the call instruction is %s%+d, not 16-byte aligned" % ("entry_sp" if sp[0] == "in" else "aligned_sp", sp[1]))
        if case.get("treg"):
            got = self.getreg((target[1][0], target[1][1]))[:self.P] if target[0] == "r" and target[1] and target[1][0] == "gp" else \
                (self.load(self.call_mem(target), self.P) if target[0] == "m" else None)
            if got is None or got != [("t", b) for b in range(self.P)]:
                self.bad("invoke:%s:target-register-wrong" % ck, "the call goes through %s which does not hold the target address the function loaded" % (target,))
        for v in case["vals"]:
            loc = case["args"][v["a"]][v["v"]]
            n = tsize(v["t"])
            cls = cls_of(v["t"])
            if "imm" in v:
                exp = [imm_byte(int(v["imm"], 16), b) for b in range(n)]
                self.facts["imm_args"] += 1
            else:
                exp = [("a", v["a"], v["off"] + b) for b in range(n)]
            if loc["k"] == "none":
                continue
            if loc["k"] == "reg":
                data = self.getreg((loc["g"], loc["id"]))
                where = "%s%d" % (loc["g"], loc["id"])
                kind = "reg-" + loc["g"]
            else:
                a = (sp[0], sp[1] + loc["off"])
                data = self.load(a, self.P if loc.get("ind") else n)
                where = "[sp+%d]" % loc["off"]
                kind = "stack"
                self.facts["stack_args"] += 1
            if loc.get("ind"):
                self.facts["indirect_args"] += 1
                kind = "ind-" + ("reg" if loc["k"] == "reg" else "stack")
                p = self.bytes_ptr(data)
                if p is None:
                    self.bad("invoke:%s:arg:%s:%s:not-a-pointer" % (ck, cls, kind), "argument %d (%s) is passed by reference in %s, which holds %s instead of an address" % (
                        v["a"], v["t"], where, " ".join(fmt_sym(x) for x in data[:self.P])))
                    continue
                if not self.aligned(p, 16 if n < 16 else n):
                    self.bad("invoke:%s:by-reference-copy-misaligned" % ck, "argument %d (%s): the copy passed by reference lives at %s%+d, not %d-byte aligned" % (v["a"], v["t"], p[0], p[1], n))
                where += " -> %s%+d" % p
                data = self.load(p, n)
            got = data[:n]
            self.facts["args"] += 1
            self.facts["arg_bytes"] += n
            if got != exp:
                self.bad("invoke:%s:arg:%s:%s%s" % (ck, cls, kind, ":imm" if "imm" in v else ""),
                         "argument %d.%d (%s%s) must be in %s at the call; that location holds %s, expected %s" % (
                             v["a"], v["v"], v["t"], (" = immediate 0x" + v["imm"].lstrip("0")) if "imm" in v else "", where,
                             " ".join(fmt_sym(x) for x in got), " ".join(fmt_sym(x) for x in exp)))
        # stores into the outgoing argument area must not leave the area the frame reserved for calls
        lim = max(case["stack"], case["call_stack"], case["lso"])
        for region, off, width, mn, phase in self.stores:
            if region != sp[0]:
                continue
            rel = off - sp[1]
            if 0 <= rel < case["stack"] and rel + width > lim:
                self.bad("invoke:%s:store-overruns-call-area" % ck, "`%s` of %d bytes at [sp+%d]: the argument area is %d bytes, the frame keeps its own data (spill slots, saved registers) from [sp+%d] on; the store overwrites what the function keeps there" % (
                    mn, width, rel, case["stack"], lim))
        for mn, a, n, phase in self.misaligned:
            self.bad("invoke:%s:aligned-move-on-unaligned-address" % ck, "`%s` of %d bytes at %s%+d which is not %d-byte aligned (would fault)" % (mn, n, a[0], a[1], min(n, 16)))
        self.misaligned = []
        # ---- what the callee leaves behind ----
        self.callee_pres = preserved_view(case, "conv")
        for key in list(self.reg):
            self.reg[key] = self.after_call(key, self.reg[key])
        for (region, off) in list(self.mem):
            if region == sp[0] and sp[1] <= off < sp[1] + case["stack"]:
                self.mem[(region, off)] = G()
        if case["pops"]:
            self.sp = (sp[0], sp[1] + case["stack"])
        for r, loc in zip(case["rvals"], case["rets"]):
            n = tsize(r["t"])
            if loc["k"] != "reg":
                continue
            key = (loc["g"], loc["id"])
            cur = self.getreg(key)
            self.reg[key] = [("r", r["off"] + b) for b in range(n)] + [("clob", key)] * (len(cur) - n)
        self.phase = "after"

    def call_mem(self, m):
        _, base, disp, sym, index, size = m
        if index or sym is not None or base is None:
            raise Inconclusive("call address form")
        if (base[0], base[1]) == ("gp", 4):
            return (self.sp[0], self.sp[1] + disp)
        p = self.as_ptr((base[0], base[1]))
        if p is None:
            raise Inconclusive("call through a non-pointer")
        return (p[0], p[1] + disp)

    # ---- the return of the caller function ----
    def on_ret(self, popped):
        case = self.case
        self.returned = True
        if not self.calls:
            raise Inconclusive("return before the call")
        ck = self.ck
        rn = tsize(case["ret"]) if case["ret"] != "void" else 0
        total = sum(tsize(r["t"]) for r in case["rvals"])
        rn = min(rn, total)
        if rn:
            got = self.load(("gout", 0), rn)
            exp = [("r", b) for b in range(rn)]
            self.facts["ret_bytes"] += rn
            if got != exp:
                loc = case["rets"][0]
                self.bad("invoke:%s:ret:%s:%s" % (ck, cls_of(case["ret"]), ("reg-" + loc["g"]) if loc["k"] == "reg" else loc["k"]),
                         "the callee returns %s in %s; the register bound with set_ret() was stored after the call and holds %s" % (
                             case["ret"], "/".join("%s%d" % (l.get("g"), l.get("id", 0)) for l in case["rets"]), " ".join(fmt_sym(x) for x in got)))
        for v in case["vals"]:
            if not v.get("live"):
                continue
            n = tsize(v["t"])
            got = self.load(("gout", 64 + 64 * v["a"] + v["off"]), n)
            self.facts["live_bytes"] += n
            if got != [("a", v["a"], v["off"] + b) for b in range(n)]:
                where = sorted(set("%s%d" % x[1] for x in got if x and x[0] == "clob"))
                self.bad("invoke:%s:value-live-across-call-lost:%s" % (ck, cls_of(v["t"])),
                         "argument value %d.%d (%s) is used again after the call; what the function stores then is %s%s" % (
                             v["a"], v["v"], v["t"], " ".join(fmt_sym(x) for x in got),
                             (" (kept in %s, which a %s callee may change)" % (",".join(where), ck)) if where else ""))
        # what the function itself returns (a value it loaded before the call and handed to ret()) must be where its own convention returns it
        for r, loc in zip(case.get("crvals", []), case.get("crets", [])):
            if loc["k"] != "reg":
                continue
            n = tsize(r["t"])
            got = self.getreg((loc["g"], loc["id"]))[:n]
            self.facts["caller_return_bytes"] += n
            if r["v"]:
                self.facts["caller_return_pairs"] += 1
            if got != [("cr", r["off"] + b) for b in range(n)]:
                self.bad("invoke:caller-%s:return-value-not-in-place:%s:%s%s" % (self.cck, cls_of(case["cret"]), "reg-" + loc["g"], ":hi" if r["v"] else ""),
                         "the %s function returns %s with ret(); at the return instruction %s%d holds %s instead of the value" % (
                             self.cck, case["cret"], loc["g"], loc["id"], " ".join(fmt_sym(x) for x in got)))
        if self.sp != ("in", 0):
            self.bad("invoke:%s:stack-pointer-not-restored" % self.arch, "the stack pointer at the return instruction is %s%+d, not its value at entry" % self.sp)
        gp, vec, vbytes, km, mm = preserved_view(case, "cconv")
        for g, mask, nb in (("gp", gp, self.P), ("vec", vec, vbytes)):
            for rid in range(32):
                if not (mask >> rid) & 1:
                    continue
                self.facts["preserved_regs"] += 1
                got = self.getreg((g, rid))[:nb]
                if got != [("e", g, rid, i) for i in range(nb)]:
                    why = "changed by the callee and not saved by this function's frame" if any(x and x[0] == "clob" for x in got) else "overwritten"
                    self.bad("invoke:caller-%s:callee-%s:preserved-register-not-restored:%s" % (self.cck, ck, g),
                             "a %s function that calls a %s function: %s, which %s preserves, holds %s at the return (%s); FuncFrame::saved_regs %s=0x%x" % (
                                 self.cck, ck, reg_name(self.arch, g, rid), self.cck, " ".join(fmt_sym(x) for x in got[:8]), why, g, case["saved"][0 if g == "gp" else 1]))
        want_pop = 0
        if self.arch == "x86" and case["cpops"] != popped:
            self.bad("invoke:x86:caller-%s:ret-pops-differ" % self.cck, "the function ends with `ret %d`, its frame says callee_stack_cleanup=%d" % (popped, case["cpops"]))


def invoke_text(case):
    a = list(case["sig"])
    if case.get("va", -1) >= 0:
        a = a[:case["va"]] + ["..."] + a[case["va"]:]
    return "%s/%s %s(%s) invoked from a %s function, case %d of `%s`" % (case["env"], case["conv"], case["ret"], ",".join(a), case["cconv"], case["i"], case.get("_argv", ""))


def judge_invoke(case, insts):
    """-> (violations, verdict, facts)"""
    st = InvokeState(case)
    try:
        (x86_run if case["arch"] != "a64" else a64_run)(st, insts)
    except ClobberUse as e:
        st.bad("invoke:%s:pointer-live-across-call-lost" % st.ck, "after the call the function addresses memory through %s, which a %s callee may change (the pointer was live across the call)" % (
            reg_name(case["arch"], e.key[0], e.key[1]), st.ck))
        return st.viol, "checked", st.facts
    except (Inconclusive, ap.Unparsed, ValueError, IndexError, KeyError, TypeError) as e:
        if st.viol:
            return st.viol, "checked", st.facts
        return [], "inconclusive: %s" % (str(e)[:80]), st.facts
    if not st.returned:
        return st.viol, "inconclusive: no return reached", st.facts
    return st.viol, "checked", st.facts


def refusal_feature(case):
    """which property of the signature explains that the Compiler refused the call site (key part)"""
    feats = set()
    for v in case.get("vals", []):
        packs = case.get("args") or []
        loc = packs[v["a"]][v["v"]] if v["a"] < len(packs) and v["v"] < len(packs[v["a"]]) else {"k": "none"}
        if loc["k"] == "none":
            feats.add("unassigned-argument:" + cls_of(v["t"]))
        elif loc.get("ind") and loc["k"] == "stack":
            feats.add("by-reference-vector-on-stack")
        elif loc.get("ind"):
            feats.add("by-reference-vector-in-register")
        if "imm" in v and loc["k"] != "none":
            feats.add("zz-immediate-operand")
    for loc in case.get("rets") or []:
        if loc["k"] == "reg" and loc["g"] == "st":
            feats.add("zy-x87-return")
    if case.get("va", -1) >= 0:
        feats.add("zx-variadic")
    for f in sorted(feats, key=lambda f: (not f.startswith("unassigned"), f != "by-reference-vector-on-stack", f)):
        return f.split("-", 1)[1] if f.startswith("z") else f
    return "plain-signature"


def run_invoke_job(exe, argv):
    """-> (cases, merged summary or None, aborts [(case index, sanitizer report or {"kind": "driver died ..."}, argv)], rc, stderr).
    A driver that dies inside the library (sanitizer report, signal) is restarted behind the case it died in."""
    cases, aborts = [], []
    summ = None
    first = int(argv[argv.index("--first") + 1]) if "--first" in argv else 0
    end = first + int(argv[argv.index("--count") + 1])
    pos = first
    only = "--only" in argv
    rc, err = 0, b""
    while pos < end:
        av = list(argv)
        if not only:
            av[av.index("--first") + 1] = str(pos)
            av[av.index("--count") + 1] = str(end - pos)
        rc, out, err = common.run_child([exe] + av, timeout=1800)
        last = pos - 1
        done = None
        for ln in out.decode("utf-8", "replace").splitlines():
            try:
                d = json.loads(ln)
            except ValueError:
                continue
            if d.get("summary"):
                done = d
            elif "i" in d:
                d["_argv"] = " ".join(av)
                cases.append(d)
                last = d["i"]
        if done is not None:
            if summ is None:
                summ = done
            else:
                for k in ("cases", "built", "rejected"):
                    summ[k] += done[k]
                for k, v in done["rejects"].items():
                    summ["rejects"][k] = summ["rejects"].get(k, 0) + v
            break
        rep = common.sanitizer_report(err)
        if rep is None and rc >= 0:
            return cases, None, aborts, rc, err       # no summary, no crash: harness trouble
        aborts.append((last + 1, rep or {"kind": "driver died with signal %d while building the call site" % -rc, "frames": [err.decode("utf-8", "replace")[-300:]]}, av))
        if only or len(aborts) > 40:
            break
        pos = last + 2
        if summ is None:
            summ = {"cases": 0, "built": 0, "rejected": 0, "rejects": {}}
    return cases, summ, aborts, rc, err


def workload_d(chk, exe_plain, exe_asan, tier, scale, cov):
    seed = chk.seed
    n = {"x64": 1280, "x86": 1680, "a64": 1280} if tier == "quick" else {"x64": 12000, "x86": 15000, "a64": 12000}
    jobs = []
    per = 160 if tier == "quick" else 500
    for arch, total in n.items():
        total = max(int(total * scale), 28)
        k = 0
        while k < total:
            c = min(per, total - k)
            jobs.append((exe_plain, ["--mode", "invoke", "--arch", arch, "--seed", str(seed), "--first", str(k), "--count", str(c)], "plain"))
            k += c
        jobs.append((exe_asan, ["--mode", "invoke", "--arch", arch, "--seed", str(seed + 1), "--first", "0", "--count", str(max(total // 8, 14))], "asan"))

    def one(job):
        exe, argv, tag = job
        return (job,) + run_invoke_job(exe, argv)

    tot = {"cases": 0, "built": 0, "checked": 0}
    by_conv, pairs, rejects, inconclusive = {}, {}, {}, {}
    facts = {}
    refused = {}
    shapes = set()
    samples = []
    for job, cases, summ, aborts, rc, err in common.parallel_map(one, jobs):
        exe, argv, tag = job
        arch = argv[argv.index("--arch") + 1]
        for bad, rep, av in aborts:
            key = san_key("invoke", rep) if "driver died" not in rep["kind"] else "invoke:%s:compiler-crashes" % arch
            chk.violation(key, "case %d of `%s`: %s %s" % (bad, " ".join(av), rep["kind"], rep["frames"][:5]), {"part": "invoke", "flavour": tag, "argv": av + ["--only", str(bad)]})
        if summ is None:
            raise common.HarnessError("drv_func %s rc=%s produced no summary: %s" % (argv, rc, err[-400:]))
        if tag == "asan":
            continue
        tot["cases"] += summ["cases"]
        tot["built"] += summ["built"]
        for k, v in summ["rejects"].items():
            rejects[arch + ":" + k] = rejects.get(arch + ":" + k, 0) + v
        for c in cases:
            if "err" in c:
                ck = conv_key(c["env"], c["conv"])
                refused.setdefault((ck, refusal_feature(c), c["err"]), []).append(c)
        todo = [c for c in cases if "code" in c]
        if not todo:
            continue
        for c, insts in zip(todo, disassemble([bytes.fromhex(c["code"]) for c in todo], arch)):
            viol, verdict, f = judge_invoke(c, insts)
            ck = conv_key(c["env"], c["conv"])
            if verdict != "checked":
                inconclusive[arch + ": " + verdict] = inconclusive.get(arch + ": " + verdict, 0) + 1
                continue
            tot["checked"] += 1
            by_conv[ck] = by_conv.get(ck, 0) + 1
            pk = "%s->%s" % (conv_key(c["env"], c["cconv"]), ck)
            pairs[pk] = pairs.get(pk, 0) + 1
            for k, v in f.items():
                facts[k] = facts.get(k, 0) + v
            shapes.add((ck, c["cconv"], c["ret"], tuple(c["sig"]), c["va"]))
            if len(samples) < 3 and not viol and arch == ("a64", "x86", "x64")[len(samples)] and 3 <= len(c["sig"]) <= 9 and f["stack_args"]:
                samples.append({"call site": invoke_text(c), "asmjit": " ".join("/".join(fmt_loc(aj_loc(v)) for v in vs) for vs in c["args"]),
                                "code": [" ".join(x) for x in insts][:40],
                                "verdict": "every argument location holds its value at the call, the return value reaches the bound register, values used after the call survive, the caller's preserved registers and sp are restored"})
            for key, what in viol:
                chk.violation(key, what, {"part": "invoke", "flavour": "plain", "argv": c["_argv"].split() + ["--only", str(c["i"])]})
    for (ck, feat, err), lst in sorted(refused.items()):
        c = min(lst, key=lambda x: len(x["sig"]))
        chk.violation("invoke:%s:refused:%s" % (ck, feat),
                      "Compiler::finalize() returned %s for a call site with a valid signature (%d such cases; feature: %s); smallest: %s" % (err.split(":")[-1], len(lst), feat, invoke_text(c)),
                      {"part": "invoke", "flavour": "plain", "argv": c["_argv"].split() + ["--only", str(c["i"])]})
    cov.update({
        "invoke_call_sites_generated": tot["cases"],
        "invoke_call_sites_built": tot["built"],
        "invoke_call_sites_checked_symbolically": tot["checked"],
        "invoke_checked_by_callee_convention": by_conv,
        "invoke_checked_by_caller_to_callee_convention": pairs,
        "invoke_symbolic_inconclusive": inconclusive,
        "invoke_rejected_by_asmjit": rejects,
        "invoke_refusal_classes": sorted("%s:%s:%s x%d" % (k[0], k[1], k[2], len(v)) for k, v in refused.items()),
        "invoke_observed": facts,
        "invoke_samples": samples,
    })
    # every convention of every target must have been observed at a call site, and every kind of observation must have happened
    want = ["sysv64", "win64", "vectorcall64", "x64-lightcall2", "x86-cdecl", "x86-stdcall", "x86-fastcall", "x86-regparm1", "x86-regparm2", "x86-regparm3",
            "x86win-cdecl", "x86win-stdcall", "x86win-fastcall", "x86win-thiscall", "x86win-vectorcall", "x86-lightcall2", "a64-linux", "a64-apple"]
    missing = [k for k in want if not by_conv.get(k)]
    if missing:
        raise common.HarnessError("invoke workload: no call site of %s was checked (inconclusive: %s)" % (missing, inconclusive))
    for k in ("arg_bytes", "stack_args", "imm_args", "indirect_args", "ret_bytes", "live_bytes", "preserved_regs", "caller_return_bytes", "caller_return_pairs"):
        if not facts.get(k):
            raise common.HarnessError("invoke workload observed nothing of kind %s" % k)
    cross = sum(v for k, v in pairs.items() if k.split("->")[0] != k.split("->")[1])
    if not cross:
        raise common.HarnessError("invoke workload: no call site whose caller and callee conventions differ")
    return len(shapes), tot["checked"]


# ---------------------------------------------------------------------------------------------
# Workload B
# ---------------------------------------------------------------------------------------------

GEN_INTS = ["i8", "u8", "i16", "u16", "i32", "u32", "i64", "u64"]
GEN_VECS = {16: ["f32x4", "i32x4", "f64x2"], 32: ["f32x8", "i32x8"], 64: ["f32x16"]}
CALLEE_DIR = os.path.join(common.VERIF, ".cache", "c06-callees")


def gen_interop_signatures(seed, n, vec_sizes):
    """(ret, [args]) for the generated part of workload B: <= 12 arguments mixing ints, f32/f64 and vectors of different sizes"""
    rng = common.Rng(seed).fork("c06-interop")
    out = []
    rets = ["void", "i32", "i64", "u8", "i16", "f32", "f64", "f32x4", "i32x4"]

    def vec(size):
        return rng.choice(GEN_VECS[size])

    def scalar():
        return rng.choice(GEN_INTS + GEN_INTS + ["f32", "f64", "f32", "f64"])

    for i in range(n):
        shape = i % 6
        args = []
        if shape in (0, 1):
            # several by-value/by-reference vectors of decreasing (0) or increasing (1) size first, then enough scalars to reach the stack
            k = rng.range(2, min(4, len(vec_sizes) + 1))
            sizes = sorted([rng.choice(vec_sizes) for _ in range(k)], reverse=(shape == 0))
            if len(set(sizes)) == 1 and len(vec_sizes) > 1:
                sizes[-1 if shape == 0 else 0] = vec_sizes[0]
                sizes[0 if shape == 0 else -1] = vec_sizes[-1]
            args = [vec(sz) for sz in sizes]
            args += [rng.choice(GEN_INTS) for _ in range(rng.range(1, 12 - len(args)))]
        elif shape == 2:
            # vectors interleaved with scalars
            for _ in range(rng.range(3, 12)):
                args.append(vec(rng.choice(vec_sizes)) if rng.chance(2, 5) else scalar())
        elif shape == 3:
            # many integers (stack spill) with a few vectors at the end
            args = [rng.choice(GEN_INTS) for _ in range(rng.range(5, 9))]
            args += [vec(rng.choice(vec_sizes)) for _ in range(rng.range(1, 12 - len(args)))]
        elif shape == 4:
            # float/double heavy, more than eight of them
            args = [rng.choice(["f32", "f64"]) for _ in range(rng.range(6, 11))]
            while len(args) < 12 and rng.chance(1, 2):
                args.insert(rng.below(len(args) + 1), scalar())
        else:
            for _ in range(rng.range(1, 12)):
                r = rng.below(10)
                args.append(vec(rng.choice(vec_sizes)) if r < 3 else scalar())
        out.append((rng.choice(rets), args[:12]))
    return out


GEN_VA_SCALARS = ["i32", "u32", "i64", "u64", "f64"]
GEN_VA_VECS = ["f32x4", "i32x4", "f64x2", "f32x8"]


def gen_variadic_signatures(seed, n, have_avx):
    """(ret, [args], va): 1..3 named arguments, then ints/doubles/__m128/__m128i/__m256 (already promoted types) in random order"""
    rng = common.Rng(seed).fork("c06-interop-va")
    out = []
    vecs = GEN_VA_VECS if have_avx else GEN_VA_VECS[:3]
    for i in range(n):
        nn = rng.range(1, 3)
        named = [rng.choice(["i32", "i64", "f64", "u8", "i16", "f32", "u32"]) for _ in range(nn)]
        k = rng.range(1, 12 - nn)
        shape = i % 4
        var = []
        for _ in range(k):
            if shape == 0:      # vectors and doubles: the AL count matters
                var.append(rng.choice(vecs + ["f64", "f64"]))
            elif shape == 1:    # no vector register at all in the variadic part
                var.append(rng.choice(["i32", "u32", "i64", "u64"]))
            elif shape == 2:    # more than eight vector-register candidates
                var.append(rng.choice(["f64", "f64", "f32x4", "i32x4", "i64"]))
            else:
                var.append(rng.choice(GEN_VA_SCALARS + vecs))
        if shape == 2:
            while len(var) + nn < 12:
                var.append(rng.choice(["f64", "f32x4"]))
        out.append((rng.choice(["void", "i32", "i64", "f64"]), named + var, nn))
    return out


def expected_al(vsigs, stats):
    """what gcc and clang load into AL for the same SysV call; None where they differ or it is not a constant"""
    orcs = ap.oracles_for("x64-linux", "sysv64")
    res = [ap.probe_many(o, [(r, tuple(a), va) for r, a, va in vsigs], stats) for o in orcs]
    out = []
    for i in range(len(vsigs)):
        vals = [r[i].get("al") for r in res]
        out.append(vals[0] if vals[0] is not None and all(v == vals[0] for v in vals) else None)
    return out


def callee_source(sigs):
    """C source of one shared object: for every signature a SysV and an ms_abi callee that record what they received, and C callers"""
    L = [ap.c_typedefs("gcc"),
         "typedef unsigned int u32_; typedef unsigned char u8_;",
         "struct RecBuf { u32_ n; u32_ size[32]; u8_ data[32][64] __attribute__((aligned(64))); };",
         "static struct RecBuf* cal; static u8_ (*in)[64]; static u8_* retval; static u8_* retout;",
         "void c06_gen_bind(void* a, void* b, void* c, void* d) { cal = a; in = b; retval = c; retout = d; }",
         "#define REC(T, v) do { if (cal->n < 32) { __builtin_memcpy(cal->data[cal->n], &v, sizeof(T)); cal->size[cal->n] = sizeof(T); } cal->n++; } while (0)",
         "#define LD(T, p) ({ T t_; __builtin_memcpy(&t_, (p), sizeof(T)); t_; })"]
    table = []
    for i, sg in enumerate(sigs):
        ret, args = sg[0], sg[1]
        va = sg[2] if len(sg) > 2 else None
        al = sg[3] if len(sg) > 3 else None
        rt = "void" if ret == "void" else ap.c_type(ret)
        names = ", ".join('"%s"' % t for t in args) or "0"
        if va is not None:
            # variadic callees read the unnamed part with va_arg, in the order and with the types of the signature
            params = ", ".join("%s a%d" % (ap.c_type(t), k) for k, t in enumerate(args[:va]))
            have_ms = all(ap.type_size(t) <= 8 for t in args[va:])    # gcc's ms_abi va_arg reads vectors by value although callers pass them by reference
            for tag, attr, vl, vs, ve in (("s", "sysv_abi", "__builtin_va_list", "__builtin_va_start", "__builtin_va_end"),
                                          ("m", "ms_abi", "__builtin_ms_va_list", "__builtin_ms_va_start", "__builtin_ms_va_end")):
                if tag == "m" and not have_ms:
                    continue
                body = "%s ap; %s(ap, a%d); cal->n = 0; " % (vl, vs, va - 1)
                body += " ".join("REC(%s, a%d);" % (ap.c_type(t), k) for k, t in enumerate(args[:va]))
                for k, t in enumerate(args[va:]):
                    body += " { %s v_ = __builtin_va_arg(ap, %s); REC(%s, v_); }" % (ap.c_type(t), ap.c_type(t), ap.c_type(t))
                body += " %s(ap);" % ve
                if ret != "void":
                    body += " return LD(%s, retval);" % rt
                L.append("__attribute__((%s, noinline)) %s %s%d(%s, ...) { %s }" % (attr, rt, tag, i, params, body))
            table.append('  { "%s", { %s }, %d, %d, %d, { (void*)s%d, %s }, { 0, 0 } }' % (ret, names, len(args), va, -1 if al is None else al, i, ("(void*)m%d" % i) if have_ms else "0"))
            continue
        params = ", ".join("%s a%d" % (ap.c_type(t), k) for k, t in enumerate(args)) or "void"
        body = "cal->n = 0; " + " ".join("REC(%s, a%d);" % (ap.c_type(t), k) for k, t in enumerate(args))
        if ret != "void":
            body += " return LD(%s, retval);" % rt
        ptypes = ", ".join(ap.c_type(t) for t in args) or "void"
        call_args = ", ".join("LD(%s, in[%d])" % (ap.c_type(t), k) for k, t in enumerate(args))
        for tag, attr in (("s", "sysv_abi"), ("m", "ms_abi")):
            L.append("__attribute__((%s, noinline)) %s %s%d(%s) { %s }" % (attr, rt, tag, i, params, body))
            call = "((%s (__attribute__((%s)) *)(%s))fn)(%s)" % (rt, attr, ptypes, call_args)
            if ret == "void":
                L.append("void c%s%d(void* fn) { %s; }" % (tag, i, call))
            else:
                L.append("void c%s%d(void* fn) { %s r_ = %s; __builtin_memcpy(retout, &r_, sizeof r_); }" % (tag, i, rt, call))
        table.append('  { "%s", { %s }, %d, -1, -1, { (void*)s%d, (void*)m%d }, { cs%d, cm%d } }' % (ret, names, len(args), i, i, i, i))
    L.append("struct GenEntry { const char* ret; const char* args[16]; int nargs; int va; int al; void* callee[2]; void (*caller[2])(void*); };")
    L.append("struct GenEntry c06_gen_table[] = {\n%s\n};" % ",\n".join(table))
    L.append("int c06_gen_count = %d;" % len(sigs))
    return "\n".join(L) + "\n"


def build_callee_lib(sigs, flags):
    """-> path of the shared object (cached by content)"""
    import hashlib
    src = callee_source(sigs)
    cmd = ["gcc", "-O1", "-shared", "-fPIC", "-w", "-fno-stack-protector"] + list(flags)
    h = hashlib.sha1((" ".join(cmd) + "\n" + src).encode()).hexdigest()[:20]
    os.makedirs(CALLEE_DIR, exist_ok=True)
    so = os.path.join(CALLEE_DIR, h + ".so")
    if os.path.exists(so):
        os.utime(so)
        return so, False
    with tempfile.TemporaryDirectory(dir=CALLEE_DIR) as td:
        c = os.path.join(td, "g.c")
        with open(c, "w") as fh:
            fh.write(src)
        tmp = os.path.join(td, "g.so")
        p = subprocess.run(cmd + [c, "-o", tmp], stdout=subprocess.PIPE, stderr=subprocess.PIPE, text=True)
        if p.returncode != 0:
            raise common.HarnessError("callee library failed to compile: " + p.stderr[-600:])
        os.replace(tmp, so)
    # keep the directory small
    ents = sorted((os.path.join(CALLEE_DIR, f) for f in os.listdir(CALLEE_DIR) if f.endswith(".so")), key=os.path.getmtime, reverse=True)
    for f in ents[200:]:
        try:
            os.unlink(f)
        except OSError:
            pass
    return so, True


def workload_b(chk, exe_plain, exe_asan, tier, scale, cov):
    reps = 3 if tier == "quick" else 20
    light = int((150 if tier == "quick" else 4000) * scale)
    flags = cpu_flags()
    vec_sizes = [16] + ([32] if flags else []) + ([64] if "-mavx512f" in flags else [])
    ngen = max(6, int((240 if tier == "quick" else 6000) * scale))
    per_lib = 60 if tier == "quick" else 250
    gsigs = [(r, a, None, None) for r, a in gen_interop_signatures(chk.seed, ngen, vec_sizes)]
    nva = max(4, int((120 if tier == "quick" else 3000) * scale))
    vsigs = gen_variadic_signatures(chk.seed, nva, bool(flags))
    pstats = ap.Stats()
    als = expected_al(vsigs, pstats)
    vfull = [(r, a, va, al) for (r, a, va), al in zip(vsigs, als)]
    # spread the variadic signatures over the libraries
    gsigs = gsigs + vfull
    per_lib = per_lib + (per_lib * len(vfull)) // max(len(gsigs) - len(vfull), 1) + 1
    chunks = [gsigs[i:i + per_lib] for i in range(0, len(gsigs), per_lib)]
    libs = common.parallel_map(lambda ch: build_callee_lib(ch, flags), chunks)
    compiled = sum(1 for _, fresh in libs if fresh)
    jobs = [(exe_plain, ["--mode", "interop", "--seed", str(chk.seed), "--reps", str(reps), "--light", str(max(light, 1))], "plain"),
            (exe_asan, ["--mode", "interop", "--seed", str(chk.seed + 1), "--reps", "1", "--light", str(max(light // 3, 1))], "asan")]
    for n, (so, _) in enumerate(libs):
        jobs.append((exe_plain, ["--mode", "interop", "--seed", str(chk.seed + 100 + n), "--reps", "2", "--light", "0", "--fixed", "0", "--callees", so], "plain"))
    # one generated library also under ASan+UBSan (Compiler invoke lowering with sanitizers on)
    if libs:
        jobs.append((exe_asan, ["--mode", "interop", "--seed", str(chk.seed + 99), "--reps", "1", "--light", "0", "--fixed", "0", "--callees", libs[0][0]], "asan"))

    def one(job):
        exe, argv, tag = job
        rc, out, err = common.run_child([exe] + argv, timeout=1800)
        return job, rc, out, err

    calls = 0
    guard = {"calls": 0, "regs": 0}
    cross = {"cross_calls": 0, "helper_runs": 0, "live_values": 0}
    built_by = {}
    info = {}
    gen = {"signatures": 0, "calls": 0, "built": 0, "rejected": 0, "rejects": {}, "samples": []}
    for job, rc, out, err in common.parallel_map(one, jobs):
        exe, argv, tag = job
        rep = common.sanitizer_report(err)
        case = {"part": "interop", "flavour": tag, "argv": argv}
        if "--callees" in argv:
            k = int(argv[argv.index("--seed") + 1]) - chk.seed - 100
            src_sigs = chunks[k] if 0 <= k < len(chunks) else chunks[0]
            case["callee_sigs"] = [list(x) for x in src_sigs]
        if rep:
            chk.violation(san_key("interop", rep),
                          "sanitizer report during `%s`: %s %s" % (" ".join(argv), rep["kind"], rep["frames"][:5]), case)
            continue
        try:
            res = json.loads(out.decode().strip().splitlines()[-1])
        except Exception:
            raise common.HarnessError("drv_func %s rc=%s produced no summary: %s" % (argv, rc, err[-400:]))
        for v in res["violations"]:
            chk.violation(v["key"], v["what"], case)
        calls += res["calls"]
        guard["calls"] += res.get("guard_calls", 0)
        guard["regs"] += res.get("guard_regs", 0)
        if tag == "plain":
            for k2 in cross:
                cross[k2] += res.get(k2, 0)
            for k2, v2 in res.get("built_by", {}).items():
                built_by[k2] = built_by.get(k2, 0) + v2
        if "--callees" in argv:
            if tag == "plain":
                gen["signatures"] += res["signatures"]
                gen["calls"] += res["calls"]
                gen["built"] += res["built"]
                gen["rejected"] += res["rejected"]
                for k2, v2 in res["rejects"].items():
                    gen["rejects"][k2] = gen["rejects"].get(k2, 0) + v2
                gen["samples"] += res["samples"][:2]
        elif tag == "plain":
            info = res
    cov.update({
        "native_calls_made": calls,
        "interop_signatures": info.get("signatures", 0),
        "interop_lightcall_pairs_run": info.get("light_calls", 0),
        "interop_functions_built": info.get("built", 0),
        "interop_rejected_by_asmjit": info.get("rejects", {}),
        "interop_rejected_samples": info.get("samples", [])[:6],
        "interop_generated_signatures": gen["signatures"],
        "interop_generated_native_calls": gen["calls"],
        "interop_generated_functions_built": gen["built"],
        "interop_generated_rejected_by_asmjit": gen["rejects"],
        "interop_generated_rejected_samples": gen["samples"][:6],
        "interop_generated_samples": ["%s(%s)" % (x[0], ",".join(x[1])) for x in gsigs[:3]] + ["%s(%s) variadic from %d, compilers' AL=%s" % (x[0], ",".join(x[1]), x[2], x[3]) for x in vfull[:3]],
        "interop_variadic_signatures": len(vfull),
        "interop_variadic_with_compiler_al_verdict": sum(1 for x in vfull if x[3] is not None),
        "interop_callee_libraries": len(libs),
        "interop_callee_libraries_compiled": compiled,
        "interop_calls_through_preserved_register_guard": guard["calls"],
        "interop_guard_registers_compared": guard["regs"],
        "interop_functions_built_by_kind": built_by,
        "interop_calls_of_functions_that_call_the_other_convention": cross["cross_calls"],
        "interop_clobber_helper_runs": cross["helper_runs"],
        "interop_values_live_across_a_call_compared": cross["live_values"],
    })
    # floors: every direction x convention x new dimension must have produced functions that ran
    need = ["jit-caller:sysv64", "jit-caller:win64", "jit-caller:sysv64:live", "jit-caller:win64:live", "jit-caller:sysv64:target-in-register", "jit-caller:win64:target-in-register",
            "jit-caller:sysv64:va", "jit-caller:sysv64:va:live:target-in-register", "jit-caller:win64:va",
            "jit-callee:sysv64", "jit-callee:win64", "jit-callee:win64:calls-sysv", "jit-callee:sysv64:calls-win64", "lightcall:live:calls-sysv"]
    missing = [k for k in need if not built_by.get(k)]
    if missing:
        raise common.HarnessError("interop workload built no function of kind %s (built: %s)" % (missing, built_by))
    for k2, v2 in cross.items():
        if not v2:
            raise common.HarnessError("interop workload observed nothing of kind %s" % k2)
    return calls


def cpu_flags():
    try:
        txt = open("/proc/cpuinfo").read()
    except OSError:
        return ()
    m = re.search(r"^flags\s*:\s*(.*)$", txt, re.M)
    fl = set(m.group(1).split()) if m else set()
    if "avx512f" in fl:
        return ("-mavx512f",)
    if "avx2" in fl:
        return ("-mavx2",)
    return ()


def replay(chk, rp, exe_asan, exe_plain):
    case = rp["case"]
    part = case.get("part")
    if part == "classify":
        line = case["line"]
        tok = line.split()
        s = (tok[0], tok[1], None if tok[2] == "-" else int(tok[2]), tok[3], tuple(tok[4:]), "replay")
        recs = run_classify(exe_asan, [s], chk, None)
        d, rep = recs[0] if recs[0] else (None, None)
        if rep is not None:
            chk.violation(rp["key"], "sanitizer report again: %s" % rep["kind"], case)
        orcs = ap.oracles_for(s[0], s[1])
        acc = {"unparsed": 0, "ambiguous": 0, "asmjit_rejected": 0, "judged": 0, "unparsed_samples": [], "ambiguous_samples": [], "ambiguous_by_type": {}}
        if orcs:
            st = ap.Stats()
            res = [ap.probe_many(o, [(s[3], s[4], s[2])], st)[0] for o in orcs]
            viol, verdict = compare_signature(s, d, res, orcs, acc)
        else:
            viol = check_lightcall(s, d)
        for key, what in viol:
            chk.violation(key, what, case)
        n = 1
    elif part == "shuffle":
        exe = exe_asan if case.get("flavour") == "asan" else exe_plain
        rc, out, err = common.run_child([exe] + case["argv"], timeout=600)
        rep = common.sanitizer_report(err)
        if rep:
            chk.violation(rp["key"], "sanitizer report again: %s %s" % (rep["kind"], rep["frames"][:4]), case)
        n = 0
        for ln in out.decode("utf-8", "replace").splitlines():
            try:
                c = json.loads(ln)
            except ValueError:
                continue
            if "code" not in c:
                continue
            arch = c["arch"]
            insts = disassemble([bytes.fromhex(c["code"])], arch)[0]
            c["_split"] = len(disassemble([bytes.fromhex(c["code"])[:c["plen"]]], arch)[0])
            c["_argv"] = " ".join(case["argv"])
            viol, verdict = judge_case(c, insts)
            pviol, _ = judge_preserved(c, insts, case_text(c))
            n += 1
            print("\n".join("  " + " ".join(x) for x in insts))
            for key, what in viol + pviol:
                chk.violation(key, what, case)
    elif part == "invoke":
        exe = exe_asan if case.get("flavour") == "asan" else exe_plain
        cases, summ, aborts, rc, err = run_invoke_job(exe, case["argv"])
        for bad, rep, av in aborts:
            chk.violation(rp["key"], "again: %s %s" % (rep["kind"], rep["frames"][:4]), case)
        n = 0
        for c in cases:
            n += 1
            if "err" in c:
                chk.violation("invoke:%s:refused:%s" % (conv_key(c["env"], c["conv"]), refusal_feature(c)), "Compiler::finalize() returned %s: %s" % (c["err"], invoke_text(c)), case)
                continue
            insts = disassemble([bytes.fromhex(c["code"])], c["arch"])[0]
            print("\n".join("  " + " ".join(x) for x in insts))
            viol, verdict, f = judge_invoke(c, insts)
            for key, what in viol:
                chk.violation(key, what, case)
    else:
        exe = exe_asan if case.get("flavour") == "asan" else exe_plain
        if "callee_sigs" in case and "--callees" in case["argv"]:
            so, _ = build_callee_lib([tuple(x) for x in case["callee_sigs"]], cpu_flags())
            case["argv"][case["argv"].index("--callees") + 1] = so
        rc, out, err = common.run_child([exe] + case["argv"], timeout=1800)
        rep = common.sanitizer_report(err)
        if rep:
            chk.violation(rp["key"], "sanitizer report again: %s %s" % (rep["kind"], rep["frames"][:4]), case)
        else:
            res = json.loads(out.decode().strip().splitlines()[-1])
            for v in res["violations"]:
                chk.violation(v["key"], v["what"], case)
        n = 1
    chk.coverage.update({"evaluations": max(n, 1), "distinct_nontrivial": 2, "rule": "replay of one recorded case", "samples": [case]})
    return chk.finish()


def run(tier, args):
    chk = common.Check("C06", tier)
    flags = cpu_flags()
    exe_asan = build.build_driver("drv_func", "asan", extra_cflags=flags)
    exe_plain = build.build_driver("drv_func", "plain", extra_cflags=flags)
    if args.replay:
        return replay(chk, json.load(open(args.replay)), exe_asan, exe_plain)
    cov = {}
    import time
    walls = {}
    t0 = time.time()
    nd_a, samples_a, n_a = workload_a(chk, exe_asan, tier, args.scale, cov)
    walls["A classify"] = round(time.time() - t0, 1)
    t0 = time.time()
    calls = workload_b(chk, exe_plain, exe_asan, tier, args.scale, cov)
    walls["B interop"] = round(time.time() - t0, 1)
    t0 = time.time()
    nd_c, samples_c, n_c = workload_c(chk, exe_plain, exe_asan, tier, args.scale, cov)
    walls["C shuffle"] = round(time.time() - t0, 1)
    t0 = time.time()
    nd_d, n_d = workload_d(chk, exe_plain, exe_asan, tier, args.scale, cov)
    walls["D invoke"] = round(time.time() - t0, 1)
    cov["workload_wall_s"] = walls
    chk.coverage.update(cov)
    chk.coverage.update({
        "evaluations": n_a + n_c + calls + n_d,
        "distinct_nontrivial": nd_a + nd_c + nd_d,
        "rule": "one evaluation = one signature classified by FuncDetail::init, one entry sequence emitted by emit_args_assignment, or one native call. "
                "distinct_nontrivial = distinct (convention, varargs, return type, argument types) for which gcc 12 and clang 14 gave an unambiguous verdict "
                "(both agree where both support the target; ambiguous and unparsed signatures are not counted) + distinct assignment shapes "
                "(multiset of roles self/swap/cycleN/chain, counts of reg->stack, stack->reg, stack->stack moves, widening, SA register requested, dynamic "
                "alignment, frame pointer) that contain at least one cycle/chain/self move, stack move or extension, whose emitted bytes were checked",
        "exhaustive": False,
        "exhaustive_subspace": "every signature of <= 2 arguments over the %d-type alphabet, <= 3 arguments over the %d-type reduced alphabet, and every single return type, "
                               "for each convention with weight >= 0.5 (see CONVS)" % (len(FULL), len(RED)),
        "samples": samples_a[:3] + samples_c[:3],
    })
    chk.assumptions += [
        "oracle for argument/return locations = what gcc 12 and clang 14 generate for probe functions (callee side: where does a_k come from; variadic: where does the caller put v_k); "
        "gcc and clang must agree where both support the target, otherwise the signature is excluded as ambiguous; vectorcall, i386-windows, AArch64 and Apple arm64 have clang as the only oracle",
        "variadic (caller-side) probes give the set of places that hold the value at the call instruction; stale temporaries can only widen that set",
        "x86 probes are compiled with -mavx512f -mavx512bw -mmmx: AsmJit assumes the vector registers it names exist",
        "mask types are compared with their C typedef (__mmask8..64 = unsigned integer types); MMX with the compilers' __m64",
        "preserved sets / red zone / spill zone: table written from the SysV x86-64, Microsoft x64, i386 and AAPCS64 documents, confirmed at run time by clobber-all and leaf-frame probes; sp, x18 and x30 are not compared; a smaller red zone than the ABI's is accepted",
        "light-call conventions: internal consistency only (FuncDetail well-formed; JIT caller/JIT callee pairs exchange values natively)",
        "workload C runs natively on x86-64 and, through a far call into the kernel's 32-bit user code segment (selector 0x23; code, stack and machine image below 4 GiB), on x86-32; "
        "AArch64 entry sequences are compile-only; the bytes of all three are disassembled by objdump / llvm-objdump and executed symbolically (byte-level symbols)",
        "preserved-register oracle (executed): the sets are written down from the ABI documents in the driver (SysV x86-64: rbx rbp r12-r15; Microsoft x64/vectorcall: + rsi rdi xmm6-xmm15 (low 128 bits); "
        "i386: ebx ebp esi edi), not read from the library; light-call conventions have no platform ABI, there the convention's own CallConv::preserved_regs() is what its callers rely on; "
        "the stack pointer after the return must be the one at the call (+ the argument bytes where the i386 convention is callee-pops); interop: JIT functions called from gcc-built code "
        "and from the driver are entered through a transparent guard thunk (return address popped to memory, target re-called, so stack arguments stay in place)",
        "preserved-register rule (static, all architectures): a register of the preserved set that the emitted prolog / argument shuffle writes (first operand of a non-compare instruction, both of xchg, "
        "pop, ldp; `mov r,r` of full width is no write) must be in FuncFrame::saved_regs() and a prolog instruction before the write must store it; violation keys carry the role of the register "
        "(sa-base:requested|picked, sa-out-differs-from-frame-sa, argument-destination, scratch), not its name",
        "narrow integer arguments carry junk above their declared width (the ABI does not promise more); destinations are compared on the bytes of the destination type only; mixed-signedness widenings are not generated",
        "an error returned by update_func_frame/emit_args_assignment for a valid assignment and by Compiler::finalize for a call site / function with a valid signature is a refusal: "
        "it is reported under a key that names what in the input explains it (shuffle:*:refused:<feature>, interop:<conv>:<who>:refused:<feature>, invoke:<conv>:refused:<feature>); "
        "the classes that exist today are recorded findings, a new class is a violation (a regression that makes the Compiler refuse a whole class would otherwise only shrink coverage)",
        "call-site workload (D): symbolic execution of the emitted bytes (objdump / llvm-objdump text, byte-level symbols). What a call does: every register outside the callee convention's preserved set "
        "(ABI table: SysV rbx rbp r12-r15; Microsoft x64/vectorcall + rsi rdi and the low 128 bits of xmm6-15; i386 ebx ebp esi edi; AAPCS64/Apple x19-x29 and the low 64 bits of v8-v15; "
        "light-call: the convention's own record, 16 bytes per vector register) and the callee's incoming argument area become unknown, callee-pops conventions move sp; the return registers FuncDetail names hold the result. "
        "Argument bytes are compared on the width of the argument type only (no extension demanded); by-reference copies must be aligned to their size; sp must be 16-byte aligned at the call on x86-64 and AArch64 "
        "(i386 is not judged: psABI/Windows say 4, Linux compilers keep 16); a store that starts inside the outgoing argument area may not reach FuncFrame::local_stack_offset() (where the function's own data starts)",
        "CallConv::natural_stack_alignment(): 16 on x86-64 and AArch64; on i386 both 4 (original psABI, Windows) and 16 (what gcc/clang maintain on Linux) are accepted",
        "FuncValue::type_id(): the signature type, except that return values narrower than 32 bits are reported as i32/u32 and a 64-bit integer on x86-32 is the pack (u32, i32|u32); reg_type() must be at least as wide as the type",
        "signatures on which gcc and clang disagree are compared with each compiler's whole view separately: AsmJit must equal one of them (else classify:<conv>:matches-neither:<class of the disputed type>); "
        "structural facts (no register twice, no overlapping stack arguments, arg_stack_size covers them) are checked for every signature",
        "ASan/UBSan flavour: classification, a slice of workload C without execution, one interop pass; plain -O2 flavour: native execution",
        "mutation self-test (quick tier, seed 1, scratch copies, 2026-09-27): SysV passed order rdi<->rsi swapped -> classify:sysv64:int:reg-gp-id + interop:sysv64:*:arg:int; "
        "Win64 `stack_offset += 8` dropped for indirect vectors -> classify:win64:*:after-ind-stack; no-progress (kWorkPostponed) check removed from emit_args_assignment -> "
        "shuffle:x64|x86:hang:emit-does-not-terminate; Int8->Int32 removed from the movsx list -> shuffle:x64|x86:sext:int:*:via-movzx; all four seen as keys absent from the unmutated run",
        "mutation self-test of the round-11 dimensions (quick tier, seed 1, scratch copies, 2026-09-27): a64 move_reg_to_stack_arg offset+8 -> invoke:a64-*:arg:*:stack; x86 second return register bound to EBX -> "
        "invoke:x86-*:ret:int:reg-gp; x86 on_invoke clobber set taken from the caller's convention -> interop:win64:jit-callee:calls-sysv:callee-saved-clobbered:{rsi,rdi,xmm6-15} + "
        "invoke:caller-win64:callee-sysv64:preserved-register-not-restored:* + invoke:sysv64:value-live-across-call-lost:*; Win64 natural stack alignment 32 -> classify:win64:natural-stack-alignment "
        "(+ invoke:win64:by-reference-copy-misaligned); Win64 vector-register call sites refused -> interop:win64:jit-caller:refused:plain-signature + invoke:win64:refused:*; a64 vec128 -> kVec64 -> "
        "classify:a64-*:reg-type:v128; a64 unsigned narrow returns typed i32 -> classify:a64-*:ret:type-id:int; Win64 8-byte vectors never in the positional GP register -> classify:win64:matches-neither:v64; "
        "mask destination always kmovb / 8-byte MMX load with movd -> shuffle:x64|x86:move:*:stack->reg:via-kmovb|via-movd",
    ]
    return chk.finish()
