"""C11 - JIT memory management and independent code generation are thread-safe.

Runtime monitoring: drv_threads runs 2..16 threads against ONE JitAllocator and ONE JitRuntime (plus a thread that
walks the allocator bookkeeping through hook H2, plus threads that assemble/build/compile with private objects)
 * in the `tsan` build  -> ThreadSanitizer reports are collected from log files, de-duplicated and judged here;
 * in the `asan` build  -> the driver's own C09-style monitors (owner stamps, interval set at the API boundary,
                           query/statistics bounds, H2, quiescent accounting, byte equality of generated code).
Host information is initialised by the driver's main thread first: that is the property's precondition.

Round 11 additions (all in both flavours unless noted): private threads that create/use/destroy their OWN JitAllocator and
JitRuntime (dual mapping, immediate release, custom pattern; reference programs added and compared byte for byte, compiled
functions executed); reader threads (query/statistics only, no harness lock); sentinel threads owning file descriptors;
monitors on the process-wide resources behind the API - close() through --wrap (a descriptor AsmJit closes must be open
and not a harness thread's), asan flavour: mmap()/munmap() through --wrap (only what AsmJit mapped may be unmapped,
nothing stays mapped at the end); emitter threads with validation on, InstAPI queries, a64/x86-32 Builder, constant
pools, jump annotations, named labels, a second section with cross-section fixups and relocations, host CPU features;
JitRuntime::add() programs whose address-table slots are dropped (real shrink by >= 1 granule under contention); empty
block policy and REQUESTED fill pattern in the quiescent checks; drv_hostinit also races the first use of VirtMem::info(),
large_page_size(), allocator defaults and the first dual-mapped block."""
import glob
import json
import os
import re
import shutil
import threading

from vlib import build, common

DUAL, MULTI, FILL, IMM, LARGE, CUSTOM = 1, 2, 4, 8, 0x20, 0x10000000

# every close() (and in the asan flavour every mmap()/munmap()) issued by libasmjit.a goes through the driver's monitors
WRAP_CLOSE = ["-Wl,--wrap=close"]
WRAP_MAPS = ["-Wl,--wrap=mmap", "-Wl,--wrap=munmap"]

# (allocator options, runtime allocator options, profile, granularity)
CONFIGS = [
    (0, 0, 0, 0),
    (DUAL | FILL, DUAL, 2, 0),
    (MULTI, MULTI, 0, 0),
    (IMM, IMM | FILL, 1, 0),
    (0, 0, 3, 128),
    (DUAL | MULTI | FILL | IMM, DUAL | MULTI | FILL | IMM, 2, 0),
    (FILL, 0, 1, 256),
    (MULTI | IMM, DUAL | FILL, 3, 0),
    (LARGE | FILL, LARGE, 0, 0),      # large pages are unavailable here: exercises the fallback path
    (FILL | CUSTOM | IMM, DUAL | IMM, 1, 0),   # custom fill pattern: memory is compared with the REQUESTED pattern
]
THREAD_PLANS = [[2, 8, 16], [4, 12, 3], [8, 16, 2], [16, 5, 8], [3, 8, 16], [6, 2, 10], [16, 16, 4], [2, 3, 7]]


def make_jobs(tier, seed, scale):
    rng = common.Rng(seed * 1000003 + 11)
    side = common.Rng(seed * 1000003 + 12)     # picks of dimensions added later: the main stream stays as it was
    jobs = []
    if tier == "quick":
        reps = {"tsan": 6, "asan": 6}
        ops = max(200, int(12000 * scale))
        emit_iters = max(10, int(200 * scale))
        emit_threads = 3
    else:
        reps = {"tsan": 50, "asan": 30}
        ops = max(200, int(30000 * scale))
        emit_iters = max(10, int(400 * scale))
        emit_threads = 4
    for flavour in ("tsan", "asan"):
        for i in range(reps[flavour]):
            k = i + (3 if flavour == "asan" else 0)
            opt, rtopt, prof, gran = CONFIGS[k % len(CONFIGS)]
            if flavour == "asan" and i == reps[flavour] - 1:
                opt, rtopt, prof, gran = CONFIGS[9]     # the custom-pattern configuration is part of every run
            plan = list(THREAD_PLANS[(k + rng.below(len(THREAD_PLANS))) % len(THREAD_PLANS)])
            if tier != "quick":
                plan.append(rng.choice([2, 4, 8, 16]))
                if i >= len(CONFIGS):   # later repetitions: random pairing of options / profile
                    opt, rtopt = rng.below(16) | (LARGE if rng.chance(1, 6) else 0), rng.below(16)
                    if (opt & FILL) and side.chance(1, 3):
                        opt |= CUSTOM
                    prof = rng.below(4)
                    gran = rng.choice([0, 0, 128, 256])
            argv = ["--seed", str(rng.next() % (1 << 40)), "--threads", ",".join(map(str, plan)), "--ops", str(ops),
                    "--options", str(opt), "--rt-options", str(rtopt), "--profile", str(prof), "--granularity", str(gran),
                    "--emit-threads", str(emit_threads), "--emit-iters", str(emit_iters),
                    "--private-threads", str(3 if tier == "quick" else 4), "--private-iters", str(max(4, int((60 if tier == "quick" else 100) * scale))),
                    "--reader-threads", "2", "--sentinel-threads", "2", "--fill-pattern", "0x5AA5C33C" if opt & CUSTOM else "0",
                    "--noise", str(1 + rng.below(3)), "--block-size", str(rng.choice([65536, 65536, 131072]))]
            jobs.append({"flavour": flavour, "argv": argv})
    return jobs


# -- ThreadSanitizer report parsing ---------------------------------------------------------------------------

_FRAME = re.compile(r"^\s+#(\d+)\s+(.*)$")
_MODOFF = re.compile(r"\s+\([^()]*\+0x[0-9a-f]+\)\s*$")
_FILELINE = re.compile(r"\s+(\S+?):(\d+)(:\d+)?\s*$")
_ABI = re.compile(r"\b(_abi_\d+_\d+|v\d+_\d+)::")
_ASMJIT = re.compile(r"(^|[\s*&])asmjit::")
_SECONDARY = re.compile(r"^(Thread T\d+|Location is|Mutex M\d+ \(0x[0-9a-f]+\) created at|Thread T\d+ .* created by|As if synchronized via)")


def strip_templates(t):
    """Remove balanced <...> groups (template arguments), keeping operator< / operator<< / operator<= / operator->."""
    out = []
    depth = 0
    i = 0
    n = len(t)
    while i < n:
        c = t[i]
        if depth == 0 and t.startswith("operator", i):
            m = re.match(r"operator\s*(<<=|>>=|<=>|<<|>>|<=|>=|->\*|->|<|>)?", t[i:])
            out.append(m.group(0))
            i += len(m.group(0))
            continue
        if c == "<":
            depth += 1
        elif c == ">" and depth > 0:
            depth -= 1
        elif depth == 0:
            out.append(c)
        i += 1
    return "".join(out)


def frame_function(text):
    """'asmjit::v1_21::JitAllocator::query(...) const /repo/x.cpp:12 (drv+0x1)' -> ('asmjit::JitAllocator::query', '/repo/x.cpp')
    The name carries no return type, no template arguments, no parameter list, no ABI namespace, no line number."""
    t = _MODOFF.sub("", text)
    src = ""
    m = _FILELINE.search(t)
    if m:
        src = m.group(1)
        t = t[:m.start()]
    t = t.replace(" <null>", "").strip()
    t = _ABI.sub("", t)
    t = strip_templates(t)
    name = t.split("(", 1)[0].strip() or t
    if " " in name and not name.startswith("operator") and "operator " not in name:
        name = name.split()[-1]            # drop the return type printed for template instantiations
    return name, src


def is_asmjit(name, src=""):
    """A frame belongs to AsmJit if its function is in namespace asmjit, is one of the ASMJIT_VERIF hooks, or its source
    file lies under <repo>/asmjit (static helpers are printed without their namespace in -g1 builds)."""
    if _ASMJIT.search(name) or name.startswith("asmjit_verif_"):
        return True
    return bool(src) and os.path.abspath(src).startswith(os.path.join(os.path.abspath(common.REPO), "asmjit") + os.sep)


def parse_tsan(text):
    """Split a TSan log into reports: {kind, stacks: [{header, frames: [(name, src)], primary}], raw}."""
    reports = []
    cur = None
    stack = None
    for line in text.splitlines():
        if "WARNING: ThreadSanitizer:" in line or "ERROR: ThreadSanitizer:" in line:
            kind = line.split("ThreadSanitizer:", 1)[1].strip()
            kind = re.sub(r"\s*\(pid=\d+\)\s*$", "", kind)
            if "ERROR:" in line:
                kind = "crash " + kind.split(" on ")[0].split(" (")[0]
                cur = {"kind": kind, "stacks": [{"header": "crash", "frames": [], "primary": True}], "raw": [line]}
                stack = cur["stacks"][0]
            else:
                cur = {"kind": kind, "stacks": [], "raw": [line]}
                stack = None
            reports.append(cur)
            continue
        if cur is None:
            continue
        if line.startswith("SUMMARY: ThreadSanitizer") or line.startswith("=================="):
            if line.startswith("SUMMARY"):
                cur["raw"].append(line)
                cur = None
            continue
        cur["raw"].append(line)
        m = _FRAME.match(line)
        if m:
            if stack is None:
                stack = {"header": "?", "frames": [], "primary": True}
                cur["stacks"].append(stack)
            stack["frames"].append(frame_function(m.group(2)))
            continue
        s = line.strip()
        if not s:
            stack = None
            continue
        if s.endswith(":") or "[failed to restore the stack]" in s:
            stack = {"header": s, "frames": [], "primary": not _SECONDARY.match(s)}
            if "[failed to restore the stack]" in s:
                stack["lost"] = True
            cur["stacks"].append(stack)
    for r in reports:
        r["raw"] = "\n".join(r["raw"])
    return reports


def outermost_asmjit(stack):
    """Entry point through which the harness entered AsmJit in this stack (frame farthest from #0)."""
    out = None
    for name, src in stack["frames"]:
        if is_asmjit(name, src):
            out = name
    return out


def judge_report(rep):
    """-> (involves_asmjit, key, dedup_signature)"""
    prim = [s for s in rep["stacks"] if s["primary"]]
    ends = []
    for s in prim[:2] if rep["kind"].startswith("data race") else prim:
        o = outermost_asmjit(s)
        if o is None:
            o = "?" if (s.get("lost") or not s["frames"]) else "<harness>"
        ends.append(o)
    involved = any(e not in ("?", "<harness>") for e in ends)
    ends = sorted(set(ends)) if len(ends) > 2 else sorted(ends)
    kind = re.sub(r"[^a-zA-Z0-9]+", "-", rep["kind"]).strip("-").lower()
    key = "tsan:%s:%s" % (kind, "|".join(ends) if ends else "?")
    sig = (kind, tuple(tuple(n for n, _ in s["frames"]) for s in prim))
    return involved, key, sig


# -- running --------------------------------------------------------------------------------------------------

# measured counters of the dimensions added in round 11 (summed over jobs)
NEW_COUNTERS = ("private_allocators", "private_runtimes", "private_allocs", "private_dual_allocs", "private_blocks_cycled",
                "private_adds_compared", "private_compiled_calls", "private_bytes_verified", "reader_queries", "reader_query_hits",
                "reader_statistics", "sentinel_rounds", "closes_seen", "closes_seen_concurrent", "maps_made", "unmaps_made",
                "rt_near_call_adds", "rt_real_shrinks", "emit_validated", "emit_api_probes", "emit_with_host_features",
                "emit_multi_section", "emit_const_pool", "empty_policy_checks",
                "doomed_allocs", "doomed_adds", "doomed_calls_refused", "doomed_served_from_mapped_memory",
                "refused_block_mappings", "refused_block_mappings_with_2_other_threads_inside")
# (doomed_served_from_mapped_memory may legitimately be 0)
OPTIONAL_COUNTERS = ("doomed_served_from_mapped_memory",)

# every single job must have observed these (a job in which a monitor saw nothing says nothing about that job's schedule)
PER_JOB_REQUIRED = {
    "tsan": ("private_allocators", "private_dual_allocs", "reader_queries", "closes_seen_concurrent", "emit_api_probes",
             "refused_block_mappings_with_2_other_threads_inside"),
    "asan": ("private_allocators", "private_dual_allocs", "reader_queries", "closes_seen_concurrent", "emit_api_probes", "maps_made", "unmaps_made",
             "sentinel_rounds", "refused_block_mappings_with_2_other_threads_inside"),
}

def run_job(exe, job, logroot, idx):
    argv = job["argv"]
    env = {}
    logdir = None
    if job["flavour"] == "tsan":
        logdir = os.path.join(logroot, "job%d" % idx)
        os.makedirs(logdir, exist_ok=True)
        env["TSAN_OPTIONS"] = ("halt_on_error=0:log_path=%s/tsan:second_deadlock_stack=1:history_size=5:"
                               "exitcode=66:report_thread_leaks=1" % logdir)
    try:
        rc, out, err = common.run_child([exe[job["flavour"]]] + argv, timeout=900, env=env, retries=0)
    except common.HarnessError as e:
        return {"job": job, "timeout": str(e), "tsan_text": "", "rc": None, "out": b"", "err": b""}
    text = ""
    if logdir:
        for f in sorted(glob.glob(os.path.join(logdir, "tsan*"))):
            with open(f, errors="replace") as fh:
                text += fh.read() + "\n"
        text += err.decode("utf-8", "replace")
    return {"job": job, "rc": rc, "out": out, "err": err, "tsan_text": text}


def run(tier, args):
    chk = common.Check("C11", tier)
    exe = {
        "tsan": build.build_driver("drv_threads", "tsan", extra_ldflags=WRAP_CLOSE + WRAP_MAPS[:1]),   # mmap only: fault injection
        "asan": build.build_driver("drv_threads", "asan", extra_cflags=["-DVERIF_COUNT_LOCKS", "-DVERIF_TRACK_MAPS"],
                                   extra_ldflags=WRAP_CLOSE + WRAP_MAPS),
    }
    hexe = build.build_driver("drv_hostinit", "plain")
    if args.replay:
        rp = json.load(open(args.replay))
        jobs = [{"flavour": rp["case"]["flavour"], "argv": rp["case"]["argv"]}] * 5   # schedules vary: try 5 times
    else:
        jobs = make_jobs(tier, chk.seed, args.scale)

    logroot = os.path.join(build.CACHE, "c11-run-%d" % os.getpid())
    shutil.rmtree(logroot, ignore_errors=True)
    os.makedirs(logroot)
    # concurrent FIRST use (see below) runs in forked children of its own driver, next to the thread jobs
    hres = {}

    def host_job():
        try:
            hres["r"] = common.run_child([hexe, "--trials", str(400 if tier == "quick" else 6000), "--seed", str(chk.seed)], timeout=2400)
        except common.HarnessError as e:
            hres["e"] = e
    hthread = threading.Thread(target=host_job)
    hthread.start()
    try:
        results = common.parallel_map(lambda ij: run_job(exe, ij[1], logroot, ij[0]), list(enumerate(jobs)))
    finally:
        shutil.rmtree(logroot, ignore_errors=True)
        hthread.join()

    ops, emit, pairs = {}, {}, {}
    tot = {}
    thread_counts = set()
    phases = 0
    samples = []
    inconclusive = []
    harness_only = []
    tsan_raw = 0
    tsan_sigs = set()
    tsan_asmjit_keys = {}
    runs = {"tsan": 0, "asan": 0}
    zero_jobs = 0
    starved = []

    for res in results:
        job = res["job"]
        fl = job["flavour"]
        case = {"flavour": fl, "argv": job["argv"]}
        if res.get("timeout"):
            inconclusive.append("%s %s: %s" % (fl, job["argv"], res["timeout"]))
            continue
        runs[fl] += 1
        # 1. sanitizer reports
        if fl == "tsan":
            for rep in parse_tsan(res["tsan_text"]):
                tsan_raw += 1
                involved, key, sig = judge_report(rep)
                tsan_sigs.add(sig)
                if involved:
                    tsan_asmjit_keys[key] = tsan_asmjit_keys.get(key, 0) + 1
                    c = dict(case)
                    c["report"] = rep["raw"][:6000]
                    chk.violation(key, "ThreadSanitizer: %s; stacks: %s" % (
                        rep["kind"], " || ".join(" <- ".join(n for n, _ in s["frames"][:6]) for s in rep["stacks"] if s["primary"])[:1500]), c)
                else:
                    harness_only.append((key, rep["raw"][:3000]))
        else:
            rep = common.sanitizer_report(res["err"])
            if rep:
                top = next((f for f in rep["frames"] if "asmjit" in f), None)
                if top is None:
                    inconclusive.append("asan report without asmjit frame under %s: %s %s" % (job["argv"], rep["kind"], rep["frames"][:6]))
                else:
                    name, _ = frame_function(top)
                    chk.violation("sanitizer:%s:%s" % (rep["kind"].split(" on ")[0][:60], name[:100]),
                                  "sanitizer report under concurrency %s: %s %s" % (job["argv"], rep["kind"], rep["frames"][:6]), case)
                continue
        # 2. driver summary
        try:
            d = json.loads(res["out"].decode().strip().splitlines()[-1])
        except Exception:
            crashed = any(k.startswith("tsan:crash") for k in tsan_asmjit_keys)
            errtxt = res["err"].decode("utf-8", "replace")
            if "Assertion `mutex->__data.__owner == 0' failed" in errtxt or "__pthread_mutex_unlock_usercnt" in errtxt or "__pthread_tpp_change_priority" in errtxt:
                # glibc found a mutex locked by nobody / by somebody else: the harness only uses scoped std::mutex guards, the allocator's
                # lock is the one mutex that AsmJit operates by hand
                chk.violation("crash:glibc-mutex-owner-assertion", "[%s build] the driver died in a glibc mutex consistency assertion while threads used one "
                              "allocator (a mutex was unlocked by a thread that did not hold it): %s" % (fl, errtxt[-300:].strip()), case)
            elif not crashed:
                inconclusive.append("driver %s %s rc=%s produced no summary: %s" % (fl, job["argv"], res["rc"], res["err"][-600:]))
            continue
        for v in d["violations"]:
            if v["key"].startswith("harness:"):
                inconclusive.append("%s: %s" % (v["key"], v["what"]))
            else:
                chk.violation(v["key"], "[%s build] %s" % (fl, v["what"]), case)
        for k, v in d["ops"].items():
            ops[k] = ops.get(k, 0) + v
        for k, v in d["emit"].items():
            emit[k] = emit.get(k, 0) + v
        for k, v in d["pairs"].items():
            pairs[k] = pairs.get(k, 0) + v
        for k in ("overlap_events", "emit_log_compared", "bytes_verified", "fill_checked", "fn_calls", "handovers", "yields", "sleeps",
                  "h2_walks_quiescent", "h2_walks_concurrent", "quiescent_checks", "interval_checks", "lock_acquisitions",
                  "reference_programs", "reference_programs_ok") + NEW_COUNTERS:
            tot[k] = tot.get(k, 0) + d[k]
        if d.get("custom_pattern") and d.get("fill_checked"):
            tot["custom_pattern_fill_checks"] = tot.get("custom_pattern_fill_checks", 0) + d["fill_checked"]
        for k in NEW_COUNTERS:
            if k in PER_JOB_REQUIRED.get(fl, ()) and not d[k]:
                starved.append("%s=0 in %s job %s" % (k, fl, job["argv"][:8]))
        for k in ("max_blocks", "max_live"):
            tot[k] = max(tot.get(k, 0), d[k])
        if sum(d["ops"].values()) == 0 or not d["warm"]:
            zero_jobs += 1
        for ph in d["phases"]:
            phases += 1
            thread_counts.add(ph["threads"])
        if len(samples) < 4:
            top = sorted(d["pairs"].items(), key=lambda kv: -kv[1])[:5]
            samples.append({"build": fl, "driver_args": job["argv"], "phases": d["phases"], "ops": d["ops"],
                            "most_frequent_overlaps": dict(top)})

    if args.replay and not chk.violations:
        chk.note("replay: %d re-executions did not reproduce the report (schedules are not deterministic)" % len(jobs))

    # concurrent FIRST use: threads of a fresh process that create their own JitRuntime at the same moment must all see the
    # complete host description (functional monitor in forked children; the lock-free initialisation is not given to TSan)
    if "e" in hres:
        raise hres["e"]
    rc, out, err = hres["r"]
    try:
        hostinit = json.loads(out.decode().strip().splitlines()[-1])
    except (ValueError, IndexError):
        raise common.HarnessError("drv_hostinit failed: rc=%s %s" % (rc, err[-300:]))
    if hostinit["mismatches"]:
        chk.violation("host-info:concurrent-first-use:incomplete", "%d of %d fresh processes: %s" % (hostinit["mismatches"], hostinit["trials"], hostinit["first"]),
                      {"case": {"flavour": "hostinit", "argv": ["--trials", "400", "--seed", str(chk.seed)]}})
    chk.coverage.update({
        "concurrent_first_use_of_host_info": hostinit,
        "evaluations": phases,
        "distinct_nontrivial": len(pairs),
        "rule": "one evaluation = one concurrent phase (n worker threads on one allocator + one runtime, a walker thread, emitter threads) "
                "followed by a quiescent check; distinct_nontrivial = distinct (operation A, operation B) pairs that were observed "
                "overlapping in time (call..return intervals from one monotonic clock intersect) from two different threads on the "
                "same allocator object",
        "samples": samples,
        "operations_by_kind": ops,
        "programs_generated_in_threads_by_emitter": emit,
        "programs_logger_text_compared": tot.get("emit_log_compared", 0),
        "reference_programs": tot.get("reference_programs", 0),
        "reference_programs_generated_ok": tot.get("reference_programs_ok", 0),
        "worker_thread_counts_used": sorted(thread_counts),
        "overlapping_operation_pairs": dict(sorted(pairs.items(), key=lambda kv: -kv[1])),
        "overlap_events": tot.get("overlap_events", 0),
        "tsan_repetitions": runs["tsan"],
        "asan_repetitions": runs["asan"],
        "tsan_reports_raw": tsan_raw,
        "tsan_reports_deduplicated": len(tsan_sigs),
        "tsan_reports_with_asmjit_frames_by_key": tsan_asmjit_keys,
        "tsan_reports_harness_only": len(harness_only),
        "pthread_mutex_lock_calls_inside_asmjit_calls_asan_build": tot.get("lock_acquisitions", 0),
        "h2_walks_concurrent": tot.get("h2_walks_concurrent", 0),
        "h2_walks_quiescent": tot.get("h2_walks_quiescent", 0),
        "quiescent_checks": tot.get("quiescent_checks", 0),
        "interval_set_checks": tot.get("interval_checks", 0),
        "bytes_compared_with_owner_stamp": tot.get("bytes_verified", 0),
        "fill_pattern_checks": tot.get("fill_checked", 0),
        "jit_functions_called": tot.get("fn_calls", 0),
        "cross_thread_handovers": tot.get("handovers", 0),
        "noise_yields": tot.get("yields", 0),
        "noise_sleeps": tot.get("sleeps", 0),
        "max_live_spans": tot.get("max_live", 0),
        "max_blocks": tot.get("max_blocks", 0),
        "added_dimensions": dict((k, tot.get(k, 0)) for k in NEW_COUNTERS + ("custom_pattern_fill_checks",)),
        "exhaustive": False,
        "jobs": len(jobs),
    })
    chk.assumptions += [
        "precondition of the property: the driver's main thread calls CpuInfo::host(), VirtMem::info(), large_page_size(), "
        "hardened_runtime_info(), Environment::host() and performs one plain, one dual-mapped and one large-page allocation before any thread starts",
        "TSan (gcc -fsanitize=thread, halt_on_error=0) only sees interleavings that happened; reports are keyed by the outermost asmjit "
        "function of each stack; reports with no asmjit frame in any stack are treated as harness bugs (exit 2) unless asmjit reports exist too",
        "reference bytes of every program are produced by the main thread before threads start (this also runs any first-use code of the emitters once)",
        "reset() and the destructor are not documented thread-safe and are only called by the thread that owns the object (shared objects: main thread; "
        "private objects: the thread that created them)",
        "process-wide resources: every close() issued by libasmjit.a is intercepted with the linker's --wrap and must name an open descriptor not owned by a "
        "harness thread (checked while threads run); asan flavour: mmap()/munmap() likewise - AsmJit may only unmap what it mapped, nothing stays mapped at the end",
        "refused block mappings are injected: while a worker issues a request that needs a new block, every mmap() AsmJit makes from that thread "
        "fails with ENOMEM (link-time --wrap in both flavours); 'contended' = at least two other threads were inside allocator calls at that moment",
        "the tsan flavour runs without the harness interval set (its mutex would order all worker operations) and with reader threads that take no harness lock",
        "reference programs with relocations are relocated to a fixed base; InstAPI answers (validate, query_rw_info, query_features, name lookups) are compared "
        "as one hash per (architecture, variant)",
        "overlap in time is measured at the API boundary (call..return); it shows contention, not which interleaving happened inside the lock",
    ]

    if harness_only and not chk.violations:
        for key, raw in harness_only[:3]:
            print("[C11] TSan report without any asmjit frame (%s):\n%s" % (key, raw), flush=True)
        raise common.HarnessError("%d ThreadSanitizer report(s) whose stacks are entirely in harness code" % len(harness_only))
    if harness_only:
        chk.note("%d TSan reports had harness-only stacks (consequences of the asmjit races above: memory handed over without synchronisation)" % len(harness_only))
    if inconclusive and not chk.violations:
        for m in inconclusive[:5]:
            print("[C11] inconclusive: %s" % m, flush=True)
        chk.finish()
        raise common.HarnessError("%d job(s) inconclusive: %s" % (len(inconclusive), inconclusive[0][:300]))
    if inconclusive:
        chk.note("%d job(s) ended without a usable summary (crash/hang after the reported violations)" % len(inconclusive))
    if not chk.violations and not args.replay:
        missing = [k for k in NEW_COUNTERS + ("custom_pattern_fill_checks",) if not tot.get(k) and k not in OPTIONAL_COUNTERS]
        for k in ("vm_values_compared", "dual_allocs_in_racing_threads", "dual_mapping_works"):
            if not hostinit.get(k):
                missing.append("hostinit." + k)
        if missing or starved:
            chk.finish()
            raise common.HarnessError("dimension(s) without a single observation: %s %s" % (missing, starved[:3]))
    if not chk.violations and (zero_jobs or runs["tsan"] < min(5, len(jobs)) and not args.replay):
        chk.finish()
        raise common.HarnessError("too few events: %d jobs without operations, %d TSan repetitions" % (zero_jobs, runs["tsan"]))
    return chk.finish()
